"""REACH: panic sources reachable from an entry set along workspace call-graph edges."""
import json, os, re
from collections import defaultdict, Counter
from facts import CheckerError

HERE = os.path.dirname(os.path.abspath(__file__))
TABLE = os.path.join(HERE, "..", "tables", "panic_sites.json")

# ---- catalogue of panic sources (callee path regex -> short name) -----------------------------------
CATALOGUE = [
    (r"^core::panicking::(panic|panic_fmt|panic_display|panic_explicit|panic_str|unreachable_display|panic_nounwind.*|panic_in_cleanup|assert_failed.*|panic_const::.*)$", "panic"),
    (r"^std::rt::(begin_panic|panic_fmt).*$", "panic"),
    (r"^(std|core)::option::Option::<T>::(unwrap|expect)$", "Option::{m}"),
    (r"^(std|core)::result::Result::<T, E>::(unwrap|expect|unwrap_err|expect_err)$", "Result::{m}"),
    (r"^<std::vec::Vec<T, A> as std::ops::Index(Mut)?<I>>::index(_mut)?$", "Vec::index"),
    (r"^core::slice::index::<impl std::ops::Index(Mut)?<I> for \[T\]>::index(_mut)?$", "slice::index"),
    (r"^core::str::traits::<impl std::ops::Index(Mut)?<I> for str>::index(_mut)?$", "str::index"),
    (r"^<std::string::String as std::ops::Index(Mut)?<I>>::index(_mut)?$", "str::index"),
    (r"^<std::collections::(HashMap|BTreeMap)<.*> as std::ops::Index<.*>>::index$", "Map::index"),
    (r"^<std::collections::VecDeque<T, A> as std::ops::Index(Mut)?<usize>>::index(_mut)?$", "VecDeque::index"),
    (r"^std::vec::Vec::<T, A>::(remove|swap_remove|insert|split_off|drain)$", "Vec::{m}"),
    (r"^(core|std)::slice::<impl \[T\]>::(copy_from_slice|clone_from_slice|split_at|split_at_mut|swap|copy_within|chunks|chunks_exact|windows|rotate_left|rotate_right)$", "slice::{m}"),
    (r"^(core|std)::str::<impl str>::(split_at|split_at_mut)$", "str::{m}"),
    (r"^std::string::String::(remove|insert|insert_str|truncate|split_off|drain|replace_range)$", "String::{m}"),
    (r"^(std|core)::cell::RefCell::<T>::(borrow|borrow_mut)$", "RefCell::{m}"),
    (r"^<std::time::(Instant|SystemTime) as std::ops::(Add|Sub|AddAssign|SubAssign)<std::time::Duration>>::\w+$", "time-arith"),
    (r"^<std::time::Duration as std::ops::(Add|Sub|AddAssign|SubAssign|Mul<u32>|Div<u32>)(<.*>)?>::\w+$", "Duration-arith"),
    (r"^<std::time::Instant as std::ops::Sub>::sub$", None),  # saturating since 1.60
    (r"^(std|core)::time::Duration::(from_secs_f64|from_secs_f32|mul_f64|mul_f32|div_f64|div_f32)$", "Duration::{m}"),
    (r"^generic_array::.*GenericArray<T, N>::(from_slice|from_mut_slice|clone_from_slice)$", "GenericArray::{m}"),
    (r"^generic_array::<impl std::convert::From<&'a \[T\]> for &'a generic_array::GenericArray<T, N>>::from$", "GenericArray::from(&[T])"),
    (r"^<&\[T\] as std::convert::Into<&generic_array::GenericArray<T, N>>>::into$", "GenericArray::from(&[T])"),
    (r"^core::unicode::.*$", None),
    (r"^(std|core)::(thread::local::LocalKey::<T>::with|thread::LocalKey::<T>::with)$", None),
    (r"^std::process::(exit|abort)$", "process::{m}"),
    (r"^(core|std)::hint::unreachable_unchecked$", "unreachable_unchecked"),
    (r"^(core|std)::iter::Iterator::step_by$", "Iterator::step_by"),
    (r"^(core|std)::char::from_digit$", "char::from_digit"),
    (r"^(core|std)::num::<impl \w+>::(pow|abs|div_euclid|rem_euclid|ilog\w*|next_power_of_two)$", "int::{m}"),
    (r"^std::time::SystemTime::(duration_since)$", None),
    (r"^std::time::Instant::(duration_since|elapsed)$", None),
]
CATALOGUE = [(re.compile(r), n) for r, n in CATALOGUE]

ASSERT_KINDS = {"BoundsCheck", "Overflow(Add)", "Overflow(Sub)", "Overflow(Mul)", "Overflow(Shl)", "Overflow(Shr)", "OverflowNeg", "DivisionByZero", "RemainderByZero"}
# inserted by the compiler as UB checks in debug builds, not program panics
IGNORED_ASSERTS = {"MisalignedPointerDereference", "NullPointerDereference", "InvalidEnumConstruction"}

# expansions whose bodies are trusted dependency code (same standing as calling into the crate itself)
TRUSTED_EXPANSIONS = ("derive:::prost::Message", "derive:prost::Message", "derive:Message", "derive:::prost::Oneof", "derive:Oneof", "derive:::prost::Enumeration", "derive:Enumeration", "derive:Error", "derive:thiserror::Error",
                      "derive:Clone", "derive:Debug", "derive:PartialEq", "derive:Eq", "derive:Hash", "derive:PartialOrd", "derive:Ord", "derive:Default", "derive:Copy",
                      "derive:Serialize", "derive:Deserialize", "derive:serde::Serialize", "derive:serde::Deserialize", "derive:Zeroize", "derive:ZeroizeOnDrop")


def is_trusted_expansion(body):
    e = body.get("exp")
    if not e:
        return False
    first = e.split(">")[0]
    return first.startswith("derive:")


def classify_call(c):
    p = c.rpath or ""
    # `slice.into()` / `<&GenericArray>::from(slice)` through the blanket Into impl: panics when the length differs
    if re.search(r"(Into<U>>::into|convert::Into::into|From<.*>>::from)$", p) and "GenericArray<" in (c.gargs or "") and re.match(r"^\[&('\{erased\} )?(mut )?\[", c.gargs or ""):
        return "GenericArray::from(&[T])"
    for r, name in CATALOGUE:
        m = r.match(p)
        if m:
            if name is None:
                return None
            meth = p.rsplit("::", 1)[-1]
            return name.replace("{m}", meth)
    if c.path and c.path != p:
        for r, name in CATALOGUE:
            m = r.match(c.path)
            if m:
                if name is None:
                    return None
                return name.replace("{m}", c.path.rsplit("::", 1)[-1])
    return None


def operand_desc(body, op):
    if op is None:
        return "?"
    k = op.get("k")
    if k in ("copy", "move"):
        return place_desc(body, op["pl"])
    if k == "const":
        return op.get("v", "const")
    if k == "fn":
        return op["fn"]["path"]
    return k


def place_desc(body, pl):
    names = {}
    for n in body.get("names", []):
        if not n["pl"].get("p"):
            names[n["pl"]["l"]] = n["n"]
    base = names.get(pl["l"], f"_{pl['l']}")
    return base + "".join(pl.get("p") or [])


def sites_of(fb, body):
    """All panic sources in one body, in CFG order, before any discharge."""
    out = []
    for i, blk in enumerate(body["blocks"]):
        if blk.get("cleanup"):
            continue
        t = blk.get("t")
        if not t:
            continue
        if t["k"] == "assert":
            ak = t["ak"]
            if ak in IGNORED_ASSERTS:
                continue
            if ak not in ASSERT_KINDS:
                ak = "assert:" + ak
            out.append({"kind": "assert", "what": ak, "bb": i, "ln": t.get("ln"), "x": t.get("x"), "ops": t.get("ops", []), "t": t})
        elif t["k"] in ("call", "tailcall"):
            c = next((c for c in fb.calls(body) if c.bb == i), None)
            if c is None or c.indirect:
                continue
            name = classify_call(c)
            if name:
                out.append({"kind": "call", "what": name, "bb": i, "ln": t.get("ln"), "x": t.get("x"), "call": c, "t": t})
    return out


def keyed_sites(fb, body, discharge=None):
    """[(key, site)] where key = `<fn path>|<what>|<ordinal>`; ordinal counts equal (fn, what) in block order.
    Discharged sites still consume an ordinal so that keys stay stable when a discharge rule improves."""
    cnt = Counter()
    res = []
    for s in sites_of(fb, body):
        n = cnt[s["what"]]
        cnt[s["what"]] += 1
        key = f"{body['path']}|{s['what']}|{n}"
        s["key"] = key
        s["fn"] = body["path"]
        s["file"] = body["file"]
        res.append((key, s))
    return res


def load_table():
    with open(TABLE) as fh:
        return json.load(fh)


# ---- describing where an operand comes from (used in site keys and WIRE-light rules) -----------------
def def_index(body):
    """local -> list of definitions: ('assign', rvalue, bb, idx) | ('call', Call-terminator dict, bb)"""
    if "_defs" in body:
        return body["_defs"]
    defs = defaultdict(list)
    for i, blk in enumerate(body["blocks"]):
        for j, s in enumerate(blk["s"]):
            d = s["d"]
            if not d.get("p"):
                defs[d["l"]].append(("assign", s["r"], i, j))
            else:
                defs[d["l"]].append(("partial", s["r"], i, j))
        t = blk.get("t")
        if t and t["k"] == "call" and t.get("d") is not None:
            d = t["d"]
            defs[d["l"]].append(("call" if not d.get("p") else "partial", t, i, -1))
    body["_defs"] = defs
    return defs


def short(path):
    p = re.sub(r"<[^<>]*>", "", path or "?")
    p = re.sub(r"<[^<>]*>", "", p)
    parts = [x for x in p.split("::") if x]
    return "::".join(parts[-2:]) if len(parts) >= 2 else p


def origin(body, op, depth=0):
    """Short human-readable origin of an operand: `param.field`, `call:callee`, `const`."""
    if op is None:
        return "?"
    k = op.get("k")
    if k == "const":
        return op.get("v", "const")
    if k == "fn":
        return "fn:" + short(op["fn"]["path"])
    if k not in ("copy", "move"):
        return k or "?"
    pl = op["pl"]
    return place_origin(body, pl, depth)


def place_origin(body, pl, depth=0):
    l = pl["l"]
    proj = "".join(x for x in (pl.get("p") or []) if x != "*")
    names = {n["pl"]["l"]: n["n"] for n in body.get("names", []) if not n["pl"].get("p")}
    if l in names or (1 <= l <= body["argc"]) or depth > 6:
        return names.get(l, f"_{l}") + proj
    defs = [d for d in def_index(body).get(l, []) if d[0] in ("assign", "call")]
    if len(defs) != 1:
        return f"_{l}" + proj
    kind, r, bb, _ = defs[0]
    if kind == "call":
        f = r["f"]
        if f["k"] == "fn":
            fn = f["fn"]
            name = short(fn.get("rpath", fn["path"]))
            # transparent wrappers: describe through them
            if re.search(r"(Deref::deref|DerefMut::deref_mut|AsRef::as_ref|Borrow::borrow|Clone::clone|::clone|Option::as_ref|Option::as_mut|Into::into|From::from|Vec::as_slice|::as_bytes|::as_str|::iter|::len|IntoIterator::into_iter)$", name) and r["a"]:
                return name.rsplit("::", 1)[-1] + "(" + origin(body, r["a"][0], depth + 1) + ")" + proj
            return "call:" + name + proj
        return "call:<indirect>" + proj
    rk = r.get("k")
    if rk in ("use", "cast"):
        return origin(body, r["op"], depth + 1) + proj
    if rk == "ref":
        return place_origin(body, r["pl"], depth + 1) + proj
    if rk == "binop":
        return f"({origin(body, r['a'], depth + 1)} {r['op']} {origin(body, r['b'], depth + 1)})" + proj
    if rk == "agg":
        return "agg:" + (r.get("variant") or r.get("ak")) + proj
    if rk == "discr":
        return "discr(" + place_origin(body, r["pl"], depth + 1) + ")"
    return rk + proj


# ---- local discharge rules ---------------------------------------------------------------------------
def _is_rangefull(body, op):
    return origin(body, op) == "agg:RangeFull"


def _const_int(op):
    if op and op.get("k") == "const" and "int" in op:
        return op["int"]
    return None


def _is_len(body, op):
    o = origin(body, op)
    return o.startswith("len(") or o.startswith("call:Vec::len") or o.startswith("call:slice::len") or o.startswith("call:HashMap::len") or o.startswith("call:<impl [T]>::len") or o.startswith("call:BTreeSet::len") or o.startswith("call:HashSet::len") or o.startswith("call:[T]>::len")


def discharge(fb, body, s):
    """Return a reason string when the site provably cannot panic by a local argument, else None."""
    w = s["what"]
    if s["kind"] == "call":
        c = s["call"]
        if w in ("Vec::index", "slice::index", "str::index") and len(c.args) >= 2 and _is_rangefull(body, c.args[1]):
            return "index by `..` (RangeFull) never panics"
        if w == "Vec::drain" and len(c.args) >= 2 and _is_rangefull(body, c.args[1]):
            return "drain(..) (RangeFull) never panics"
    else:
        ops = s["ops"]
        if w == "Overflow(Add)" and len(ops) == 2:
            a, b = ops
            ca, cb = _const_int(a), _const_int(b)
            # `Enum::Variant as i32` is lowered as discriminant + 0
            if cb == 0 or ca == 0:
                return "addition of constant 0 (enum-to-integer cast lowering)"
            for (x, cx) in ((a, cb), (b, ca)):
                if cx is not None and 0 <= cx <= 16 and _is_len(body, x):
                    return "len() + small constant: len <= isize::MAX"
    z = None
    try:
        import zones
        z = zones.discharge(fb, body, s)
    except ImportError:
        pass
    return z


# ---- the rule -----------------------------------------------------------------------------------------
_SHADOW = [False]
_SHADOW_OUTCOMES = {}


def premise_broken(fb, ctx, premise):
    """An allow entry may rest on rule instances that another property's check decides (the guard above a subtraction, the
    take/restore pairing of a handle). Re-evaluate those instances on the current tree: returns None when they all hold, else a
    description. Not evaluated inside such a re-evaluation (no recursion) nor for the property's own rules (it reports them itself)."""
    if not premise or _SHADOW[0] or premise["property"] == ctx.pid:
        return None
    pid = premise["property"]
    if pid not in _SHADOW_OUTCOMES:
        import importlib, framework
        from facts import CheckerError
        sh = framework.Ctx(pid)
        _SHADOW[0] = True
        try:
            importlib.import_module("props." + pid.lower()).check(fb, sh)
            _SHADOW_OUTCOMES[pid] = dict(sh.outcomes)
        except CheckerError as e:
            _SHADOW_OUTCOMES[pid] = {"__error__": str(e)}
        finally:
            _SHADOW[0] = False
    oc = _SHADOW_OUTCOMES[pid]
    if "__error__" in oc:
        return f"the {pid} rules could not be evaluated ({oc['__error__']})"
    keys = list(premise.get("keys", []))
    if premise.get("key_regex"):
        rx = re.compile(premise["key_regex"])
        keys += [k for k in oc if rx.search(k)]
        if not [k for k in oc if rx.search(k)]:
            return f"no {pid} rule instance matches /{premise['key_regex']}/"
    for k in keys:
        if k not in oc:
            return f"{pid} rule instance `{k}` no longer exists"
        if not oc[k]:
            return f"{pid} rule instance `{k}` fails"
    return None


def run(fb, ctx, entry_keys, rule="REACH", stop=lambda k: False, crates=None, exclude_fn=None):
    """Every panic source in a body reachable from entry_keys must be discharged locally or be allow-listed
    (by exact key, with a reason) in tables/panic_sites.json."""
    table = load_table()["sites"]
    pred = fb.reachable(entry_keys, stop=stop)
    n_sites = n_dis = n_allow = 0
    used = set()
    # An allow-listed source that moved inside its function family (into / out of a closure of the same function, e.g. a loop body
    # that became `.map(|x| ..)`) keeps its entry: entries of the family that no current source carries are paired, in order, with
    # the family's unlisted undischarged sources of the same kind - only when the two counts are equal.
    fam = lambda p_: re.sub(r"(::\{closure#\d+\})+$", "", p_)
    reloc_cache = {}
    def relocated(skey_, s_, b_):
        F_, what_ = fam(b_["path"]), s_["what"]
        if (F_, what_) not in reloc_cache:
            cur = []
            for x_ in fb.bodies.values():
                if fam(x_["path"]) == F_ and x_.get("blocks"):
                    cur += [(k2, s2, x_) for k2, s2 in keyed_sites(fb, x_) if s2["what"] == what_]
            curkeys = {k2 for k2, _, _ in cur}
            orphans = sorted(k2 for k2, e2 in table.items() if e2.get("disposition") == "allow" and k2 not in curkeys and k2.count("|") >= 2 and fam(k2.rsplit("|", 2)[0]) == F_ and k2.rsplit("|", 2)[1] == what_)
            unl = [k2 for k2, s2, x_ in cur if k2 not in table and not discharge(fb, x_, s2)]
            reloc_cache[(F_, what_)] = dict(zip(unl, orphans)) if orphans and len(unl) == len(orphans) else {}
        return reloc_cache[(F_, what_)].get(skey_)
    for key in sorted(pred):
        b = fb.bodies[key]
        if crates and b["crate"] not in crates:
            continue
        if is_trusted_expansion(b):
            continue
        if exclude_fn and exclude_fn(b):
            continue
        for skey, s in keyed_sites(fb, b):
            n_sites += 1
            where = f"{b['file']}:{s['ln']}"
            if s["kind"] == "call":
                det = ", ".join(origin(b, a) for a in s["call"].args[:2])
            else:
                det = ", ".join(origin(b, o) for o in s["ops"])
            why = discharge(fb, b, s)
            if why:
                n_dis += 1
                ctx.ok(rule, skey, where, "discharged: " + why)
                continue
            ent = table.get(skey)
            if ent is None:
                old_key = relocated(skey, s, b)
                if old_key:
                    ent = table.get(old_key)
                    ctx.notes.append(f"REACH: `{skey}` is the allow-listed source `{old_key}` moved inside its function")
            if ent and ent.get("disposition") == "allow":
                broken = premise_broken(fb, ctx, ent.get("premise"))
                if broken is None:
                    n_allow += 1
                    used.add(skey)
                    ctx.ok(rule, skey, where, "allow-listed: " + ent["reason"] + (" [premise re-evaluated: holds]" if ent.get("premise") and not _SHADOW[0] and ent["premise"]["property"] != ctx.pid else ""))
                    continue
                path = fb.path_to(pred, key)
                ctx.fail(rule, skey, skey, f"panic source `{s['what']}` on [{det}] is allow-listed only because \"{ent['reason']}\" - but that premise no longer holds: {broken}", where, {"path": path, "operands": det})
                continue
            path = fb.path_to(pred, key)
            chain = " -> ".join(p for p, _, _ in path[-6:])
            ctx.fail(rule, skey, skey, f"panic source `{s['what']}` on [{det}] reachable: {chain}", where, {"path": path, "operands": det})
    ctx.analysed[rule] = {"entries": len(entry_keys), "reachable_bodies": len(pred), "panic_sources": n_sites, "discharged_locally": n_dis, "allow_listed": n_allow}
    return pred
