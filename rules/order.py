"""ORDER: order-sensitive consumption of hash-ordered iterators (HashMap / HashSet with RandomState).

A local is hash-ordered when its (revealed) type mentions a std hash_map/hash_set iterator, directly or inside adaptor /
CombineIt type arguments. Adaptor calls pass the order on; a *consumer* decides whether the order can influence the result:
  first        Iterator::next/find/position/nth/last/min*/max* outside a loop, payload used      -> order-sensitive
  loop-exits   a loop driven by next() with early exits that do not all return one and the same constant -> order-sensitive
  collect-err  collect()/sum()/product() into Result/Option (stops at the first Err/None)          -> order-sensitive
  exhaustive loops, collect into sets/maps, any/all/count/fold-add                                  -> insensitive
  collect into Vec/String: element order follows the hash order; reported as a note (results are treated as set-valued)."""
import re
from zones import cfg
from reach import short, is_trusted_expansion

HASH = re.compile(r"std::collections::hash_(map|set)::(Iter|IterMut|IntoIter|Keys|Values|ValuesMut|Drain|IntoKeys|IntoValues)<")
ADAPTORS = re.compile(r"::(map|filter|filter_map|flat_map|flatten|cloned|copied|clone|into_iter|iter|by_ref|enumerate|zip|chain|peekable|skip|take|rev|inspect|map_while|fuse|new|from|into|borrow_mut|deref_mut|deref|as_mut)$")
FIRST = re.compile(r"::(next|find|find_map|position|nth|last|min|max|min_by|max_by|min_by_key|max_by_key|next_back|reduce|try_fold|try_for_each)$")
INSENSITIVE = re.compile(r"::(any|all|count|for_each|extend|len|is_empty|size_hint|drop|fold|sum|unzip|partition)$")


def scc_of(body, bb):
    """Blocks of the innermost cycle (strongly connected component) containing bb, or empty set."""
    g = cfg(body)
    succ = g["succ"]

    def reach_from(s):
        seen, st = set(), list(succ[s])
        while st:
            x = st.pop()
            if x in seen:
                continue
            seen.add(x)
            st.extend(succ[x])
        return seen

    fwd = reach_from(bb)
    if bb not in fwd:
        return set()
    comp = {bb}
    for x in fwd:
        if bb in reach_from(x):
            comp.add(x)
    return comp


def const_desc(body, op, depth=0):
    """A printable description when the operand is built from constants only, else None."""
    from reach import def_index
    k = op.get("k")
    if k == "const":
        return op.get("v", "const")
    if k not in ("copy", "move") or depth > 5:
        return None
    pl = op["pl"]
    if pl.get("p"):
        return None
    defs = def_index(body).get(pl["l"], [])
    if len(defs) != 1 or defs[0][0] != "assign":
        return None
    r = defs[0][1]
    if r.get("k") == "use":
        return const_desc(body, r["op"], depth + 1)
    if r.get("k") == "agg":
        parts = [const_desc(body, o, depth + 1) for o in r["ops"]]
        if any(p is None for p in parts):
            return None
        return f"{r.get('variant') or r.get('ak')}({', '.join(parts)})"
    return None


def exit_value(body, start):
    """Follow straight-line code from an early-exit target to the return; describe what is put into _0."""
    g = cfg(body)
    seen, x, val = set(), start, "?"
    while x not in seen and len(seen) < 40:
        seen.add(x)
        blk = body["blocks"][x]
        for s in blk["s"]:
            if s["d"]["l"] == 0 and not s["d"].get("p"):
                r = s["r"]
                if r.get("k") == "agg":
                    parts = [const_desc(body, o) for o in r["ops"]]
                    val = None if any(p is None for p in parts) else f"{r.get('variant')}({', '.join(parts)})"
                elif r.get("k") == "use":
                    val = const_desc(body, r["op"])
                else:
                    val = None
        t = blk.get("t") or {}
        if t.get("k") == "return":
            return val
        if t.get("k") == "call" and t.get("d") and t["d"]["l"] == 0:
            val = None  # computed value (e.g. from_residual(e))
        nxt = g["succ"][x]
        if len(nxt) != 1:
            return "branch" if val == "?" else val
        x = nxt[0]
    return val


def sites(fb, body):
    """[(kind, call, detail)] for every consumer of a hash-ordered iterator in this body."""
    out = []
    for c in fb.calls(body):
        if c.indirect or not c.args:
            continue
        a = c.args[0]
        if a.get("k") not in ("copy", "move"):
            continue
        ty = body["locals"][a["pl"]["l"]]
        if not HASH.search(ty):
            continue
        p = c.rpath or c.path or ""
        if FIRST.search(p):
            comp = scc_of(body, c.bb)
            if not comp:
                # payload used?
                d = c.dest
                used = False
                if d is not None:
                    for blk in body["blocks"]:
                        for s in blk["s"]:
                            for o in _ops(s["r"]):
                                if o.get("k") in ("copy", "move") and o["pl"]["l"] == d["l"] and o["pl"].get("p"):
                                    used = True
                            if s["r"].get("k") in ("ref",) and s["r"]["pl"]["l"] == d["l"] and s["r"]["pl"].get("p"):
                                used = True
                        t = blk.get("t") or {}
                        for o in t.get("a", []) if t.get("k") == "call" else []:
                            if o.get("k") in ("copy", "move") and o["pl"]["l"] == d["l"]:
                                used = True
                out.append(("first" if used else "first-exists", c, short(p)))
            else:
                g = cfg(body)
                exits = []
                for x in comp:
                    for s in g["succ"][x]:
                        if s not in comp and (body["blocks"][s].get("t") or {}).get("k") != "unreachable":
                            exits.append((x, s))
                # the exhaustion exit: the switch on the discriminant of next()'s result (None edge)
                exhaust = set()
                if c.target is not None:
                    tb = body["blocks"][c.target].get("t") or {}
                    x = c.target
                    hops = 0
                    while tb.get("k") != "switch" and len(g["succ"][x]) == 1 and hops < 4:
                        x = g["succ"][x][0]
                        tb = body["blocks"][x].get("t") or {}
                        hops += 1
                    if tb.get("k") == "switch":
                        for s in g["succ"][x]:
                            if s not in comp:
                                exhaust.add((x, s))
                early = [e for e in exits if e not in exhaust]
                # cleanup/unwind edges are not in succ; drop exits that only lead to unreachable
                vals = []
                for (x, s) in early:
                    vals.append(exit_value(body, s))
                distinct = set(vals)
                if not early:
                    out.append(("loop-exhaustive", c, ""))
                elif len(distinct) == 1 and None not in distinct and "?" not in distinct and "branch" not in distinct:
                    out.append(("loop-exists", c, f"single constant early exit {vals[0]}"))
                else:
                    out.append(("loop-exits", c, f"early exits return {sorted(str(v) for v in distinct)}"))
        elif p.endswith("::collect") or p.endswith("::sum") or p.endswith("::product"):
            dty = body["locals"][c.dest["l"]] if c.dest is not None and not c.dest.get("p") else ""
            m_opt = re.match(r"^std::option::Option<(.*)>$", dty)
            if m_opt and re.match(r"^std::collections::(HashSet|HashMap|BTreeSet|BTreeMap)<", m_opt.group(1)):
                # Option<set/map>: the only early outcome is the constant None, whichever element produced it; otherwise a set
                out.append(("collect-set", c, dty[:60]))
            elif re.match(r"^std::(result::Result|option::Option)<", dty):
                out.append(("collect-err", c, dty[:80]))
            elif re.search(r"^std::collections::(HashSet|HashMap|BTreeSet|BTreeMap)<", dty):
                out.append(("collect-set", c, dty[:60]))
            else:
                out.append(("collect-seq", c, dty[:60]))
        elif INSENSITIVE.search(p):
            out.append(("insensitive", c, short(p)))
        elif ADAPTORS.search(p) or p.endswith("Box::<T>::new") or "as std::clone::Clone>::clone" in p or p.endswith("IntoIterator>::into_iter"):
            continue
        else:
            out.append(("unknown", c, short(p)))
    return out


def _ops(r):
    k = r.get("k")
    if k in ("use", "cast", "repeat"):
        return [r["op"]]
    if k == "binop":
        return [r["a"], r["b"]]
    if k == "unop":
        return [r["a"]]
    if k == "agg":
        return r["ops"]
    return []


SENSITIVE = {"first", "loop-exits", "collect-err", "unknown"}
