"""Guard discharge: a small path-sensitive abstract interpretation over MIR.

For a panic source at block B, collect the branch conditions of the CFG edges that dominate B (every path
to B takes that edge), turn them into (a) difference constraints over integer atoms (zones domain) and
(b) variant facts about Option/Result places, check that no atom can change between the guard and the
use, and prove the site's safety condition from them.  Sound by construction: anything not understood
yields no fact, an unprovable goal leaves the site undischarged."""
import re
from collections import defaultdict
from reach import def_index, short

MAXLEN = (1 << 63) - 1
INF = float("inf")


# ---------------------------------------------------------------------------------------------- CFG
def cfg(body):
    if "_cfg" in body:
        return body["_cfg"]
    n = len(body["blocks"])
    succ = [[] for _ in range(n)]
    for i, blk in enumerate(body["blocks"]):
        t = blk.get("t") or {}
        k = t.get("k")
        if k == "goto":
            succ[i] = [t["t"]]
        elif k == "switch":
            succ[i] = [b for _, b in t["ts"]] + [t["o"]]
        elif k in ("call", "drop", "assert"):
            if t.get("t") is not None:
                succ[i].append(t["t"])
            # unwind edges are irrelevant for guards (cleanup blocks never reach normal blocks)
    pred = [[] for _ in range(n)]
    for i, ss in enumerate(succ):
        for s in ss:
            pred[s].append(i)
    # dominators (iterative, sets) on the blocks reachable from 0
    reach = set()
    st = [0]
    while st:
        x = st.pop()
        if x in reach:
            continue
        reach.add(x)
        st.extend(succ[x])
    order = sorted(reach)
    dom = {b: set(order) for b in order}
    dom[0] = {0}
    changed = True
    while changed:
        changed = False
        for b in order:
            if b == 0:
                continue
            ps = [p for p in pred[b] if p in reach]
            if not ps:
                continue
            new = set.intersection(*(dom[p] for p in ps)) | {b}
            if new != dom[b]:
                dom[b] = new
                changed = True
    body["_cfg"] = {"succ": succ, "pred": pred, "dom": dom, "reach": reach}
    return body["_cfg"]


def dominating_edges(body, B):
    """[(D, S, values)] : edges D->S of switch terminators such that every path to B takes D->S.
    values = ('eq', v) for an explicit target or ('ne', [listed values]) for the otherwise edge."""
    g = cfg(body)
    if B not in g["dom"]:
        return []
    out = []
    for D in g["dom"][B]:
        if D == B:
            continue
        t = body["blocks"][D].get("t") or {}
        if t.get("k") != "switch":
            continue
        targets = [(v, b) for v, b in t["ts"]]
        succs = [b for _, b in targets] + [t["o"]]
        for S in set(succs):
            if S not in g["dom"][B]:
                continue
            # every predecessor of S other than D must be dominated by S (back edges)
            others = [p for p in g["pred"][S] if p != D and p in g["reach"]]
            if any(S not in g["dom"].get(p, ()) for p in others):
                continue
            # S must be the target of exactly one kind of edge from D
            vals = [v for v, b in targets if b == S]
            if t["o"] == S and vals:
                continue
            if t["o"] == S:
                out.append((D, S, ("ne", [v for v, _ in targets])))
            elif len(vals) == 1:
                out.append((D, S, ("eq", vals[0])))
    return out


def between(body, S, B, D):
    """Blocks on some path S ->* B that does not pass through D again (S, B included)."""
    g = cfg(body)
    fwd = set()
    st = [S]
    while st:
        x = st.pop()
        if x in fwd or x == D:
            continue
        fwd.add(x)
        st.extend(g["succ"][x])
    bwd = set()
    st = [B]
    while st:
        x = st.pop()
        if x in bwd or x == D:
            continue
        bwd.add(x)
        st.extend(p for p in g["pred"][x])
    return fwd & bwd


# ---------------------------------------------------------------------------------------------- atoms
class Lin:
    """const + sum(coeff * atom)"""

    def __init__(self, c=0, terms=None):
        self.c = c
        self.t = dict(terms or {})

    def add(self, o, sign=1):
        r = Lin(self.c + sign * o.c, self.t)
        for a, k in o.t.items():
            r.t[a] = r.t.get(a, 0) + sign * k
            if r.t[a] == 0:
                del r.t[a]
        return r

    def __repr__(self):
        return " + ".join([f"{k}*{a}" for a, k in self.t.items()] + [str(self.c)])


LEN_CALLS = re.compile(r"(^|::)(Vec::<T, A>::len|<impl \[T\]>::len|<impl str>::len|String::len|VecDeque::<T, A>::len)$")
TRANSPARENT = re.compile(r"(Deref>::deref|DerefMut>::deref_mut|::as_slice|::as_mut_slice|::as_ref|::borrow|::as_str|::as_bytes|::as_mut)$")


class Resolver:
    """Canonical names for places and linear expressions for integer operands of one body."""

    def __init__(self, body):
        self.b = body
        self.defs = def_index(body)
        self.roots = {}  # atom -> set(root locals)
        self.types = {}  # atom -> type string when known
        self.paths = {}  # canonical place name -> (root local, field path)
        self.extra = []  # facts guaranteed by iterators (enumerate / range indices)
        self.iter_seen = set()
        self.use_block = None
        self.site_args = ()

    def single_def(self, l):
        ds = self.defs.get(l, [])
        full = [d for d in ds if d[0] in ("assign", "call")]
        if len(full) == 1 and len(ds) == 1:
            return full[0]
        return None

    def is_named(self, l):
        return any(n["pl"]["l"] == l and not n["pl"].get("p") for n in self.b.get("names", []))

    def canon_place(self, pl, depth=0):
        """(name, roots) — the memory location a place denotes, looking through reference temporaries."""
        l = pl["l"]
        proj = [p for p in (pl.get("p") or [])]
        projs = "".join(p for p in proj if p != "*")
        if 1 <= l <= self.b["argc"] or self.is_named(l) or depth > 8:
            self.paths[f"_{l}{projs}"] = (l, tuple(p for p in proj if p != "*"))
            return (f"_{l}{projs}", {l})
        d = self.single_def(l)
        if d is None:
            self.paths[f"_{l}{projs}"] = (l, tuple(p for p in proj if p != "*"))
            return (f"_{l}{projs}", {l})
        kind, r, bb, _ = d
        if kind == "assign":
            rk = r.get("k")
            if rk == "ref" or rk == "rawptr":
                n, roots = self.canon_place(r["pl"], depth + 1)
                self._extend_path(n, projs, proj)
                return (n + projs, roots | {l})
            if rk in ("use", "cast") and r["op"].get("k") in ("copy", "move"):
                n, roots = self.canon_place(r["op"]["pl"], depth + 1)
                self._extend_path(n, projs, proj)
                return (n + projs, roots | {l})
        elif kind == "call":
            f = r["f"]
            if f["k"] == "fn":
                p = f["fn"].get("rpath", f["fn"]["path"])
                if TRANSPARENT.search(p) and r["a"] and r["a"][0].get("k") in ("copy", "move"):
                    n, roots = self.canon_place(r["a"][0]["pl"], depth + 1)
                    self._extend_path(n, projs, proj)
                    return (n + projs, roots | {l})
        self.paths[f"_{l}{projs}"] = (l, tuple(p for p in proj if p != "*"))
        return (f"_{l}{projs}", {l})

    def _extend_path(self, n, projs, proj):
        base = self.paths.get(n)
        if base:
            self.paths[n + projs] = (base[0], base[1] + tuple(p for p in proj if p != "*"))

    def lin(self, op, depth=0):
        """Linear expression of an integer operand, or None."""
        if op is None:
            return None
        k = op.get("k")
        if k == "const":
            if "int" in op:
                return Lin(op["int"])
            return None
        if k not in ("copy", "move"):
            return None
        pl = op["pl"]
        l = pl["l"]
        proj = pl.get("p") or []
        if depth > 10:
            return None
        # (a op b).0 of a checked arithmetic tuple
        if proj == [".0"]:
            d = self.single_def(l)
            if d and d[0] == "assign" and d[1].get("k") == "binop" and d[1]["op"] in ("AddWithOverflow", "SubWithOverflow"):
                a, b = self.lin(d[1]["a"], depth + 1), self.lin(d[1]["b"], depth + 1)
                if a is None or b is None:
                    return None
                return a.add(b, 1 if d[1]["op"].startswith("Add") else -1)
        # `let Some(p) = a.checked_sub(b) else { .. }` / `if let Some(p) = a.checked_add(b)`: on the Some path p is a - b / a + b
        if not proj and not (1 <= l <= self.b["argc"]):
            d = self.single_def(l)
            if d and d[0] == "assign" and d[1].get("k") == "use" and d[1]["op"].get("k") in ("copy", "move") and (d[1]["op"]["pl"].get("p") or []) == ["as Some", ".0"]:
                dd = self.single_def(d[1]["op"]["pl"]["l"])
                if dd and dd[0] == "call" and dd[1]["f"].get("k") == "fn":
                    m_ = re.search(r"num::<impl (usize|u8|u16|u32|u64|u128)>::checked_(sub|add)$", dd[1]["f"]["fn"].get("rpath", dd[1]["f"]["fn"]["path"]))
                    if m_ and len(dd[1]["a"]) == 2:
                        a, b = self.lin(dd[1]["a"][0], depth + 1), self.lin(dd[1]["a"][1], depth + 1)
                        if a is not None and b is not None:
                            return a.add(b, 1 if m_.group(2) == "add" else -1)
        if not proj and not (1 <= l <= self.b["argc"]) and not self.is_named(l):
            d = self.single_def(l)
            if d:
                kind, r, bb, _ = d
                if kind == "assign":
                    rk = r.get("k")
                    if rk == "use":
                        return self.lin(r["op"], depth + 1)
                    if rk == "cast" and "IntToInt" in r.get("ck", ""):
                        src = self.lin(r["op"], depth + 1)
                        # only value-preserving for widening unsigned casts; be conservative: require same name class
                        if src is not None and re.match(r"^(usize|u64|u128)$", r.get("ty", "")) and self._unsigned_src(r["op"]):
                            return src
                        return None
                    if rk == "binop" and r["op"] in ("Add", "Sub", "AddUnchecked", "SubUnchecked"):
                        return None  # unchecked wrap-around arithmetic: no linear meaning
                    if rk == "unop" and r["op"] == "PtrMetadata" and r["a"].get("k") in ("copy", "move"):
                        n, roots = self.canon_place(r["a"]["pl"])
                        atom = f"len({n})"
                        self.roots[atom] = roots
                        return Lin(0, {atom: 1})
                elif kind == "call":
                    f = r["f"]
                    if f["k"] == "fn":
                        p = f["fn"].get("rpath", f["fn"]["path"])
                        if LEN_CALLS.search(p) and r["a"] and r["a"][0].get("k") in ("copy", "move"):
                            n, roots = self.canon_place(r["a"][0]["pl"])
                            atom = f"len({n})"
                            self.roots[atom] = roots
                            return Lin(0, {atom: 1})
        n, roots = self.canon_place(pl)
        atom = n
        self.roots[atom] = roots
        if not proj:
            self.types[atom] = self.b["locals"][l]
            self._iter_index_facts(l, atom)
        return Lin(0, {atom: 1})

    def _iter_index_facts(self, l, atom):
        """`i` bound from `Enumerate::next()` or `Range<usize>::next()`: record what the iterator guarantees."""
        if atom in self.iter_seen:
            return
        self.iter_seen.add(atom)
        d = self.single_def(l)
        if not d or d[0] != "assign" or d[1].get("k") != "use" or d[1]["op"].get("k") not in ("copy", "move"):
            return
        src = d[1]["op"]["pl"]
        sp = src.get("p") or []
        nd = self.single_def(src["l"])
        if not nd or nd[0] != "call" or nd[1]["f"].get("k") != "fn":
            return
        p = nd[1]["f"]["fn"].get("rpath", nd[1]["f"]["fn"]["path"])
        if sp == ["as Some", ".0", ".0"] and re.search(r"Enumerate<I> as (std|core)::iter::(traits::iterator::)?Iterator>::next$", p):
            # an enumerate() index counts items already yielded by an in-memory iterator: < isize::MAX
            self.extra.append((Lin(-MAXLEN + 1, {atom: 1}), "lin", -1))
            self.types[atom] = "usize"
            return
        if sp == ["as Some", ".0"] and re.search(r"Iterator for (std|core)::ops::Range<A>>::next$", p):
            a0 = nd[1]["a"][0] if nd[1]["a"] else None
            if not a0 or a0.get("k") not in ("copy", "move") or a0["pl"].get("p"):
                return
            it = a0["pl"]["l"]
            for _ in range(6):  # &mut *(&mut iter) reborrow chains, `let mut iter = into_iter(..)`
                md = self.single_def(it)
                if md and md[0] == "assign" and md[1].get("k") == "ref" and all(x == "*" for x in (md[1]["pl"].get("p") or [])):
                    it = md[1]["pl"]["l"]
                elif md and md[0] == "assign" and md[1].get("k") == "use" and md[1]["op"].get("k") == "move" and not md[1]["op"]["pl"].get("p"):
                    it = md[1]["op"]["pl"]["l"]
                else:
                    break
            idefs = [x for x in self.defs.get(it, [])]
            if len(idefs) != 1 or idefs[0][0] != "call":
                return
            ic = idefs[0][1]
            if ic["f"].get("k") != "fn" or not ic["f"]["fn"].get("rpath", ic["f"]["fn"]["path"]).endswith("into_iter") or not ic["a"]:
                return
            ra = ic["a"][0]
            if ra.get("k") not in ("copy", "move") or ra["pl"].get("p"):
                return
            rd = self.single_def(ra["pl"]["l"])
            if not rd or rd[0] != "assign" or rd[1].get("k") != "agg" or not rd[1].get("adt", "").endswith("ops::Range"):
                return
            start, end = self.lin(rd[1]["ops"][0]), self.lin(rd[1]["ops"][1])
            # only when every atom of the bounds is rooted in immutable state (shared-ref params)
            rblock = rd[2]

            def immut(lin):
                # the bounds must still describe the same memory at the use: roots are shared-ref parameters, or
                # locals that are not written / mutably borrowed between the construction of the range and the use
                roots = set()
                for a in lin.t:
                    roots |= self.roots.get(a, set())
                return self.use_block is not None and _stable(self.b, self, roots, -1, rblock, self.use_block, self.site_args)
            if end is not None and immut(end):
                self.extra.append((Lin(1, {atom: 1}).add(end, -1), "lin", -1))  # i + 1 - end <= 0
            if start is not None and immut(start):
                self.extra.append((start.add(Lin(0, {atom: 1}), -1), "lin", -1))  # start - i <= 0

    def _ever_mut_borrowed(self, l):
        for blk in self.b["blocks"]:
            for st in blk["s"]:
                r = st["r"]
                if r.get("k") in ("ref", "rawptr") and r.get("mut") and r["pl"]["l"] == l:
                    return True
                if st["d"]["l"] == l and st["d"].get("p"):
                    return True
        return False

    def unsigned(self, atom):
        if atom.startswith("len("):
            return True
        t = self.types.get(atom)
        return bool(t) and re.match(r"^u(size|8|16|32|64|128)$", t) is not None

    def _unsigned_src(self, op):
        if op.get("k") in ("copy", "move"):
            ty = self.b["locals"][op["pl"]["l"]] if not op["pl"].get("p") else ""
            return ty in ("u8", "u16", "u32", "u64", "usize")
        return op.get("k") == "const"


# ---------------------------------------------------------------------------------------------- facts
def _stable(body, res, roots, D, S, B, site_arg_locals=()):
    """No definition / mutation of any root local on a path from the guard edge to the use."""
    blocks = between(body, S, B, D)
    # field paths of the memory the facts talk about, per root local
    watched = defaultdict(list)
    for nm, (rl, path) in res.paths.items():
        watched[rl].append(path)

    def overlaps(l, mproj):
        mp = tuple(p for p in (mproj or []) if p != "*")
        ps = watched.get(l)
        if not ps:
            return True
        for path in ps:
            k = min(len(path), len(mp))
            if path[:k] == mp[:k]:
                return True
        return False

    for l in roots:
        ty = body["locals"][l]
        immutable_param = 1 <= l <= body["argc"] and ty.startswith("&") and not ty.startswith("&mut")
        for bi in blocks:
            blk = body["blocks"][bi]
            for s in blk["s"]:
                if s["d"]["l"] == l and overlaps(l, s["d"].get("p")):
                    # a (re)definition between guard and use
                    return False
                r = s["r"]
                if r.get("k") in ("ref", "rawptr") and r.get("mut") and r["pl"]["l"] == l and not immutable_param and overlaps(l, r["pl"].get("p")):
                    if bi == B and s["d"]["l"] in site_arg_locals and not s["d"].get("p"):
                        continue  # the borrow handed to the panic-source call itself
                    return False
            t = blk.get("t") or {}
            if bi != B and t.get("k") == "call":
                d = t.get("d")
                if d and d["l"] == l:
                    return False
                for a in t["a"]:
                    if a.get("k") == "move" and a["pl"]["l"] == l and not a["pl"].get("p") and not immutable_param:
                        # moved into a call: the callee may do anything with it (only matters for non-Copy owners)
                        if not re.match(r"^(usize|u\d+|i\d+|isize|bool|&[^m])", ty):
                            return False
    return True


CMP = {"Lt", "Le", "Gt", "Ge", "Eq", "Ne"}
NEG = {"Lt": "Ge", "Le": "Gt", "Gt": "Le", "Ge": "Lt", "Eq": "Ne", "Ne": "Eq"}


def cond_facts(body, res, local, truth, depth=0):
    """Facts implied by bool local == truth. Returns list of ('lin', Lin, rel) meaning Lin rel 0 with rel in {'<=','=='},
    or ('variant', place_name, roots, variant_name, is)"""
    d = res.single_def(local)
    if d is None or depth > 6:
        return []
    kind, r, bb, _ = d
    out = []
    if kind == "assign":
        rk = r.get("k")
        if rk == "use" and r["op"].get("k") in ("copy", "move") and not r["op"]["pl"].get("p"):
            return cond_facts(body, res, r["op"]["pl"]["l"], truth, depth + 1)
        if rk == "unop" and r["op"] == "Not" and r["a"].get("k") in ("copy", "move") and not r["a"]["pl"].get("p"):
            return cond_facts(body, res, r["a"]["pl"]["l"], not truth, depth + 1)
        if rk == "binop" and r["op"] in CMP:
            op = r["op"] if truth else NEG[r["op"]]
            a, b = res.lin(r["a"]), res.lin(r["b"])
            if a is None or b is None:
                return []
            diff = a.add(b, -1)  # a - b
            if op == "Lt":
                out.append(("lin", diff.add(Lin(1)), "<="))
            elif op == "Le":
                out.append(("lin", diff, "<="))
            elif op == "Gt":
                out.append(("lin", Lin(0).add(diff, -1).add(Lin(1)), "<="))
            elif op == "Ge":
                out.append(("lin", Lin(0).add(diff, -1), "<="))
            elif op == "Eq":
                out.append(("lin", diff, "<="))
                out.append(("lin", Lin(0).add(diff, -1), "<="))
            # Ne gives nothing in the zones domain, except x != 0 for unsigned: x >= 1
            elif op == "Ne":
                if not diff.t and False:
                    pass
                if len(diff.t) == 1 and list(diff.t.values())[0] == 1 and diff.c == 0:
                    # atom != 0 and atom is unsigned / a length  =>  atom >= 1
                    out.append(("lin_if_unsigned", Lin(1).add(diff, -1), "<="))
            return out
    elif kind == "call":
        f = r["f"]
        if f["k"] != "fn" or not r["a"]:
            return []
        p = f["fn"].get("rpath", f["fn"]["path"])
        a0 = r["a"][0]
        if a0.get("k") not in ("copy", "move"):
            return []
        name = p.rsplit("::", 1)[-1]
        if re.search(r"(Vec::<T, A>|<impl \[T\]>|<impl str>|String|VecDeque::<T, A>)::is_empty$", p):
            n, roots = res.canon_place(a0["pl"])
            atom = f"len({n})"
            res.roots[atom] = roots
            if truth:
                out.append(("lin", Lin(0, {atom: 1}), "<="))
            else:
                out.append(("lin", Lin(1, {atom: -1}), "<="))
            return out
        m = re.search(r"(Option::<T>|Result::<T, E>)::(is_some|is_none|is_ok|is_err)$", p)
        if m:
            n, roots = res.canon_place(a0["pl"])
            which = {"is_some": ("Some", True), "is_none": ("Some", False), "is_ok": ("Ok", True), "is_err": ("Ok", False)}[m.group(2)]
            out.append(("variant", n, roots, which[0], which[1] == truth))
            return out
    return out


def switch_facts(body, res, D, vals):
    """Facts from taking the edge of block D's switch described by vals."""
    t = body["blocks"][D]["t"]
    d = t["d"]
    if d.get("k") not in ("copy", "move") or d["pl"].get("p"):
        return []
    l = d["pl"]["l"]
    dty = t.get("dty", "")
    if dty == "bool":
        if vals[0] == "eq":
            return cond_facts(body, res, l, vals[1] != 0)
        if vals[0] == "ne" and len(vals[1]) == 1:
            return cond_facts(body, res, l, vals[1][0] == 0)
        return []
    # discriminant of an Option / Result place
    sd = res.single_def(l)
    if sd and sd[0] == "assign" and sd[1].get("k") == "discr":
        pl = sd[1]["pl"]
        n, roots = res.canon_place(pl)
        ty = _place_type(body, pl)
        names = None
        if ty and re.match(r"^(&(mut )?)*std::option::Option<", ty):
            names = {0: "None", 1: "Some"}
        elif ty and re.match(r"^(&(mut )?)*std::result::Result<", ty):
            names = {0: "Ok", 1: "Err"}
        if names:
            if vals[0] == "eq" and vals[1] in names:
                v = names[vals[1]]
                pos = {"None": ("Some", False), "Some": ("Some", True), "Ok": ("Ok", True), "Err": ("Ok", False)}[v]
                return [("variant", n, roots, pos[0], pos[1])]
            if vals[0] == "ne" and len(vals[1]) == 1 and vals[1][0] in names:
                v = names[vals[1][0]]
                pos = {"None": ("Some", True), "Some": ("Some", False), "Ok": ("Ok", False), "Err": ("Ok", True)}[v]
                return [("variant", n, roots, pos[0], pos[1])]
        return []
    # integer switch: x == v
    lin = res.lin(d)
    if lin is not None and vals[0] == "eq":
        diff = lin.add(Lin(vals[1]), -1)
        return [("lin", diff, "<="), ("lin", Lin(0).add(diff, -1), "<=")]
    if lin is not None and vals[0] == "ne" and vals[1] == [0]:
        return [("lin_if_unsigned", Lin(1).add(lin, -1), "<=")]
    return []


def _place_type(body, pl):
    if not pl.get("p") or all(p == "*" for p in pl["p"]):
        return body["locals"][pl["l"]]
    return None


def facts_at(body, B, site_arg_locals=()):
    res = Resolver(body)
    res.use_block = B
    res.site_args = site_arg_locals
    lin_facts, var_facts = [], []
    for (D, S, vals) in dominating_edges(body, B):
        for f in switch_facts(body, res, D, vals):
            if f[0] in ("lin", "lin_if_unsigned"):
                roots = set()
                for a in f[1].t:
                    roots |= res.roots.get(a, set())
                if _stable(body, res, roots, D, S, B, site_arg_locals):
                    lin_facts.append((f[1], f[0], D))
            elif f[0] == "variant":
                if _stable(body, res, f[2], D, S, B, site_arg_locals):
                    var_facts.append((f[1], f[3], f[4], D))
    return res, lin_facts, var_facts


# ---------------------------------------------------------------------------------------------- zones
def prove(lin_facts, goal, unsigned_atoms):
    """Is `goal <= 0` (a Lin with <=1 positive and <=1 negative unit atom) implied by the facts?
    Difference-bound closure (Bellman-Ford from a zero node)."""
    edges = defaultdict(lambda: INF)  # (x, y) -> c  meaning x - y <= c ; node "0" is the constant zero

    def add(l):
        pos = [a for a, k in l.t.items() if k == 1]
        neg = [a for a, k in l.t.items() if k == -1]
        if len(pos) + len(neg) != len(l.t) or len(pos) > 1 or len(neg) > 1:
            return False
        x = pos[0] if pos else "0"
        y = neg[0] if neg else "0"
        # x - y + c <= 0  =>  x - y <= -c
        edges[(x, y)] = min(edges[(x, y)], -l.c)
        return True

    atoms = set()
    for l, kind, _ in lin_facts:
        atoms |= set(l.t)
    atoms |= set(goal.t)
    for l, kind, _ in lin_facts:
        if kind == "lin_if_unsigned" and not all(unsigned_atoms(a) for a in l.t):
            continue
        add(l)
    for a in atoms:
        if unsigned_atoms(a):
            edges[("0", a)] = min(edges[("0", a)], 0)  # 0 - a <= 0
        if a.startswith("len("):
            edges[(a, "0")] = min(edges[(a, "0")], MAXLEN)
    pos = [a for a, k in goal.t.items() if k == 1]
    neg = [a for a, k in goal.t.items() if k == -1]
    if len(pos) + len(neg) != len(goal.t) or len(pos) > 1 or len(neg) > 1:
        return False
    x = pos[0] if pos else "0"
    y = neg[0] if neg else "0"
    need = -goal.c  # want x - y <= need
    if x == y:
        return 0 <= need
    # shortest path from y to x in graph where edge (x,y,c): x - y <= c is an arc y -> x with weight c
    nodes = atoms | {"0"}
    dist = {n: INF for n in nodes}
    dist[y] = 0
    for _ in range(len(nodes) + 1):
        ch = False
        for (a, b), c in edges.items():
            if dist[b] + c < dist[a]:
                dist[a] = dist[b] + c
                ch = True
        if not ch:
            break
    return dist[x] <= need


class _WithExtra(list):
    """lin facts + the iterator facts the resolver discovers while linearising the goal (evaluated lazily)."""

    def __init__(self, base, res):
        super().__init__(base)
        self.res = res

    def __iter__(self):
        return iter(list(super().__iter__()) + list(self.res.extra))


# ---------------------------------------------------------------------------------------------- goals
def _arg_place(res, op):
    if op.get("k") in ("copy", "move"):
        return res.canon_place(op["pl"])
    return (None, set())


def _range_bounds(body, res, op):
    """For an operand holding a Range* aggregate: (kind, start_op, end_op)."""
    if op.get("k") not in ("copy", "move") or op["pl"].get("p"):
        return None
    d = res.single_def(op["pl"]["l"])
    if d and d[0] == "assign" and d[1].get("k") == "agg" and d[1].get("ak") == "adt":
        v = d[1].get("adt", "")
        ops = d[1]["ops"]
        if v.endswith("ops::RangeFrom"):
            return ("from", ops[0], None)
        if v.endswith("ops::RangeTo"):
            return ("to", None, ops[0])
        if v.endswith("ops::Range"):
            return ("range", ops[0], ops[1])
        if v.endswith("ops::RangeFull"):
            return ("full", None, None)
    return None


def discharge(fb, body, s):
    B = s["bb"]
    site_args = set()
    if s["kind"] == "call":
        for a in s["call"].args:
            if a.get("k") in ("copy", "move") and not a["pl"].get("p"):
                site_args.add(a["pl"]["l"])
    res, lin_facts, var_facts = facts_at(body, B, site_args)
    lin_facts = _WithExtra(lin_facts, res)
    unsigned = res.unsigned
    w = s["what"]
    if s["kind"] == "call":
        c = s["call"]
        args = c.args
        if w in ("Option::unwrap", "Option::expect", "Result::unwrap", "Result::expect", "Result::unwrap_err", "Result::expect_err") and args:
            n, roots = _arg_place(res, args[0])
            want = ("Some", True) if w.startswith("Option") else (("Ok", False) if w.endswith("_err") else ("Ok", True))
            for (pn, var, is_, D) in var_facts:
                if pn == n and (var, is_) == want:
                    return f"dominated by a branch proving the value is {'Some' if want[0]=='Some' else ('Ok' if want[1] else 'Err')} (guard at bb{D})"
            return None
        if w in ("Vec::index", "slice::index", "str::index", "VecDeque::index") and len(args) >= 2:
            n, roots = _arg_place(res, args[0])
            if n is None:
                return None
            lenatom = f"len({n})"
            res.roots[lenatom] = roots
            rb = _range_bounds(body, res, args[1])
            if w == "str::index":
                return None  # char-boundary condition is not a zones fact
            if rb:
                kind, st, en = rb
                ok = True
                if st is not None:
                    a = res.lin(st)
                    ok = ok and a is not None and prove(lin_facts, a.add(Lin(0, {lenatom: 1}), -1), unsigned)
                if en is not None:
                    e = res.lin(en)
                    ok = ok and e is not None and prove(lin_facts, e.add(Lin(0, {lenatom: 1}), -1), unsigned)
                if st is not None and en is not None:
                    a, e = res.lin(st), res.lin(en)
                    ok = ok and a is not None and e is not None and prove(lin_facts, a.add(e, -1), unsigned)
                if ok and kind != "full":
                    return f"range bounds proved <= {lenatom} from dominating guards"
                return None
            i = res.lin(args[1])
            if i is not None and _usize(body, args[1]):
                # i < len  <=>  i - len + 1 <= 0
                if prove(lin_facts, i.add(Lin(0, {lenatom: 1}), -1).add(Lin(1)), unsigned):
                    return f"index proved < {lenatom} from dominating guards"
            return None
        if w in ("slice::copy_from_slice", "slice::clone_from_slice") and len(args) >= 2:
            # destination of a fixed array type `[T; N]` (unsized to a slice), source length proved == N by a guard
            n_dst = _array_len(body, res, args[0])
            n, roots = _arg_place(res, args[1])
            if n_dst is None or n is None:
                return None
            lenatom = f"len({n})"
            res.roots[lenatom] = roots
            if prove(lin_facts, Lin(-n_dst, {lenatom: 1}), unsigned) and prove(lin_facts, Lin(n_dst, {lenatom: -1}), unsigned):
                return f"{lenatom} == {n_dst} (length of the destination array) proved by a dominating length test"
            return None
        if w in ("GenericArray::from(&[T])", "GenericArray::from_slice", "GenericArray::clone_from_slice") and args:
            n, roots = _arg_place(res, args[0])
            if n is None:
                return None
            lenatom = f"len({n})"
            res.roots[lenatom] = roots
            consts = set()
            for (l, kind, _) in lin_facts:
                if lenatom in l.t:
                    consts.add(abs(l.c))
            for cst in consts:
                if prove(lin_facts, Lin(-cst, {lenatom: 1}), unsigned) and prove(lin_facts, Lin(cst, {lenatom: -1}), unsigned):
                    return f"{lenatom} == {cst} proved by a dominating length test"
            return None
        if w in ("Vec::remove", "Vec::swap_remove") and len(args) >= 2:
            n, roots = _arg_place(res, args[0])
            i = res.lin(args[1])
            if n and i is not None:
                lenatom = f"len({n})"
                res.roots[lenatom] = roots
                if prove(lin_facts, i.add(Lin(0, {lenatom: 1}), -1).add(Lin(1)), unsigned):
                    return f"index proved < {lenatom} from dominating guards"
            return None
        if w in ("Vec::split_off", "Vec::insert") and len(args) >= 2:
            n, roots = _arg_place(res, args[0])
            i = res.lin(args[1])
            if n and i is not None:
                lenatom = f"len({n})"
                if prove(lin_facts, i.add(Lin(0, {lenatom: 1}), -1), unsigned):
                    return f"position proved <= {lenatom} from dominating guards"
            return None
        return None
    # asserts
    ops = s["ops"]
    if w == "Overflow(Sub)" and len(ops) == 2 and _unsigned_op(body, ops[0]):
        a, b = res.lin(ops[0]), res.lin(ops[1])
        if a is not None and b is not None and prove(lin_facts, b.add(a, -1), unsigned):
            return "minuend proved >= subtrahend from dominating guards"
        return None
    if w == "BoundsCheck" and len(ops) == 2:
        ln, ix = res.lin(ops[0]), res.lin(ops[1])
        if ln is not None and ix is not None and prove(lin_facts, ix.add(ln, -1).add(Lin(1)), unsigned):
            return "index proved < len from dominating guards"
        # `TABLE[e as usize]`: the index is the discriminant of a workspace enum, every value of which is below the constant length
        n = ops[0].get("int") if ops[0].get("k") == "const" else None
        dv = _discr_values(fb, body, res, ops[1])
        if n is not None and dv and all(0 <= v < min(n, 128) for v in dv[1]):      # < 128: unchanged by any integer cast on the way
            return f"index is the discriminant of `{dv[0]}` (values {sorted(dv[1])}), all below the constant length {n}"
        return None
    if w == "Overflow(Add)" and len(ops) == 2 and _unsigned_op(body, ops[0]):
        # x + c cannot overflow when x < some len (<= isize::MAX) and c is small
        for (x, cst) in ((ops[0], ops[1]), (ops[1], ops[0])):
            cv = cst.get("int") if cst.get("k") == "const" else None
            xl = res.lin(x)
            if cv is not None and 0 <= cv <= 1 << 32 and xl is not None:
                if prove(lin_facts, xl.add(Lin(MAXLEN), -1), unsigned):
                    return "operand bounded by a length (<= isize::MAX) plus a small constant"
        return None
    return None


def _discr_values(fb, body, res, op, depth=0):
    """(enum path, discriminant values) when the operand is `discriminant(place)` of a workspace enum, possibly through integer
    casts / moves; None otherwise (foreign enum, unknown discriminants, or anything else)."""
    if op.get("k") not in ("copy", "move") or op["pl"].get("p") or depth > 6:
        return None
    d = res.single_def(op["pl"]["l"])
    if not d or d[0] != "assign":
        return None
    r = d[1]
    if r.get("k") in ("cast", "use") and isinstance(r.get("op"), dict):
        if r.get("k") == "cast" and r.get("ck") not in (None, "IntToInt"):
            return None
        return _discr_values(fb, body, res, r["op"], depth + 1)
    if r.get("k") != "discr":
        return None
    ty = _place_type(body, r["pl"])
    if not ty:
        return None
    ty = re.sub(r"^(&(mut )?)+", "", ty)
    a = fb.adt_by_path.get(ty) or fb.adt_by_path.get(f"{body.get('crate')}::{ty}")
    if not a or a.get("kind") != "Enum" or not a.get("variants"):
        return None
    vals = [v.get("discr") for v in a["variants"]]
    if any(v is None for v in vals):
        return None
    return a["path"], [int(v) for v in vals]


def _array_len(body, res, op, depth=0):
    """N when the operand is `&mut [T; N]` unsized to a slice (or a reborrow of it)."""
    if op.get("k") not in ("copy", "move") or depth > 6:
        return None
    l = op["pl"]["l"]
    ty = body["locals"][l]
    m = re.match(r"^&(mut )?\[[^;\]]+; (\d+)\]$", ty)
    if m:
        return int(m.group(2))
    d = res.single_def(l)
    if d and d[0] == "assign":
        r = d[1]
        if r.get("k") in ("cast", "use") and r["op"].get("k") in ("copy", "move"):
            return _array_len(body, res, r["op"], depth + 1)
        if r.get("k") == "ref":
            ty2 = body["locals"][r["pl"]["l"]]
            m2 = re.match(r"^\[[^;\]]+; (\d+)\]$", ty2)
            if m2 and not [p for p in (r["pl"].get("p") or []) if p != "*"]:
                return int(m2.group(1))
            return _array_len(body, res, {"k": "copy", "pl": {"l": r["pl"]["l"]}}, depth + 1) if all(p == "*" for p in (r["pl"].get("p") or [])) else None
    return None


def _usize(body, op):
    if op.get("k") == "const":
        return op.get("ty") == "usize"
    if op.get("k") in ("copy", "move") and not op["pl"].get("p"):
        return body["locals"][op["pl"]["l"]] == "usize"
    return True


def _unsigned_op(body, op):
    if op.get("k") == "const":
        return op.get("ty", "").startswith("u")
    if op.get("k") in ("copy", "move") and not op["pl"].get("p"):
        return body["locals"][op["pl"]["l"]].startswith("u")
    return False
