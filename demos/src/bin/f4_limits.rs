// F4 (C10/C09): (a) max_iterations = 0 must not mean "unlimited"; (b) a snapshot whose consumed
// iterations exceed its limit must be refused with an error, not panic on `max_iterations -= iterations`.
use biscuit_auth::{builder::*, *};
use std::time::Duration;
fn main() {
    let mut defect = false;
    // (a) a 6-step chain under max_iterations = 0
    let mut ab = AuthorizerBuilder::new()
        .fact("n(0)").unwrap()
        .rule("n($y) <- n($x), $x < 6, $y = $x + 1").ok();
    // `$y = ...` is not biscuit syntax; use explicit chain instead
    let ab2 = AuthorizerBuilder::new()
        .fact("s(0)").unwrap()
        .rule("s(1) <- s(0)").unwrap().rule("s(2) <- s(1)").unwrap().rule("s(3) <- s(2)").unwrap()
        .rule("s(4) <- s(3)").unwrap().rule("s(5) <- s(4)").unwrap()
        .policy("allow if s(5)").unwrap()
        .limits(AuthorizerLimits { max_facts: 1000, max_iterations: 0, max_time: Duration::from_secs(10) });
    let _ = ab.take();
    let r = std::panic::catch_unwind(std::panic::AssertUnwindSafe(move || {
        let mut a = ab2.build_unauthenticated().unwrap();
        a.authorize().map(|_| a.iterations()).map_err(|e| format!("{:?}", e))
    }));
    match r {
        Err(_) => { println!("DEFECT(a): authorize() with max_iterations = 0 panicked"); defect = true }
        Ok(Ok(n)) => { println!("DEFECT(a): authorize() = Ok with max_iterations = 0 after {} iterations", n); defect = true }
        Ok(Err(e)) => println!("OK(a): {}", e),
    }
    // (b) snapshot with iterations > max_iterations
    let mut a = AuthorizerBuilder::new().policy("allow if true").unwrap().build_unauthenticated().unwrap();
    let mut snap = a.snapshot().unwrap();
    snap.world.iterations = 10;
    snap.limits.max_iterations = 5;
    let r = std::panic::catch_unwind(move || {
        let mut b = Authorizer::from_snapshot(snap).unwrap();
        b.authorize().map(|_| ()).map_err(|e| format!("{:?}", e))
    });
    match r {
        Err(_) => { println!("DEFECT(b): authorize() on restored snapshot panicked"); defect = true }
        Ok(Ok(())) => { println!("DEFECT(b): authorize() = Ok although 10 iterations consumed of 5"); defect = true }
        Ok(Err(e)) => println!("OK(b): {}", e),
    }
    let _ = a.authorize();
    std::process::exit(if defect { 0 } else { 1 });
}
