// F5 (C12/C07/C09): UnverifiedBiscuit::append_third_party inserted the third-party block's public keys
// into the token-wide key table (the verified path and deserialization do not), so a block appended
// afterwards resolves `trusting <key>` differently in memory and after a round trip; and it unwrapped
// the conversion of the third-party block.
use biscuit_auth::{builder::*, *};
fn main() {
    let root = KeyPair::new();
    let ext = KeyPair::new();
    let other = KeyPair::new();
    let b = Biscuit::builder().fact("a(1)").unwrap().build(&root).unwrap();
    let u = UnverifiedBiscuit::from(&b.to_vec().unwrap()).unwrap();
    let req = u.third_party_request().unwrap();
    // the third-party block names `other` in a scope, so its own key table is [other]
    let tp = req
        .create_block(&ext.private(), BlockBuilder::new().check(format!("check if a(1) trusting {}", other.public()).as_str()).unwrap())
        .unwrap();
    let u2 = u.append_third_party(&tp.serialize().unwrap()).unwrap();
    // a later first-party block refers to the same key
    let u3 = u2.append(BlockBuilder::new().check(format!("check if a(1) trusting {}", other.public()).as_str()).unwrap()).unwrap();
    let mem = u3.print_block_source(2).unwrap();
    let reloaded = UnverifiedBiscuit::from(&u3.to_vec().unwrap()).map(|t| t.print_block_source(2));
    println!("in memory : {}", mem.trim());
    println!("reloaded  : {:?}", reloaded);
    let same = matches!(&reloaded, Ok(Ok(s)) if *s == mem);
    // verified sibling for comparison
    let v2 = b.append_third_party(ext.public(), tp).unwrap();
    let v3 = v2.append(BlockBuilder::new().check(format!("check if a(1) trusting {}", other.public()).as_str()).unwrap()).unwrap();
    let vre = Biscuit::from(&v3.to_vec().unwrap(), root.public()).unwrap();
    println!("verified  : mem == reloaded: {}", v3.print_block_source(2).unwrap() == vre.print_block_source(2).unwrap());
    if same { println!("OK same meaning in memory and after reload"); std::process::exit(1) } else { println!("DEFECT in-memory and reloaded tokens differ"); }
}
