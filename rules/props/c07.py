"""C07 — third-party blocks are bound to one signer and one position in one token (structural necessary conditions)."""
from props import chain, tablesym


def check(fb, ctx):
    ctx.explanation = (
        "TPAPPEND: Biscuit::append_third_party_with_keypair reaches append_serialized only through the key-equality edge and the "
        "success edge of verify_external_signature(payload, last next key, last block signature, {expected key, response "
        "signature}, version 1, PreviousSignatureHashing) and appends the verified payload. EXTSIGN/LAYOUT: the third-party signer "
        "and the verifier use generate_external_signature_payload_v1 = tag ++ version ++ payload ++ previous signature; the request "
        "carries the last block's signature. PASS/ARGS: chain verification re-checks the external signature of every block that has "
        "one against the actual previous block, in legacy mode only from unsafe_* entry points; the block signature covers the "
        "external signature. ISOLATE: third-party blocks neither read nor extend the token tables."
    )
    chain.append_third_party_rules(fb, ctx)
    chain.third_party_signer_rules(fb, ctx)
    chain.layout_rules(fb, ctx, only=("generate_external_signature_payload", "generate_block_signature_payload"))
    chain.external_rules(fb, ctx)
    chain.mode_selection_rules(fb, ctx)
    chain.dispatch_rules(fb, ctx, only=("verify_block_signature", "sign_block"))
    chain.deserialize_then_verify(fb, ctx)
    chain.decode_gates(fb, ctx)
    tablesym.third_party_isolation_rules(fb, ctx)
    ctx.not_decided = ["unforgeability of the external signature scheme", "the unverified API accepts an unsigned third-party block by design and defers to verify()"]
    ctx.trusted = ["oracle/signature_layout.json", "rustc MIR/HIR"]
