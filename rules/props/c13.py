"""C13 — authorizer snapshots and saved policies restore the same authorizer (structural necessary conditions)."""
import re
import hirq, mirq, sigs
from facts import CheckerError, find_all
from props import tablesym
from props.c05 import strip, is_local, mcalls

S = "biscuit_auth::token::authorizer::snapshot::<impl token::authorizer::Authorizer>"
AB = "biscuit_auth::token::builder::authorizer::AuthorizerBuilder"


def leaves_of_field(fb, b, agg, name):
    op = mirq.agg_field(agg, name)
    return mirq.operand_leaves(fb, b, op) if op is not None else set()


def stores_into(body, local, field_suffix):
    """statements assigning to <local>.<...field_suffix>"""
    out = []
    for i, blk in enumerate(body["blocks"]):
        for s in blk["s"]:
            d = s["d"]
            named = [p for p in (d.get("p") or []) if p.startswith(".")]
            if named and ".".join(x[1:] for x in named).endswith(field_suffix):
                out.append((i, s))
    return out



def snapshot_units_rules(fb, ctx):
    """UNITS: durations cross the snapshot as whole nanoseconds in both directions (as_nanos / from_nanos); a sub-second accessor or
    another unit on one side silently changes the consumed time / the time budget of the restored authorizer (C13, and the
    cumulative time budget of C10)."""
    sb = fb.body(S + "::snapshot")
    where = f"{sb['file']}:{sb['line']}"
    snap = [s_ for _, s_ in mirq.aggregates(sb, r"schema::AuthorizerSnapshot$")]
    lim = [s_ for _, s_ in mirq.aggregates(sb, r"schema::RunLimits$")]
    if not (snap and lim):
        raise CheckerError("anchor: snapshot() aggregates")
    for what, agg, f in (("execution_time", snap[0], "execution_time"), ("limits.max_time", lim[0], "max_time")):
        l = leaves_of_field(fb, sb, agg, f)
        calls_ = sorted(x for x in l if x.startswith("call:") and "Duration" in x)
        ctx.check(any(x.endswith("Duration::as_nanos") for x in l) and not any(re.search(r"Duration::(subsec_\w+|as_secs\w*|as_millis|as_micros)$", x) for x in l), "UNITS", f"snapshot(): {what} is written in whole nanoseconds", f"UNITS|writer|{what}", f"the value goes through {calls_}: the reader multiplies nothing and reads nanoseconds (Duration::from_nanos)", where)
    rb = fb.body(S + "::from_snapshot")
    rwhere = f"{rb['file']}:{rb['line']}"
    for what, place in (("execution_time", "execution_time"), ("limits.max_time", "limits.max_time")):
        ok_u = False
        for c in mirq.calls_matching(fb, rb, r"time::Duration::from_\w+$"):
            lv = mirq.operand_leaves(fb, rb, c.args[0])
            if any(x == "arg1." + place for x in lv):
                ok_u = c.callee.endswith("Duration::from_nanos")
                if not ok_u:
                    break
        ctx.check(ok_u, "UNITS", f"from_snapshot: {what} is read as nanoseconds", f"UNITS|reader|{what}", "snapshot." + place + " is not converted with Duration::from_nanos", rwhere)

def check(fb, ctx):
    ctx.explanation = (
        "WRITER: every field of AuthorizerSnapshot / AuthorizerWorld / RunLimits built by Authorizer::snapshot() (and "
        "AuthorizerBuilder::snapshot()) may-depends on the matching piece of state (limits x3, execution_time, iterations, symbols, "
        "public keys, blocks, authorizer block, policies, generated facts per origin). READER: from_snapshot stores each of them "
        "back into the same piece; generated facts are re-inserted under their decoded origin for every origin kind; blocks go "
        "through load_and_translate_block with their index and third-party blocks are resolved against the snapshot table; "
        "public_key_to_block_id is rebuilt from external keys. ORIGIN: usize::MAX <-> Authorizer in both directions. TRANSLATE: "
        "Block::translate moves facts, rules, checks and scopes into the snapshot table. BUILDER: AuthorizerBuilder::from_snapshot "
        "refuses snapshots carrying blocks, facts, iterations or time. POLICIES: AuthorizerPolicies writer/reader cover the same fields."
    )
    # ---- WRITER
    sb = fb.body(S + "::snapshot")
    where = f"{sb['file']}:{sb['line']}"
    world = [s for _, s in mirq.aggregates(sb, r"schema::AuthorizerWorld$")]
    snap = [s for _, s in mirq.aggregates(sb, r"schema::AuthorizerSnapshot$")]
    lim = [s for _, s in mirq.aggregates(sb, r"schema::RunLimits$")]
    if not (world and snap and lim):
        raise CheckerError("anchor: snapshot() aggregates")
    # closures compute several fields: add the leaves of closures created in this body, renamed to the captured upvars is not
    # tracked; use the call names instead
    want_world = {
        "symbols": lambda l: any("SymbolTable::strings" in x for x in l),
        "public_keys": lambda l: any("into_inner" in x or "public_keys" in x for x in l),
        "blocks": lambda l: any(x.startswith("arg1.blocks") for x in l),
        "authorizer_block": lambda l: any(x.startswith("arg1.authorizer_block_builder") for x in l) and any("token_block_to_proto_snapshot_block" in x for x in l),
        "authorizer_policies": lambda l: any(x.startswith("arg1.policies") for x in l),
        "generated_facts": lambda l: any(x.startswith("arg1.world.facts") for x in l),
        "iterations": lambda l: l & {"arg1.world.iterations"} == {"arg1.world.iterations"},
    }
    for f, pred in want_world.items():
        l = leaves_of_field(fb, sb, world[0], f)
        ctx.check(pred(l), "WRITER", f"snapshot(): AuthorizerWorld.{f} is written from the authorizer's {f.replace('authorizer_', '')}", f"WRITER|world|{f}", f"field depends on {sorted(x for x in l if x.startswith('arg'))[:6]} {sorted(x for x in l if x.startswith('call'))[:4]}", where)
    l = leaves_of_field(fb, sb, snap[0], "execution_time")
    ctx.check(any(x == "arg1.execution_time" for x in l), "WRITER", "snapshot(): execution_time is written", "WRITER|execution_time", f"depends on {sorted(l)[:6]}", where)
    for f in ("max_facts", "max_iterations", "max_time"):
        l = leaves_of_field(fb, sb, lim[0], f)
        ctx.check(any(x == f"arg1.limits.{f}" for x in l), "WRITER", f"snapshot(): limits.{f} is written from self.limits.{f}", f"WRITER|limits|{f}", f"depends on {sorted(x for x in l if x.startswith('arg'))}", where)
    snapshot_units_rules(fb, ctx)
    # the authorizer block is built against the snapshot's table: its new symbols AND its new public keys must be added to that
    # table (sibling: AuthorizerBuilder::snapshot), otherwise key indices of the block's scopes point past / into other keys
    for fn_ in (S + "::snapshot", AB + "::snapshot"):
        b_ = fb.body_opt(fn_)
        if b_ is None:
            continue
        ns = len(mirq.calls_matching(fb, b_, r"datalog::symbol::SymbolTable::extend$"))
        nk = len(mirq.calls_matching(fb, b_, r"public_keys::PublicKeys::extend$"))
        short_ = ("Authorizer" if fn_.startswith(S) else "AuthorizerBuilder") + "::snapshot"
        ctx.check(ns >= 1 and nk == ns, "WRITER", f"{short_}: the authorizer block's symbols and public keys are both added to the snapshot table", f"WRITER|tables|{short_}", f"{ns} SymbolTable::extend but {nk} PublicKeys::extend: the keys named by the authorizer's own rules / checks are missing from world.public_keys", f"{b_['file']}:{b_['line']}")
    # ---- READER
    rb = fb.body(S + "::from_snapshot")
    rwhere = f"{rb['file']}:{rb['line']}"
    L = sigs.Layout(fb, rb)
    rl = [s for _, s in mirq.aggregates(rb, r"datalog::RunLimits$")]
    if rl:
        for f in ("max_facts", "max_iterations", "max_time"):
            l = leaves_of_field(fb, rb, rl[0], f)
            ctx.check(any(x == f"arg1.limits.{f}" for x in l) and not any(x.startswith("arg1.limits.") and x != f"arg1.limits.{f}" for x in l), "READER", f"from_snapshot: limits.{f} <- snapshot.limits.{f}", f"READER|limits|{f}", f"depends on {sorted(x for x in l if x.startswith('arg'))}", rwhere)
    for fld, src in (("world.iterations", "arg1.world.iterations"), ("limits", "arg1.limits"), ("execution_time", "arg1.execution_time"), ("policies", "arg1.world.authorizer_policies"), ("authorizer_block_builder", "arg1.world.authorizer_block"), ("symbols", "arg1.world.symbols")):
        st = stores_into(rb, None, fld)
        ok = False
        for i, s in st:
            r = s["r"]
            ops = r.get("ops") or ([r["op"]] if r.get("op") else [])
            lv = set()
            for o in ops:
                lv |= mirq.operand_leaves(fb, rb, o)
            ok = ok or mirq.has_leaf(lv, src)
        ctx.check(ok, "READER", f"from_snapshot: authorizer.{fld} <- {src.replace('arg1', 'snapshot')}", f"READER|{fld}", f"no store into `.{fld}` that depends on {src}", rwhere)
    # generated facts: one insert per decoded (origin, fact), for every origin
    rh = fb.hir_of(rb)
    gf = [l for l in find_all(rh["body"], lambda z: z.get("k") == "match" and z.get("src") == "ForLoopDesugar") if find_all(l["scrut"], lambda z: z.get("k") == "field" and z.get("name") == "generated_facts")]
    ok = False
    if len(gf) == 1:
        ins = mcalls(gf[0], r"datalog::FactSet::insert$")
        dec = [c for c in find_all(gf[0], lambda z: z.get("k") == "call" and (z.get("f", {}).get("res", {}).get("path") or "").endswith("proto_origin_to_authorizer_origin"))]
        cond = [x for x in find_all(gf[0], lambda z: z.get("k") == "if" or z.get("k") == "continue")]
        ok = len(ins) == 1 and len(dec) == 1 and not cond
    ctx.check(ok, "READER", "from_snapshot: every generated fact is re-inserted under its decoded origin", "READER|generated_facts", "expected an unconditional loop `for {origins, facts} in world.generated_facts { origin = decode(origins)?; for fact { world.facts.insert(&origin, fact) } }` (no origin kind skipped)", rwhere)
    # blocks: loaded with their index, third-party blocks resolved against the snapshot table, key map rebuilt
    lc = mirq.deep_calls_matching(fb, rb, r"authorizer::load_and_translate_block$")
    ctx.check(len(lc) == 1, "READER", "from_snapshot: blocks are reloaded through load_and_translate_block", "READER|blocks|loader", f"found {len(lc)} calls", rwhere)
    is_load = lambda z: z.get("k") == "call" and (z.get("f", {}).get("res", {}).get("path") or "").endswith("load_and_translate_block")
    loops = [l for l in find_all(rh["body"], lambda z: z.get("k") == "match" and z.get("src") == "ForLoopDesugar") if find_all(l["scrut"], lambda z: z.get("k") == "field" and z.get("name") == "blocks") and mcalls(l["scrut"], r"::enumerate$")]
    # the same iteration written as `world.blocks.iter().enumerate().map(|(i, block)| { .. }).collect::<Result<..>>()`
    loops += [m for m in find_all(rh["body"], lambda z: z.get("k") == "mcall" and z.get("name") in ("map", "for_each", "try_for_each", "filter_map", "try_fold", "fold") and any(isinstance(a, dict) and strip(a).get("k") == "closure" for a in z.get("args", [])))
              if find_all(m["recv"], lambda z: z.get("k") == "field" and z.get("name") == "blocks") and mcalls(m["recv"], r"::enumerate$") and not find_all(m["recv"], lambda z: z.get("k") == "closure")]
    lb = [l for l in loops if find_all(l, is_load)]
    ctx.check(len(lb) == 1, "READER", "from_snapshot: one loop `for (i, block) in world.blocks.iter().enumerate()` loads the blocks", "READER|blocks|loop", f"{len(lb)} such loops", rwhere)
    if lb:
        call = find_all(lb[0], is_load)
        idx_ok = bool(call) and is_local(strip(call[0]["args"][1]))
        sym_fix = [a for a in find_all(lb[0], lambda z: z.get("k") == "assign" and strip(z["lhs"]).get("k") == "field" and strip(z["lhs"]).get("name") == "symbols")]
        guarded = [i for i in find_all(lb[0], lambda z: z.get("k") == "if") if find_all(i["cond"], lambda z: z.get("k") == "field" and z.get("name") == "external_key") and any(find_all(i["then"], lambda z: z is a) for a in sym_fix)]
        ctx.check(idx_ok, "READER", "from_snapshot: block i is loaded as block i", "READER|blocks|index", "load_and_translate_block is not given the enumeration index", rwhere)
        ctx.check(bool(guarded) and call and guarded[0]["ln"] < call[0]["ln"], "READER", "from_snapshot: a third-party block is resolved against the snapshot's table", "READER|blocks|third-party-table", "load_and_translate_block resolves a block with an external key against block.symbols, which proto_snapshot_block_to_token_block leaves empty: `block.symbols` must be set for such blocks before loading", rwhere)
    km = [c for l in loops for c in mcalls(l, r"Vec::<T, A>::push$") if "or_default" in str(c["recv"])]
    ctx.check(len(km) == 1 and is_local(strip(km[0]["args"][0])), "READER", "from_snapshot: public_key_to_block_id rebuilt from external keys with the block index", "READER|blocks|keymap", "the key -> block map is not rebuilt (expected one `map.entry(key id).or_default().push(i)` in a loop over the blocks)", rwhere)
    # KEYMAP: trusted origins of block rules are computed while a block is loaded, from the key -> block map; a scope may name the
    # key of a LATER block, so no insertion into that map may follow (in the CFG) the point where a block is loaded.
    for fpath in (S + "::from_snapshot", "biscuit_auth::token::builder::authorizer::AuthorizerBuilder::build_inner"):
        b = fb.body(fpath)
        loads = [c.bb for c in mirq.calls_matching(fb, b, r"authorizer::load_and_translate_block$")]
        for i, blk in enumerate(b["blocks"]):
            for st in blk["s"]:
                rv = st["r"]
                if rv.get("k") == "agg" and rv.get("ak") == "closure":
                    nest = [x for k, x in fb.bodies.items() if k == rv["closure"] or k.startswith(rv["closure"] + "::")]
                    if any(mirq.calls_matching(fb, cb, r"authorizer::load_and_translate_block$") for cb in nest):
                        loads.append(i)
        ins = [c for c in fb.calls(b) if re.search(r"HashMap::<[^>]*>::entry$", c.callee) and re.match(r"\[usize, std::vec::Vec<usize\b", str(c.gargs))]
        short = ("Authorizer" if "snapshot" in fpath else "AuthorizerBuilder") + "::" + fpath.split("::")[-1]
        ctx.check(bool(loads) and bool(ins), "KEYMAP", f"{short}: block loading and key-map insertion found", f"KEYMAP|{short}|anchors", f"{len(loads)} load point(s), {len(ins)} insertion(s) into HashMap<usize, Vec<usize>>", f"{b['file']}:{b['line']}")
        late = sorted({c.ln for c in ins for l in loads if c.bb in mirq.reachable_from(b, l)})
        ctx.check(not late, "KEYMAP", f"{short}: the key -> block map is complete before the first block is loaded", f"KEYMAP|{short}|complete-before-load", f"insertion(s) at line(s) {late} can run after a block has been loaded: a rule or block scope naming the key of a later block gets trusted origins without that block", f"{b['file']}:{late[0] if late else b['line']}")
    # ---- ORIGIN mapping
    ob = fb.hir_of("biscuit_auth::token::authorizer::snapshot::authorizer_origin_to_proto_origin")
    ifs = [i for i in find_all(ob["body"], lambda z: z.get("k") == "if")]
    okw = len(ifs) == 1 and "MAX" in str(strip(ifs[0]["cond"])) and bool(find_all(ifs[0]["then"], lambda z: (hirq.ctor_name(z) or "").endswith("origin::Content::Authorizer"))) and bool(find_all(ifs[0]["else"], lambda z: (hirq.ctor_name(z) or "").endswith("origin::Content::Origin")))
    if not okw:
        # any other spelling (`match`, `content` computed first): interpret the per-origin closure for usize::MAX and for a block id
        import absint
        MAXV = 2 ** 64 - 1
        for cl in find_all(ob["body"], lambda z: z.get("k") == "closure" and len(z.get("params") or []) == 1):
            try:
                res_ = {}
                for nm_, v_ in (("max", MAXV), ("block", 1)):
                    it_ = absint.Interp(consts={"MAX": MAXV})
                    res_[nm_] = it_.apply(("fn", cl["params"], cl["body"], absint.Env()), [v_])
                content = lambda v_: (absint.find_ctor(v_, "Some") or (None, None, [None]))[2][0]      # what `content: Some(..)` holds
                cm_, cb_ = content(res_["max"]), content(res_["block"])
                okw = okw or (absint.tag(cm_) == "Authorizer" and absint.tag(cb_) == "Origin" and cb_[2] and cb_[2][0] == 1)
            except absint.Unknown:
                pass
    ctx.check(okw, "ORIGIN", "writer: usize::MAX -> Authorizer, i -> Origin(i)", "ORIGIN|writer", "origin encoding table changed", "biscuit-auth/src/token/authorizer/snapshot.rs")
    pb = fb.hir_of("biscuit_auth::token::authorizer::snapshot::proto_origin_to_authorizer_origin")
    pm = [m for m in hirq.matches_in(pb["body"]) if "origin::Content" in (m.get("sty") or "")]
    tab = {}
    for m in pm[:1]:
        for arm in m["arms"]:
            vs = hirq.pat_variants(arm["pat"])
            sub = hirq.subpatterns(arm["pat"])
            name = (list(hirq.pat_variants(sub[0]))[0] if sub else list(vs)[0] or "").split("::")[-1]
            ins = [str(strip(c["args"][0])) for c in mcalls(arm["body"], r"origin::Origin::insert$")]
            tab[name] = "MAX" if ins and "MAX" in ins[0] else ("value" if ins else ("Err" if hirq.err_variant(arm["body"]) else "?"))
    ctx.check(tab.get("Authorizer") == "MAX" and tab.get("Origin") == "value" and (tab.get("None") == "Err" or tab.get("_") == "Err"), "ORIGIN", "reader: Authorizer -> usize::MAX, Origin(i) -> i, missing -> Err", "ORIGIN|reader", f"found {tab}", "biscuit-auth/src/token/authorizer/snapshot.rs")
    # ---- TRANSLATE
    tb = fb.body("biscuit_auth::token::block::Block::translate")
    agg = [s for _, s in mirq.aggregates(tb, r"token::block::Block$")]
    if agg:
        for f in ("facts", "rules", "checks", "scopes"):
            l = leaves_of_field(fb, tb, agg[0], f)
            translated = any(x.startswith("call:") and x != "call:::clone" and "clone" not in x for x in l) and any(x == f"arg1.{f}" for x in l)
            ctx.check(translated, "TRANSLATE", f"Block::translate moves `{f}` into the target table", f"TRANSLATE|{f}", f"`{f}` of the translated block depends on {sorted(l)[:6]}: copied verbatim, its symbol / key indices still refer to the source table", f"{tb['file']}:{tb['line']}")
        for f in ("context", "version", "external_key"):
            l = leaves_of_field(fb, tb, agg[0], f)
            ctx.check(any(x == f"arg1.{f}" for x in l), "TRANSLATE", f"Block::translate keeps `{f}`", f"TRANSLATE|{f}", f"depends on {sorted(l)[:4]}", f"{tb['file']}:{tb['line']}")
    tablesym.rule_translate_rules(fb, ctx)
    # the snapshot block loader applies the same check-kind gate as the token block loader
    from props import c16
    c16.kind_gate_rule(fb, ctx, "proto_snapshot_block_to_token_block", fb.body("biscuit_auth::format::convert::proto_snapshot_block_to_token_block"))
    # execution_time: `Some(_)` is also the "Datalog already ran" marker of Authorizer::run; the writer stores None as 0, so the
    # reader must map 0 back to None - an unconditional Some(0) makes the restored authorizer skip evaluation altogether
    et = [a for a in find_all(rh["body"], lambda z: z.get("k") == "assign" and strip(z["lhs"]).get("k") == "field" and strip(z["lhs"]).get("name") == "execution_time" and re.search(r"authorizer::Authorizer$", strip(z["lhs"]).get("ety") or ""))]
    guarded_et = bool(et) and all(bool(find_all(a["rhs"], lambda z: (z.get("k") == "binary" and z.get("op") in ("Gt", "Ne", "Lt", "Ge", "Le", "Eq")) or (z.get("k") == "mcall" and z.get("name") in ("is_zero",)))) and bool(find_all(a["rhs"], lambda z: (z.get("k") == "mcall" and z.get("name") in ("filter", "then", "then_some")) or z.get("k") in ("if", "match"))) for a in et)
    ctx.check(guarded_et, "READER", "from_snapshot: execution_time 0 is restored as None (not yet evaluated)", "READER|execution_time|zero-is-none", "authorizer.execution_time is assigned without a zero test: a snapshot taken before the first run restores as Some(0), Authorizer::run returns early and rules are never evaluated", rwhere)
    # ---- BUILDER::from_snapshot refusals
    bb = fb.body(AB + "::from_snapshot")
    bh = fb.hir_of(bb)
    refusals = set()
    et_ids = set()
    for l in find_all(bh["body"], lambda z: z.get("k") == "let" and isinstance(z.get("pat"), dict) and z["pat"].get("k") == "struct"):
        for f in l["pat"].get("fields", []):
            if f.get("name") == "execution_time":
                et_ids |= {b_["id"] for b_ in find_all(f["pat"], lambda z: z.get("k") == "bind")}
    # a refusing test may be computed into a variable first (`let rejected = match (world.blocks.is_empty(), ..) {..}; if let
    # Some(m) = rejected { return Err(..) }`): the variables of a condition are followed through their `let` initialisers
    inits = {l["pat"]["id"]: l["init"] for l in find_all(bh["body"], lambda z: z.get("k") == "let" and isinstance(z.get("pat"), dict) and z["pat"].get("k") == "bind" and z.get("init") is not None)}
    for i in find_all(bh["body"], lambda z: z.get("k") == "if"):
        if hirq.err_variant(i["then"]):
            todo, seen = [i["cond"]], set()
            while todo:
                c = todo.pop()
                for f in find_all(c, lambda z: z.get("k") == "field"):
                    refusals.add(f["name"])
                # `execution_time` is destructured from the input struct: a binding of the field pattern, whatever the variable is called
                for p in find_all(c, lambda z: hirq.is_lid(z, et_ids)):
                    refusals.add("execution_time")
                for p in find_all(c, lambda z: z.get("k") == "path" and z.get("res", {}).get("dk") == "Local" and z["res"].get("id") in inits):
                    if p["res"]["id"] not in seen:
                        seen.add(p["res"]["id"])
                        todo.append(inits[p["res"]["id"]])
    ctx.check({"blocks", "generated_facts", "iterations", "execution_time"} <= refusals, "BUILDER", "AuthorizerBuilder::from_snapshot refuses blocks / generated facts / iterations / execution time", "BUILDER|refusals", f"refusing tests found for {sorted(refusals)}", f"{bb['file']}:{bb['line']}")
    # ---- builder snapshot writer
    bs = fb.body_opt(AB + "::snapshot")
    if bs is not None:
        w2 = [s for _, s in mirq.aggregates(bs, r"schema::AuthorizerWorld$")]
        l2 = [s for _, s in mirq.aggregates(bs, r"schema::RunLimits$")]
        if w2 and l2:
            ok = any(x.startswith("arg1.policies") for x in leaves_of_field(fb, bs, w2[0], "authorizer_policies")) and any(x.startswith("arg1.authorizer_block_builder") for x in leaves_of_field(fb, bs, w2[0], "authorizer_block")) and all(any(x == f"arg1.limits.{f}" for x in leaves_of_field(fb, bs, l2[0], f)) for f in ("max_facts", "max_iterations", "max_time"))
            ctx.check(ok, "WRITER", "AuthorizerBuilder::snapshot writes policies, authorizer block and the three limits", "WRITER|builder", "a field of the builder snapshot does not come from the matching state", f"{bs['file']}:{bs['line']}")
    # Authorizer::save: the declared version gates the loading of the block AND of the policies: it is the library's maximum (a
    # constant), or at least computed from the policies too - a version derived from the facts/rules/checks alone refuses saved
    # policies that use a newer feature (scopes, check all, 3.3 terms) than the rest
    sv = fb.body_opt("biscuit_auth::token::authorizer::Authorizer::save")
    if sv is not None:
        ap = [s_ for _, s_ in mirq.aggregates(sv, r"authorizer::AuthorizerPolicies$")]
        if ap:
            op = mirq.agg_field(ap[0], "version")
            lv = mirq.operand_leaves(fb, sv, op) if op is not None else set()
            is_const = isinstance(op, dict) and op.get("k") == "const"
            ctx.check(is_const or any(x.startswith("arg1.policies") for x in lv), "POLICIES", "Authorizer::save declares a version that covers the policies", "POLICIES|save|version", f"the saved version is computed from {sorted(x for x in lv if x.startswith('arg'))} only: policies are loaded under that version too, and one that needs a newer version makes Authorizer::from fail", f"{sv['file']}:{sv['line']}")
    # ---- POLICIES (AuthorizerPolicies serialize / deserialize)
    for fn in fb.bodies_matching(r"format::convert::(authorizer_to_proto_authorizer|proto_authorizer_to_authorizer)$"):
        short = fn["path"].split("::")[-1]
        if short == "authorizer_to_proto_authorizer":
            ag = [s for _, s in mirq.aggregates(fn, r"schema::AuthorizerPolicies$")]
            if ag:
                names = ag[0]["r"].get("fields") or []
                covered = [f for f in names if any(x.startswith("arg") or x.startswith("call") for x in leaves_of_field(fb, fn, ag[0], f))]
                ctx.check(set(covered) == set(names), "POLICIES", "authorizer_to_proto_authorizer fills every field of AuthorizerPolicies", "POLICIES|writer", f"fields {sorted(set(names) - set(covered))} are not written from the input", f"{fn['file']}:{fn['line']}")
        else:
            h = fb.hir_of(fn)
            used = {f["name"] for f in find_all(h["body"], lambda z: z.get("k") == "field" and is_local(strip(z["e"])))}
            adt = fb.adt_by_path.get("biscuit_auth::format::schema::AuthorizerPolicies")
            if adt:
                fields = [f["name"] for f in adt["variants"][0]["fields"]]
                ctx.check(set(fields) <= used, "POLICIES", "proto_authorizer_to_authorizer reads every field of AuthorizerPolicies", "POLICIES|reader", f"fields never read: {sorted(set(fields) - used)}", f"{fn['file']}:{fn['line']}")
    ctx.not_decided = ["`always succeeds` and behavioural equality of the restored authorizer (symbol translation is a runtime computation)", "lossy casts (as_nanos() as u64, usize as u32) are observations"]
    ctx.trusted = ["rustc MIR/HIR", "prost-generated schema types"]
