// K4 (C11): same authorizer, many fresh builds: the set of distinct outcomes must have size 1.
use biscuit_auth::{builder::*, *};
use std::collections::BTreeSet;
use std::time::Duration;
fn lim() -> AuthorizerLimits { AuthorizerLimits { max_facts: 1000, max_iterations: 100, max_time: Duration::from_secs(10) } }
fn outcomes(name: &str, f: impl Fn() -> String) -> bool {
    let mut set = BTreeSet::new();
    for _ in 0..300 { set.insert(f()); }
    println!("{:34} {} distinct outcome(s): {:?}", name, set.len(), set);
    set.len() > 1
}
fn main() {
    let mut defect = false;
    // find_match: `check if` over two facts, one match succeeds, the other makes the expression fail
    defect |= outcomes("Rule::find_match (check if)", || {
        let mut a = AuthorizerBuilder::new().fact("v(1)").unwrap().fact("v(0)").unwrap()
            .check("check if v($x), 10 / $x > 0").unwrap().policy("allow if true").unwrap().limits(lim()).build_unauthenticated().unwrap();
        format!("{:?}", a.authorize().map_err(|e| e.to_string()))
    });
    // check_match_all: one binding is a counter-example (false), another one errors
    defect |= outcomes("Rule::check_match_all (check all)", || {
        let mut a = AuthorizerBuilder::new().fact("v(-1)").unwrap().fact("v(0)").unwrap()
            .check("check all v($x), 10 / $x > 0").unwrap().policy("allow if true").unwrap().limits(lim()).build_unauthenticated().unwrap();
        format!("{:?}", a.authorize().map_err(|e| e.to_string()))
    });
    // run_with_limits: two facts make a rule's expression fail with two different errors
    defect |= outcomes("World::run_with_limits (rule)", || {
        let mut a = AuthorizerBuilder::new().fact("v(0)").unwrap().fact("v(9223372036854775807)").unwrap()
            .rule("r($x) <- v($x), 10 / $x + $x + $x > 0").unwrap().policy("allow if true").unwrap().limits(lim()).build_unauthenticated().unwrap();
        format!("{:?}", a.authorize().map_err(|e| e.to_string()))
    });
    // query_rule: same through a query
    defect |= outcomes("World::query_rule (query)", || {
        let mut a = AuthorizerBuilder::new().fact("v(0)").unwrap().fact("v(9223372036854775807)").unwrap()
            .policy("allow if true").unwrap().limits(lim()).build_unauthenticated().unwrap();
        let r: Result<Vec<(i64,)>, _> = a.query("r($x) <- v($x), 10 / $x + $x + $x > 0");
        format!("{:?}", r.map_err(|e| e.to_string()))
    });
    // query conversion: which conversion error is reported
    defect |= outcomes("Authorizer::query (conversion)", || {
        let mut a = AuthorizerBuilder::new().fact("v(\"a\")").unwrap().fact("v(\"b\")").unwrap()
            .policy("allow if true").unwrap().limits(lim()).build_unauthenticated().unwrap();
        let r: Result<Vec<(i64,)>, _> = a.query("r($x) <- v($x)");
        format!("{:?}", r.map_err(|e| e.to_string()))
    });
    defect |= outcomes("Authorizer::query_all (conversion)", || {
        let mut a = AuthorizerBuilder::new().fact("v(\"a\")").unwrap().fact("v(\"b\")").unwrap()
            .policy("allow if true").unwrap().limits(lim()).build_unauthenticated().unwrap();
        let r: Result<Vec<(i64,)>, _> = a.query_all("r($x) <- v($x)");
        format!("{:?}", r.map_err(|e| e.to_string()))
    });
    if defect { println!("DEFECT outcome depends on hash order") } else { println!("OK"); std::process::exit(1) }
}
