#!/usr/bin/env python3
"""Render seeded/MATRIX.json and work/refactor_matrix*.json as the markdown tables of DESIGN.md §8 (replaces the placeholders or
the previously rendered tables, which are delimited by HTML comments)."""
import json, os, re, sys
V = os.path.dirname(os.path.dirname(os.path.abspath(__file__)))


def short(t, n=150):
    t = re.sub(r"\s+", " ", (t or "").replace("|", "/")).strip()
    return t if len(t) <= n else t[:n - 1] + "…"


def seeds_table():
    m = json.load(open(os.path.join(V, "seeded", "MATRIX.json")))
    rows, own_hit, any_hit, missed = [], 0, 0, []
    for sid in sorted(m):
        row = m[sid]
        meta = {}
        try:
            meta = json.load(open(os.path.join(V, "seeded", sid, "meta.json")))
        except Exception:
            pass
        if "error" in row:
            rows.append(f"| {sid} | {short(meta.get('summary'))} | - | patch no longer applies on the current HEAD |")
            continue
        prop = sid.split("-")[0]
        det = [p for p, v in row.items() if v["result"] == "DETECTED"]
        err = [p for p, v in row.items() if v["result"] == "checker-error"]
        own = row.get(prop, {}).get("result")
        own_hit += own == "DETECTED"
        any_hit += bool(det)
        if not det:
            missed.append(sid)
        rule = ""
        src = row.get(prop) if own == "DETECTED" else (row.get(det[0]) if det else None)
        if src:
            mm = re.search(r"rule=(\w+)", src.get("first", ""))
            rule = mm.group(1) if mm else ""
        rows.append(f"| {sid} | {short(meta.get('summary'))} | {'yes' if own == 'DETECTED' else ('checker error' if own == 'checker-error' else 'no')} ({rule}) | {', '.join(det) or '**none**'}{(' (checker error: ' + ', '.join(err) + ')') if err else ''} |")
    n = len(m)
    head = f"{n} changes; caught by the check of their own property: **{own_hit}**; caught by at least one check: **{any_hit}**; caught by none: {len(missed)} ({', '.join(missed) or '-'}).\n\n| change | what it does | own check (first rule) | all checks that report it |\n|---|---|---|---|\n"
    return head + "\n".join(rows)


def refac_table():
    out = []
    for name, title in (("refactor_matrix.json", "round 1 (local rewrites)"), ("refactor2_matrix.json", "round 2 (other local rewrites)"), ("refactor3_matrix.json", "round 3 (medium-size structural refactorings)"), ("refactor4_matrix.json", "round 4 (control flow through return values, iterator pipelines, private state structs, tables)"), ("refactor5_matrix.json", "round 5 (clean-up commits mixing two or three rewrites in one function)")):
        # the committed copy next to the refactorings (refactorings<N>/MATRIX.json), else the scratch copy of the last run
        rdir = {"refactor_matrix.json": "refactorings", "refactor2_matrix.json": "refactorings2", "refactor3_matrix.json": "refactorings3", "refactor4_matrix.json": "refactorings4", "refactor5_matrix.json": "refactorings5"}[name]
        p = os.path.join(V, "work", name)
        if not os.path.exists(p):
            p = os.path.join(V, rdir, "MATRIX.json")
        if not os.path.exists(p):
            continue
        m = json.load(open(p))
        bad = {}
        for sid, row in m.items():
            if "error" in row:
                bad[sid] = ["patch does not apply"]
                continue
            al = [f"{p_} ({v['result']})" for p_, v in row.items() if v["result"] != "missed"]
            if al:
                bad[sid] = al
        out.append(f"**{title}**: {len(m)} refactorings, {len(m) - len(bad)} silent on all 20 checks, {len(bad)} with an alarm" + (":" if bad else "."))
        rd = {"refactor_matrix.json": "rfc", "refactor2_matrix.json": "rf2c", "refactor3_matrix.json": "rf3c", "refactor4_matrix.json": "rf4c", "refactor5_matrix.json": "rf5c"}[name]
        for sid, al in sorted(bad.items()):
            out.append(f"* {rd}{sid[1:3]}/{sid.split('-')[-1]}: {', '.join(al)}")
    return "\n".join(out)


def main():
    p = os.path.join(V, "DESIGN.md")
    s = open(p).read()
    for tag, fn in (("SEED-MATRIX", seeds_table), ("REFACTOR-MATRIX", refac_table)):
        block = f"<!-- {tag} -->\n{fn()}\n<!-- /{tag} -->"
        if f"{tag}-PLACEHOLDER" in s:
            s = s.replace(f"{tag}-PLACEHOLDER", block)
        else:
            s = re.sub(rf"<!-- {tag} -->.*?<!-- /{tag} -->", lambda _: block, s, flags=re.S)
    open(p, "w").write(s)
    print("rendered")


if __name__ == "__main__":
    main()
