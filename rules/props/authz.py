"""Authorization-semantics rules shared by C03 and C04."""
import re
import hirq, mirq
from facts import CheckerError, find_all
from props.c05 import strip, is_local, mcalls

A = "biscuit_auth::token::authorizer::Authorizer"
O = "biscuit_auth::datalog::origin"
D = "biscuit_auth::datalog"


def estr(n):
    """Structural rendering of a HIR expression (no line numbers / ids)."""
    n = strip(n)
    if not isinstance(n, dict):
        return "?"
    k = n.get("k")
    if k == "path":
        r = n["res"]
        return r.get("name") or (r.get("path") or "").replace("std::", "").replace("core::", "").replace("num::<impl usize>::MAX", "usize::MAX")
    if k == "lit":
        return repr(n.get("v"))
    if k == "binary":
        return f"({estr(n['a'])} {n['op']} {estr(n['b'])})"
    if k == "unary":
        return f"({n['op']} {estr(n['a'])})"
    if k == "cast":
        return estr(n["e"])
    if k == "field":
        return f"{estr(n['e'])}.{n['name']}"
    if k == "mcall":
        return f"{estr(n['recv'])}.{n['name']}({', '.join(estr(a) for a in n['args'])})"
    if k == "call":
        return f"{estr(n['f'])}({', '.join(estr(a) for a in n['args'])})"
    if k == "index":
        return f"{estr(n['e'])}[{estr(n['idx'])}]"
    if k == "struct":
        return f"{hirq.res_path(n['res']).split('::')[-1]}{{{', '.join(f['name'] + ': ' + estr(f['e']) for f in n['fields'])}}}"
    if k == "block" and n.get("expr") is not None and not n.get("stmts"):
        return estr(n["expr"])
    if k == "array":
        return "[" + ", ".join(estr(x) for x in n["es"]) + "]"
    if k == "tup":
        return "(" + ", ".join(estr(x) for x in n["es"]) + ")"
    return k or "?"


def check_loops(h):
    """The three outermost for-loops of authorize_inner that evaluate checks: (loop node, match-on-kind node)."""
    fors = [l for l in find_all(h["body"], lambda n: n.get("k") == "loop" and n.get("src") == "ForLoop") if any("CheckKind" in (m.get("sty") or "") for m in hirq.matches_in(l))]
    out = []
    for l in fors:
        if any(l2 is not l and find_all(l2["body"], lambda z: z is l) for l2 in fors):
            continue
        km = [m for m in hirq.matches_in(l) if "CheckKind" in (m.get("sty") or "")]
        out.append((l, km[0]))
    return out


def checkkind_rules(fb, ctx):
    b = fb.body(A + "::authorize_inner")
    h = fb.hir_of(b)
    loops = check_loops(h)
    ctx.floor("check loops in authorize_inner (authorizer, authority, blocks)", len(loops), 3)
    expected_ids = []
    for n, (loop, m) in enumerate(loops):
        where = f"{b['file']}:{m['ln']}"
        tab = {}
        for arm in m["arms"]:
            for v in hirq.pat_variants(arm["pat"]):
                body = strip(arm["body"])
                neg = False
                if isinstance(body, dict) and body.get("k") == "unary" and body.get("op") == "Not":
                    neg = True
                calls = [c for c in hirq.callee_paths(arm["body"]) if "World::query_match" in c]
                q = "?" if len(calls) != 1 else calls[0].split("::")[-1]
                prop = bool(find_all(arm["body"], lambda z: z.get("k") == "match" and str(z.get("src", "")).startswith("TryDesugar")))
                tab[(v or "").split("::")[-1]] = ("!" if neg else "") + q + ("?" if prop else "")
        want = {"One": "query_match?", "All": "query_match_all?", "Reject": "!query_match?"}
        ctx.check(tab == want, "CHECKKIND", f"check loop #{n}: One -> exists, All -> exists and forall, Reject -> not exists (errors propagated)", f"CHECKKIND|loop{n}", f"found {tab}, the semantics requires {want}", where)
        # block-id agreement inside the loop (`let block_id = i + 1;` stands for `i + 1`)
        pl_ = hirq.pure_lets(h)
        estr = lambda n_, _e=globals()["estr"]: _e(hirq.expand_places(n_, pl_))
        ids = []
        for c in mcalls(loop, r"origin::TrustedOrigins::from_scopes$") + [x for x in find_all(loop, lambda z: z.get("k") == "call" and z.get("f", {}).get("k") == "path" and (z["f"]["res"].get("path") or "").endswith("TrustedOrigins::from_scopes"))]:
            ids.append(("from_scopes", estr(c["args"][2])))
        for c in mcalls(loop, r"World::query_match$"):
            ids.append(("query_match", estr(c["args"][1])))
        for s in find_all(loop, lambda z: z.get("k") == "struct" and hirq.res_path(z["res"]).endswith("FailedBlockCheck")):
            for f in s["fields"]:
                if f["name"] == "block_id":
                    ids.append(("FailedBlockCheck.block_id", estr(f["e"])))
        distinct = sorted({v for _, v in ids})
        ctx.check(len(distinct) == 1 and len(ids) >= 4, "BLOCKID", f"check loop #{n}: one block id for trust computation, evaluation and error report", f"BLOCKID|loop{n}", f"block-id expressions differ: {ids}", where)
        expected_ids.append(distinct[0] if len(distinct) == 1 else None)
        # query scopes default to the enclosing block's trusted origins
        fs = [c for c in find_all(loop, lambda z: z.get("k") == "call" and z.get("f", {}).get("k") == "path" and (z["f"]["res"].get("path") or "").endswith("TrustedOrigins::from_scopes"))]
        is_fs = lambda z: isinstance(z, dict) and z.get("k") == "call" and (z.get("f", {}).get("res", {}).get("path") or "").endswith("TrustedOrigins::from_scopes")
        # query-level calls: their scopes come from a datalog::Rule; block-level trust: any variable initialised by from_scopes(..)
        q = [c for c in fs if find_all(c["args"][0], lambda z: z.get("k") == "field" and z.get("name") == "scopes" and re.search(r"datalog::Rule$", z.get("ety") or ""))]
        bt_ids = hirq.let_ids(h["body"], lambda z: is_fs(strip(z)))
        ok = bool(q) and all(hirq.is_lid(strip(c["args"][1]), bt_ids) for c in q)
        ctx.check(ok, "SCOPECHAIN", f"check loop #{n}: a query without scope inherits its block's trusted origins", f"SCOPECHAIN|loop{n}", f"query-level from_scopes defaults: {[estr(c['args'][1]) for c in q]}", where)
        # success / failure bookkeeping
        pushes = [c for c in mcalls(loop, r"Vec::<T, A>::push$") if find_all(c, lambda z: (hirq.ctor_name(z) or "").startswith("biscuit_auth::error::FailedCheck::"))]
        guard_ok = False
        for i in find_all(loop, lambda z: z.get("k") == "if"):
            c = strip(i["cond"])
            if c.get("k") == "unary" and c.get("op") == "Not" and is_local(strip(c["a"])) and any(find_all(i["then"], lambda z: z is p) for p in pushes):
                flag = {strip(c["a"])["res"]["id"]}
                res_ids = hirq.let_ids(loop, lambda z: bool(find_all(z, lambda y: y is m)))     # `let res = match check.kind {..}`
                sets = [a for a in find_all(loop, lambda z: z.get("k") == "assign" and hirq.is_lid(strip(z["lhs"]), flag) and hirq.literal(z["rhs"]) is True)]
                brk = [i2 for i2 in find_all(loop, lambda z: z.get("k") == "if") if hirq.is_lid(strip(i2["cond"]), res_ids) and find_all(i2["then"], lambda z: z.get("k") == "break") and any(find_all(i2["then"], lambda z: z is s) for s in sets)]
                guard_ok = bool(sets) and bool(brk)
        if not guard_ok and len(pushes) == 1:
            # the same bookkeeping without a flag: `'checks: for check { for query { if res { continue 'checks; } } errors.push(..) }` -
            # the push is an unconditional statement of the check loop's body, after the query loop, and a matching query leaves
            # through a labelled `continue`
            res_ids = hirq.let_ids(loop, lambda z: bool(find_all(z, lambda y: y is m)))
            inner = [l2 for l2 in find_all(loop, lambda z: z.get("k") == "loop" and z is not loop) if find_all(l2, lambda y: y is m)]
            cont = [i2 for l2 in inner for i2 in find_all(l2, lambda z: z.get("k") == "if") if hirq.is_lid(strip(i2["cond"]), res_ids) and find_all(i2["then"], lambda z: z.get("k") == "continue" and z.get("label"))]
            conditional = [x for x in find_all(loop, lambda z: z.get("k") in ("if",) or (z.get("k") == "match" and z.get("src") == "Normal")) if find_all(x, lambda z: z is pushes[0]) and not find_all(x, lambda z: z.get("k") == "loop" and find_all(z, lambda y: y is pushes[0]))]
            innermost = [l2 for l2 in inner if not any(l3 is not l2 and find_all(l2, lambda z: z is l3) for l3 in inner)]
            in_inner = any(find_all(l2, lambda z: z is pushes[0]) for l2 in innermost)
            cont = [i2 for i2 in cont if any(find_all(l2, lambda z: z is i2) for l2 in innermost)]
            guard_ok = bool(cont) and not conditional and not in_inner and bool(inner)
        ctx.check(len(pushes) == 1 and guard_ok, "FAILEDCHECK", f"check loop #{n}: a check fails iff none of its queries succeeded", f"FAILEDCHECK|loop{n}", "expected `if res { successful = true; break }` per query and `if !successful { errors.push(FailedCheck..) }` per check", where)
    want_ids = ["usize::MAX", "0", None]
    got3 = expected_ids[:3]
    fl0 = [x for x in find_all(h["body"], lambda z: z.get("k") == "index" and strip(z["idx"]).get("k") == "struct" and hirq.res_path(strip(z["idx"])["res"]).endswith("RangeFrom"))]
    starts0 = [hirq.literal(strip(x["idx"])["fields"][0]["e"]) for x in fl0]
    skip1 = [c for c in find_all(h["body"], lambda z: z.get("k") == "mcall" and z.get("name") == "skip" and hirq.literal(z["args"][0]) == 1 and find_all(z["recv"], lambda y: y.get("k") == "mcall" and y.get("name") == "enumerate"))]
    third_ok = got3[2:] and got3[2] is not None and ((re.match(r"^\((\w+) Add 1\)$", got3[2]) is not None and starts0 == [1] and not skip1) or (re.match(r"^\w+$", got3[2]) is not None and len(skip1) == 1 and not starts0))
    ok_ids = len(got3) == 3 and got3[0] in ("usize::MAX", "MAX") and got3[1] == "0" and bool(third_ok)
    ctx.check(ok_ids, "BLOCKID", "authorizer checks run as usize::MAX, authority checks as 0, block i checks as i + 1", "BLOCKID|values", f"block ids used by the three loops: {got3}", f"{b['file']}:{b['line']}")
    # the block loop enumerates blocks[1..]
    if len(loops) >= 3:
        l3 = loops[2][0]
        hdr = estr(l3.get("body", {}).get("stmts", [{}])[0]) if False else None
    ctx.check(starts0 == [1] or len(skip1) == 1, "BLOCKID", "the block loop skips the authority block (blocks[1..] with i + 1, or enumerate().skip(1) with i)", "BLOCKID|slice", f"range starts found: {starts0}, skip(1) after enumerate: {len(skip1)}", f"{b['file']}:{b['line']}")


def decision_rules(fb, ctx):
    b = fb.body(A + "::authorize_inner")
    h = fb.hir_of(b)
    t = strip(hirq.tail(h["body"]))
    where = f"{b['file']}:{t.get('ln', b['line']) if isinstance(t, dict) else b['line']}"
    # for the evaluation keep the statements of the final expression (an inlined helper is a block with `let`s): only strip blocks
    # that have no statement
    t_eval = h["body"].get("expr") if isinstance(h["body"], dict) and h["body"].get("k") == "block" else t
    while isinstance(t_eval, dict) and t_eval.get("k") == "block" and not t_eval.get("stmts") and t_eval.get("expr") is not None:
        t_eval = t_eval["expr"]
    if t_eval is not None and decision_by_evaluation(ctx, h, t_eval, where):
        policy_loop_rules(fb, ctx, b, h, where)
        return
    # the decision may be spread over the statements that follow the policy loop (`let policy = match matched { Some(Allow(i)) if
    # errors.is_empty() => return Ok(i), Some(p) => p, None => return Err(..) }; Err(Unauthorized { policy, .. })`): evaluate them
    if isinstance(h["body"], dict) and h["body"].get("k") == "block":
        sts = h["body"].get("stmts") or []
        idx = [i for i, s_ in enumerate(sts) if find_all(s_, lambda n: n.get("k") == "loop" or (n.get("k") == "match" and n.get("src") == "ForLoopDesugar"))]      # after the last loop
        if idx and idx[-1] + 1 < len(sts):
            suffix = {"k": "block", "stmts": sts[idx[-1] + 1:], "expr": h["body"].get("expr"), "ln": sts[idx[-1] + 1].get("ln")}
            if decision_by_evaluation(ctx, h, suffix, where):
                policy_loop_rules(fb, ctx, b, h, where)
                return
    if not (isinstance(t, dict) and t.get("k") == "match" and strip(t["scrut"]).get("k") == "tup"):
        ctx.fail("DECISION", "final decision table", "DECISION|shape", "authorize_inner does not end in `match (policy_result, errors.is_empty())`", where)
        return
    sc = strip(t["scrut"])["es"]
    ctx.check(is_local(strip(sc[0])) and bool(mcalls(sc[1], r"Vec::<T, A>::is_empty$")), "DECISION", "decision on (first matching policy, no failed check)", "DECISION|scrutinee", f"scrutinee is ({estr(sc[0])}, {estr(sc[1])})", where)

    def nest(p):
        p = p if p.get("k") != "ref" else p["pat"]
        k = p.get("k")
        if k in ("wild", "bind"):
            return "_"
        if k == "tstruct":
            name = hirq.res_path(p["res"]).split("::")[-1]
            inner = nest(p["pats"][0]) if p["pats"] else ""
            return name + ("/" + inner if inner and inner != "_" else "")
        if k == "path":
            return hirq.res_path(p["res"]).split("::")[-1]
        if k == "lit":
            return str(p.get("v"))
        return "?"

    cells = {}
    for pr in ("None", "Some/Ok", "Some/Err"):
        for em in ("True", "False"):
            for arm in t["arms"]:
                ps = arm["pat"]["pats"] if arm["pat"].get("k") == "tuple" else None
                if ps is None:
                    continue
                a, e = nest(ps[0]), nest(ps[1])
                if (a == "_" or a == pr or (a == "Some" and pr.startswith("Some"))) and (e == "_" or e == em):
                    names = [hirq.ctor_name(z).split("::")[-1] for z in find_all(arm["body"], lambda z: hirq.ctor_name(z) and re.search(r"(Logic|MatchedPolicy)::|::Ok$|::Err$", hirq.ctor_name(z)))]
                    cells[(pr, em)] = "+".join(sorted(set(names)))
                    break
    want = {("None", "True"): "Err+NoMatchingPolicy", ("None", "False"): "Err+NoMatchingPolicy", ("Some/Ok", "True"): "Ok", ("Some/Ok", "False"): "Allow+Err+Unauthorized", ("Some/Err", "True"): "Deny+Err+Unauthorized", ("Some/Err", "False"): "Deny+Err+Unauthorized"}
    for c, w in want.items():
        ctx.check(cells.get(c) == w, "DECISION", f"(policy={c[0]}, no failed checks={c[1]}) -> {w}", f"DECISION|{c[0]}|{c[1]}", f"decision table yields {cells.get(c)}, the semantics requires {w}", where)
    # failed checks are reported in full
    errs = [s for s in find_all(t, lambda z: z.get("k") == "struct" and re.search(r"Logic::(NoMatchingPolicy|Unauthorized)$", hirq.res_path(z["res"])))]
    ctx.check(len(errs) == 3 and all(any(f["name"] == "checks" and is_local(strip(f["e"])) for f in s["fields"]) for s in errs), "DECISION", "every refusal carries the list of failed checks", "DECISION|checks", "a refusal does not report `errors`", where)
    policy_loop_rules(fb, ctx, b, h, where)


def decision_by_evaluation(ctx, h, t, where):
    """EVAL: the final expression of authorize_inner, interpreted at the six points of (first matching policy in {None, Some(Ok(i)),
    Some(Err(i))}) x (list of failed checks empty or not), must give the specification's decision and carry the failed checks.
    Returns False (nothing reported) when the expression is outside what the interpreter understands."""
    import absint
    fl = absint.free_locals(t)
    if len(fl) != 2:
        return False
    # which free local is the list of failed checks: the one `is_empty()` is asked of
    errs_id = None
    for z in find_all(t, lambda z: z.get("k") == "mcall" and z.get("name") == "is_empty"):
        r = strip(z["recv"])
        if r.get("k") == "path" and (r.get("res") or {}).get("dk") == "Local" and r["res"]["id"] in fl:
            errs_id = r["res"]["id"]
    if errs_id is None:
        return False
    pol_id = [i for i in fl if i != errs_id][0]
    results = None
    # the matched policy is encoded as Option<Result<usize, usize>> (Ok = allow) today; a private enum with Allow / Deny variants is
    # the same information
    candidates = []
    for allow_c, deny_c in (("Ok", "Err"), ("Allow", "Deny")):
        results = {}
        try:
            for pname, pval in (("None", absint.C("None")), ("Some/Ok", absint.C("Some", absint.C(allow_c, absint.sym("i")))), ("Some/Err", absint.C("Some", absint.C(deny_c, absint.sym("i"))))):
                for empty in (True, False):
                    it = absint.Interp(hooks={"is_empty": lambda interp, recv, args, e_=empty: e_ if recv == absint.sym("errors") else NotImplemented})
                    results[(pname, str(empty))] = it.run(t, {pol_id: pval, errs_id: absint.sym("errors")})
            candidates.append(results)
        except absint.Unknown:
            pass
    if not candidates:
        return False
    def kind(v):
        if absint.tag(v) == "Ok":
            return "Ok" if v[2] and v[2][0] == absint.sym("i") else "Ok(?)"
        if absint.tag(v) == "Err":
            for nm in ("NoMatchingPolicy", "Unauthorized"):
                st = absint.find_ctor(v, nm)
                if st is not None:
                    pol = ""
                    if nm == "Unauthorized":
                        p_ = st[2].get("policy") if st[0] == "S" else None
                        pol = "+" + (absint.tag(p_) or "?") + ("(i)" if p_ and p_[2] and p_[2][0] == absint.sym("i") else "(?)")
                    carries = st[0] == "S" and st[2].get("checks") == absint.sym("errors")
                    return nm + pol + ("" if carries else " WITHOUT the failed checks")
        return absint.show(v)
    want = {("None", "True"): "NoMatchingPolicy", ("None", "False"): "NoMatchingPolicy", ("Some/Ok", "True"): "Ok", ("Some/Ok", "False"): "Unauthorized+Allow(i)", ("Some/Err", "True"): "Unauthorized+Deny(i)", ("Some/Err", "False"): "Unauthorized+Deny(i)"}
    # the encoding the code uses is the one under which most cells come out right (the variable's type is not in the HIR facts)
    results = max(candidates, key=lambda r_: sum(1 for c_, w_ in want.items() if kind(r_[c_]) == w_))
    for c, w in want.items():
        got = kind(results[c])
        ctx.check(got == w, "DECISION", f"(policy={c[0]}, no failed checks={c[1]}) -> {w}", f"DECISION|{c[0]}|{c[1]}", f"the final expression of authorize_inner evaluates to {got}, the semantics requires {w}", where)
    ctx.ok("DECISION", "decision on (first matching policy, no failed check)", where, "abstract evaluation of the final expression over its 6-point domain")
    ctx.ok("DECISION", "every refusal carries the list of failed checks", where, "checked in each refusing cell")
    return True


def policy_loop_rules(fb, ctx, b, h, where):
    # policies: declaration order, first match wins
    # `for (i, policy) in self.policies.iter().enumerate()` desugars to match <iterator expr> { mut iter => loop {..} }
    fd = [m for m in find_all(h["body"], lambda n: n.get("k") == "match" and n.get("src") == "ForLoopDesugar") if find_all(m["scrut"], lambda z: z.get("k") == "field" and z.get("name") == "policies")]
    if len(fd) != 1:
        ctx.fail("POLICY", "policy loop", "POLICY|shape", "policy loop over self.policies not found", where)
        return
    pl = fd[0]
    km = [m for m in hirq.matches_in(pl) if "PolicyKind" in (m.get("sty") or "")][0]
    tab = {}
    for arm in km["arms"]:
        for v in hirq.pat_variants(arm["pat"]):
            asg = [a for a in find_all(arm["body"], lambda z: z.get("k") == "assign")]
            val = estr(asg[0]["rhs"]) if asg else "?"
            tab[(v or "").split("::")[-1]] = re.sub(r"\w+::", "", val)
    idx = None
    kind_ok = re.fullmatch(r"Some\(Ok\((\w+)\)\)", tab.get("Allow", "")) is not None and re.fullmatch(r"Some\(Err\((\w+)\)\)", tab.get("Deny", "")) is not None
    if not kind_ok:
        # other shapes (`policy_result = Some(match policy.kind { Allow => Ok(i), Deny => Err(i) })`): evaluate the smallest statement
        # around the match on the policy kind for both kinds and read what is assigned
        import absint
        holder = [z for z in find_all(pl, lambda z: z.get("k") in ("assign", "semi", "match") and find_all(z, lambda y: y is km) and find_all(z, lambda y: y.get("k") == "assign"))]
        holder.sort(key=lambda z: len(str(z)))
        if holder:
            st_ = holder[0]
            got_ = {}
            try:
                for kind_ in ("Allow", "Deny"):
                    it = absint.Interp()
                    env_ = {i_: absint.sym(nm_ or "v") for i_, nm_ in absint.free_locals(st_).items()}
                    it.fields = {(v_[1], "kind"): absint.C(kind_) for v_ in env_.values()}
                    it.run(st_ if st_.get("k") != "semi" else st_["e"], env_)
                    got_[kind_] = [absint.show(v_) for v_ in it.assigned.values()]
                idxs = [nm_ for nm_ in absint.free_locals(st_).values()]
                kind_ok = any((got_["Allow"] == [f"Some(Ok(<{n_}>))"] and got_["Deny"] == [f"Some(Err(<{n_}>))"]) or (got_["Allow"] == [f"Some(Allow(<{n_}>))"] and got_["Deny"] == [f"Some(Deny(<{n_}>))"]) for n_ in idxs)
                tab = got_
            except absint.Unknown:
                pass
    ctx.check(kind_ok, "POLICY", "matching allow -> Some(Ok(i)), matching deny -> Some(Err(i))", "POLICY|kind", f"found {tab}", f"{b['file']}:{km['ln']}")
    brk = [x for x in find_all(pl, lambda z: z.get("k") == "break" and z.get("label"))]
    conts = [x for x in find_all(pl, lambda z: z.get("k") == "continue")]
    guard = [i for i in find_all(pl, lambda z: z.get("k") == "if") if is_local(strip(i["cond"])) and find_all(i["then"], lambda z: z is km) and any(find_all(i["then"], lambda z: z is bx) for bx in brk)]
    ctx.check(len(brk) == 1 and len(guard) == 1 and not conts, "POLICY", "the first matching policy ends the search", "POLICY|first", "expected `if res { policy_result = ..; break 'policies }` leaving the outer policy loop", f"{b['file']}:{km['ln']}")
    en = mcalls(pl, r"Iterator::enumerate$|::enumerate$")
    rv = [c for c in hirq.callee_paths(pl) if re.search(r"::(rev|sort\w*|skip|step_by)$", c)]
    ctx.check(bool(en) and not rv, "POLICY", "policies are tried in declaration order and reported by their index", "POLICY|order", f"reordering/skip adaptors on the policy iterator: {rv}", f"{b['file']}:{pl['ln']}")
    pq = mcalls(pl, r"World::query_match$")
    ctx.check(len(pq) == 1 and estr(pq[0]["args"][1]) in ("usize::MAX", "MAX"), "BLOCKID", "policies are evaluated as the authorizer (usize::MAX)", "BLOCKID|policies", f"policy query origin is {estr(pq[0]['args'][1]) if pq else None}", f"{b['file']}:{pl['ln']}")


def scope_arg_rules(fb, ctx):
    """SCOPEARG: every evaluation of a query (World::query_match / query_match_all / query_rule) in the authorizer receives, as its
    trusted-origins argument, the variable that was computed from *that query's own scopes* by TrustedOrigins::from_scopes - not the
    enclosing block's trust, not another query's. (The argument is second to last in all three signatures.)"""
    is_fs = lambda z: isinstance(z, dict) and z.get("k") == "call" and (z.get("f", {}).get("res", {}).get("path") or "").endswith("TrustedOrigins::from_scopes")
    from_rule_scopes = lambda init: any(find_all(c["args"][0], lambda z: z.get("k") == "field" and z.get("name") == "scopes" and re.search(r"datalog::Rule$", z.get("ety") or "")) for c in find_all(init, is_fs))
    total = 0
    for fn in ("authorize_inner", "query_inner", "query_all_inner"):
        b = fb.body(f"{A}::{fn}")
        h = fb.hir_of(b)
        lets = [l for l in find_all(h["body"], lambda z: z.get("k") == "let" and isinstance(z.get("pat"), dict) and z["pat"].get("k") == "bind" and z.get("init") is not None and from_rule_scopes(z["init"]))]
        calls = mcalls(h["body"], r"datalog::World::query_(match|match_all|rule)$")
        for n, c in enumerate(calls):
            total += 1
            arg = strip(c["args"][-2]) if len(c["args"]) >= 2 else None
            # the innermost enclosing definition: the last such `let` that textually precedes the call
            cands = [l for l in lets if l["ln"] <= c["ln"]]
            own = {cands[-1]["pat"]["id"]} if cands else set()
            ctx.check(hirq.is_lid(arg, own), "SCOPEARG", f"{fn}: evaluation #{n} ({(c.get('def') or {}).get('path', '').split('::')[-1]}) uses the trust computed from its own query's scopes", f"SCOPEARG|{fn}|{n}", f"the trusted-origins argument is `{estr(arg)}`, not the variable initialised by from_scopes(<this query>.scopes, ..): the query's `trusting` annotation is ignored or another scope is applied", f"{b['file']}:{c['ln']}")
    ctx.floor("query evaluations in the authorizer", total, 11)


def used_rules(fb, ctx):
    b = fb.body(A + "::authorize_inner")
    cs = mirq.calls_matching(fb, b, r"datalog::World::query_match(_all)?$")
    ctx.floor("query_match* call sites in authorize_inner", len(cs), 10)
    for n, c in enumerate(cs):
        mirq.result_used(fb, ctx, b, c, "USED", f"authorize_inner: result of {c.callee.split('::')[-1]} #{n} is propagated", f"USED|authorize_inner|{n}")


def query_scope_rules(fb, ctx):
    qi = fb.body(A + "::query_inner")
    qh = fb.hir_of(qi)
    fs = [c for c in find_all(qh["body"], lambda z: z.get("k") == "call" and z.get("f", {}).get("k") == "path" and (z["f"]["res"].get("path") or "").endswith("TrustedOrigins::from_scopes"))]
    ok = len(fs) == 1 and "scopes" in estr(fs[0]["args"][0]) and "TrustedOrigins::default" in estr(fs[0]["args"][1]) and estr(fs[0]["args"][2]) in ("usize::MAX", "MAX")
    ctx.check(ok, "QUERYSCOPE", "query(): rule scopes, default trust, evaluated as the authorizer", "QUERYSCOPE|query_inner", f"from_scopes({', '.join(estr(a) for a in fs[0]['args'][:3]) if fs else ''})", f"{qi['file']}:{qi['line']}")
    qa = fb.body(A + "::query_all_inner")
    ah = fb.hir_of(qa)
    ifs = [i for i in find_all(ah["body"], lambda z: z.get("k") == "if") if mcalls(i["cond"], r"::is_empty$") and "scopes" in estr(i["cond"])]
    ok = len(ifs) == 1 and "token_origins" in estr(hirq.tail(ifs[0]["then"])) and bool(find_all(ifs[0]["else"], lambda z: z.get("k") == "call" and (z.get("f", {}).get("res", {}).get("path") or "").endswith("TrustedOrigins::from_scopes")))
    ctx.check(ok, "QUERYSCOPE", "query_all(): no scope -> every block of the token, else the rule's scopes", "QUERYSCOPE|query_all_inner", "`if rule.scopes.is_empty() { self.token_origins.clone() } else { from_scopes(..) }` not found", f"{qa['file']}:{qa['line']}")
    bi = fb.body("biscuit_auth::token::builder::authorizer::AuthorizerBuilder::build_inner")
    bh = fb.hir_of(bi)
    # the local that ends up in Authorizer{ token_origins, .. } (field-init shorthand or explicit)
    to_ids = {strip(f["e"])["res"]["id"] for st in find_all(bh["body"], lambda z: z.get("k") == "struct" and hirq.res_path(z["res"]).endswith("authorizer::Authorizer")) for f in st["fields"] if f["name"] == "token_origins" and is_local(strip(f["e"]))}
    asg = [a for a in find_all(bh["body"], lambda z: z.get("k") == "assign" and hirq.is_lid(strip(z["lhs"]), to_ids))]
    ok = len(asg) == 1 and "Scope::Previous" in estr(asg[0]["rhs"]).replace("token::", "") and "block_count" in estr(asg[0]["rhs"])
    if not ok and not asg:
        # not assigned to a mutable variable but produced as a value (`let (blocks, token_origins) = if let Some(token) = .. { ..;
        # (Some(blocks), from_scopes(&[Previous], .., token.block_count(), ..)) } else { (None, default) }`): the one from_scopes call of
        # build_inner has these arguments, and the stored field depends on it
        fsc = [c for c in find_all(bh["body"], lambda z: z.get("k") == "call" and z.get("f", {}).get("k") == "path" and (z["f"]["res"].get("path") or "").endswith("TrustedOrigins::from_scopes"))]
        stored = [s_ for _, s_ in mirq.aggregates(bi, r"authorizer::Authorizer$")]
        lv = mirq.operand_leaves(fb, bi, mirq.agg_field(stored[0], "token_origins")) if stored else set()
        fsc = [c for c in fsc if len(c.get("args", [])) >= 3 and "Scope::Previous" in estr(c["args"][0]).replace("token::", "") and "block_count" in estr(c["args"][2])]
        ok = len(fsc) == 1 and any("from_scopes" in l for l in lv) and any("block_count" in l for l in lv)
    ctx.check(ok, "QUERYSCOPE", "token_origins = `previous` evaluated at block_count", "QUERYSCOPE|token_origins", f"token_origins = {estr(asg[0]['rhs']) if asg else None}", f"{bi['file']}:{bi['line']}")


# ------------------------------------------------------------------------------------------------ trust (C03)
def added_items(node):
    """elements a statement adds to a set: `x.insert(a)` -> [a]; `x.extend([a, b])` / `X::from_iter([a, b])` -> [a, b]; `x.extend(r)`
    -> [r] (ranges normalised: `0..n + 1` and `0..=n` both read `0..=n`)"""
    out = []
    def norm(e):
        t = re.sub(r"\s", "", estr(e))
        m = re.fullmatch(r"Range\{start:(\w+),end:\((\w+)Add1\)\}", t)
        if m:
            return f"{m.group(1)}..={m.group(2)}"
        m = re.fullmatch(r"(?:ops::)?RangeInclusive::<Idx>::new\((\w+),(\w+)\)", t)
        if m:
            return f"{m.group(1)}..={m.group(2)}"
        return estr(e)
    for c in find_all(node, lambda z: z.get("k") == "mcall" and z.get("name") in ("insert", "extend")):
        a = strip(c["args"][0]) if c.get("args") else None
        if isinstance(a, dict) and a.get("k") == "array":
            out += [norm(x) for x in a["es"]]
        elif a is not None:
            out.append(norm(a))
    for c in find_all(node, lambda z: z.get("k") == "call" and (z.get("f", {}).get("res", {}).get("path") or "").endswith("::from_iter") and z.get("args")):
        a = strip(c["args"][0])
        if isinstance(a, dict) and a.get("k") == "array":
            out += [norm(x) for x in a["es"]]
    # `[a, b].iter().collect()` / `[a, b].into_iter().collect()`: a literal collected into the set
    for c in find_all(node, lambda z: z.get("k") == "mcall" and z.get("name") == "collect"):
        r = strip(c.get("recv"))
        while isinstance(r, dict) and r.get("k") == "mcall" and r.get("name") in ("iter", "into_iter", "copied", "cloned"):
            r = strip(r.get("recv"))
        if isinstance(r, dict) and r.get("k") == "array":
            out += [norm(x) for x in r["es"]]
    return out


def _empty_scope_fallthrough(fh, i, p_scopes, p_default, p_cur):
    """`let mut acc = if scopes.is_empty() { default.0.clone() } else { Origin::default() };` followed by the unconditional
    inserts of the own block and the authorizer and by the loop over the scopes (zero iterations when there is no scope): the
    empty case yields default + {current_block, usize::MAX} and nothing else iff every other addition sits in that loop."""
    def peel(e):
        e = strip(e)
        while isinstance(e, dict) and e.get("k") == "field":
            e = strip(e["e"])
        return e
    th, el = i["then"], i.get("else")
    if el is None or added_items(th) or added_items(el):
        return False
    if not find_all(th, lambda z: z.get("k") == "mcall" and z.get("name") == "clone" and is_local(peel(z["recv"]), p_default)):
        return False
    if not (hirq.calls(el, r"Origin as std::default::Default>::default$|Origin::default$|Origin::new$")):
        return False
    stmts = list(fh["body"].get("stmts") or [])
    at = [n for n, s_ in enumerate(stmts) if s_.get("k") == "let" and s_.get("init") is not None and find_all(s_["init"], lambda z: z.get("k") == "if" and z.get("cond") is i.get("cond"))]
    if len(at) != 1 or find_all({"k": "blk", "stmts": stmts[:at[0]]}, lambda z: z.get("k") == "ret"):
        return False
    plain = []
    for s_ in stmts[at[0] + 1:]:
        adds = added_items(s_)
        if not adds:
            continue
        if not find_all(s_, lambda z: z.get("k") in ("loop", "if", "match", "closure")):
            plain += adds
            continue
        loops = [m for m in find_all(s_, lambda z: z.get("k") == "match" and z.get("src") == "ForLoopDesugar")]
        over_scopes = [m for m in loops if find_all(m.get("e") or m.get("scrut") or {}, lambda z: is_local(z, p_scopes))]
        if not over_scopes or any(a for a in adds if a not in added_items(over_scopes[0])):
            return False
    return sorted(plain) in ([p_cur, "usize::MAX"], ["MAX", p_cur])


def trust_rules(fb, ctx):
    # default trust = {authorizer, authority}
    db = fb.body(O + "::TrustedOrigins::default")
    dh = fb.hir_of(db)
    ins = sorted(estr(c["args"][0]) for c in mcalls(dh["body"], r"origin::Origin::insert$")) or sorted(added_items(dh["body"]))
    ctx.check(ins in (["0", "usize::MAX"], ["0", "MAX"]), "TRUST", "default trust = {authority (0), authorizer (usize::MAX)}", "TRUST|default", f"TrustedOrigins::default inserts {ins}", f"{db['file']}:{db['line']}")
    fb_ = fb.body(O + "::TrustedOrigins::from_scopes")
    fh = fb.hir_of(fb_)
    where = f"{fb_['file']}:{fb_['line']}"
    params = [p.get("name") for p in fh["params"]]
    p_scopes, p_default, p_cur, p_map = params[0], params[1], params[2], params[3]
    # empty-scope branch
    def _empty_test(i):
        """(if node seen as `if scopes.is_empty() {A} else {B}`) - `if !scopes.is_empty() {B} else {A}` is the same test with the branches swapped"""
        c = strip(i["cond"])
        neg = False
        if isinstance(c, dict) and c.get("k") == "unary" and c.get("op") == "Not":
            c, neg = strip(c["a"]), True
        if not (isinstance(c, dict) and c.get("k") == "mcall" and c.get("name") == "is_empty" and is_local(strip(c.get("recv")), p_scopes)):
            return None
        if neg:
            if i.get("else") is None:
                return None
            return {**i, "then": i["else"], "else": i["then"]}
        return i
    ifs = [t for t in (_empty_test(i) for i in find_all(fh["body"], lambda z: z.get("k") == "if") if mcalls(i["cond"], r"::is_empty$")) if t is not None]
    ok = False
    if len(ifs) == 1:
        th = ifs[0]["then"]
        inserted = sorted(added_items(th))
        starts = bool(find_all(th, lambda z: z.get("k") == "mcall" and z.get("name") == "clone" and is_local(strip(z["recv"]), p_default)))
        ok = starts and inserted in ([p_cur, "usize::MAX"], ["MAX", p_cur]) and bool(find_all(th, lambda z: z.get("k") == "ret"))
    if not ok and len(ifs) == 1 and not find_all(ifs[0]["then"], lambda z: z.get("k") == "ret"):
        ok = _empty_scope_fallthrough(fh, ifs[0], p_scopes, p_default, p_cur)
    ctx.check(ok, "TRUST", "no scope: inherited default + own block + authorizer, nothing else", "TRUST|empty", "the empty-scope branch of from_scopes must return default_origins + {current_block, usize::MAX}", where)
    # explicit scopes
    sm = [m for m in hirq.matches_in(fh["body"]) if "Scope" in (m.get("sty") or "")]
    tab = {}
    for m in sm[:1]:
        for arm in m["arms"]:
            for v in hirq.pat_variants(arm["pat"]):
                adds = added_items(arm["body"])
                guards = [estr(i["cond"]) for i in find_all(arm["body"], lambda z: z.get("k") == "if")]
                if arm.get("guard") is not None and adds:
                    guards.append(estr(arm["guard"]))        # `Scope::Previous if current != MAX => ..` is the same guard
                name_ = (v or "").split("::")[-1]
                prev_ = tab.get(name_, ([], []))
                tab[name_] = (prev_[0] + adds, prev_[1] + guards)   # several arms for one variant (guarded + fallthrough) add up
    okA = tab.get("Authority") == (["0"], [])
    prev = tab.get("Previous", ([], []))
    okP = len(prev[0]) == 1 and prev[0][0] == f"0..={p_cur}" and len(prev[1]) == 1 and re.search(rf"\({p_cur} Ne (usize::)?MAX\)", prev[1][0]) is not None
    pk = tab.get("PublicKey", ([], []))
    okK = len(pk[0]) == 1 and ("iter" in pk[0][0] or "as_slice" in pk[0][0] or "flatten" in pk[0][0]) and p_map in " ".join(pk[1] + [estr(z) for z in find_all(sm[0] if sm else {}, lambda z: z.get("k") == "mcall" and z.get("name") == "get")]) and bool(find_all(sm[0] if sm else {}, lambda z: z.get("k") == "mcall" and z.get("name") == "get" and is_local(strip(z["recv"]), p_map)))
    ctx.check(okA and okP and okK and set(tab) == {"Authority", "Previous", "PublicKey"}, "TRUST", "`authority` -> {0}; `previous` -> 0..=current (never for the authorizer); key -> blocks signed by that key", "TRUST|scopes", f"found {tab}", where)
    acc_ids = hirq.let_ids(fh["body"], lambda z: hirq.calls_path(strip(z), r"Origin as std::default::Default>::default$|Origin::default$|Origin::new$"))   # the accumulator, whatever it is called
    base = [estr(c["args"][0]) for c in find_all(fh["body"], lambda z: z.get("k") == "mcall" and z.get("name") == "insert" and hirq.is_lid(strip(z["recv"]), acc_ids))]
    for st_ in (fh["body"].get("stmts") or []):      # `let mut origins = Origin::from_iter([usize::MAX, current_block]);` / `origins.extend([..])` at top level
        if st_.get("k") in ("let", "semi") and not find_all(st_, lambda z: z.get("k") in ("loop", "if", "match") and z.get("src") != "TryDesugar"):
            base += [x for x in added_items(st_) if x not in base]
    ctx.check(sorted(base)[:3].count(p_cur) >= 1 and any(x in ("usize::MAX", "MAX") for x in base), "TRUST", "explicit scopes always include own block and authorizer", "TRUST|explicit-base", f"unconditional inserts: {base}", where)
    # contains = superset test in the right direction
    cb = fb.body(O + "::TrustedOrigins::contains")
    ch = fb.hir_of(cb)
    c = strip(hirq.tail(ch["body"]))
    cparams = [p.get("name") for p in ch["params"]]
    ok = isinstance(c, dict) and c.get("k") == "mcall" and (c.get("def") or {}).get("path", "").endswith("Origin::is_superset") and strip(c["recv"]).get("k") == "field" and is_local(strip(strip(c["recv"])["e"]), cparams[0]) and is_local(strip(c["args"][0]), cparams[1])
    ctx.check(ok, "VISIBLE", "a fact is visible iff trusted origins ⊇ fact origin", "VISIBLE|contains", f"TrustedOrigins::contains is `{estr(c)}`", f"{cb['file']}:{cb['line']}")
    sb = fb.body(O + "::Origin::is_superset")
    sh = fb.hir_of(sb)
    c2 = strip(hirq.tail(sh["body"]))
    sparams = [p.get("name") for p in sh["params"]]
    ok2 = isinstance(c2, dict) and c2.get("k") == "mcall" and c2.get("name") == "is_superset" and is_local(strip(strip(c2["recv"])["e"]), sparams[0]) and sparams[1] in estr(c2["args"][0])
    if not ok2 and isinstance(c2, dict) and c2.get("k") == "mcall" and c2.get("name") == "is_subset":
        # `other.inner.is_subset(&self.inner)` is the same relation with the roles written the other way round
        ok2 = strip(c2["recv"]).get("k") == "field" and is_local(strip(strip(c2["recv"])["e"]), sparams[1]) and sparams[0] in estr(c2["args"][0])
    ctx.check(ok2, "VISIBLE", "Origin::is_superset keeps receiver/argument roles", "VISIBLE|is_superset", f"Origin::is_superset is `{estr(c2)}`", f"{sb['file']}:{sb['line']}")
    # the only way evaluation reads facts is the scope-filtered iterator
    ib = fb.body(D + "::FactSet::iterator")
    ih = fb.hir_of(ib)
    iparams = [p.get("name") for p in ih["params"]]
    flt = [i for i in find_all(ih["body"], lambda z: z.get("k") == "if") if mcalls(i["cond"], r"TrustedOrigins::contains$")]
    ok3 = len(flt) == 1 and is_local(strip(strip(flt[0]["cond"])["recv"]), iparams[1]) and (hirq.ctor_name(strip(hirq.tail(flt[0]["then"]))) or "").endswith("Some") and (strip(hirq.tail(flt[0]["else"])).get("res", {}).get("path") or "").endswith("None")
    if not ok3 and not flt:
        # equivalent form: `.filter(|(ids, _)| block_ids.contains(ids))` - the trust test is the whole predicate of a filter adaptor
        fl = [m_ for m_ in find_all(ih["body"], lambda z: z.get("k") == "mcall" and z.get("name") == "filter" and z.get("args"))]
        preds = []
        for m_ in fl:
            cl = strip(m_["args"][0])
            if isinstance(cl, dict) and cl.get("k") == "closure":
                t_ = strip(hirq.tail(cl["body"]))
                if hirq.calls_path(t_, r"TrustedOrigins::contains$") and is_local(strip(t_["recv"]), iparams[1]):
                    preds.append(m_)
        ok3 = len(preds) == 1 and len(mcalls(ih["body"], r"TrustedOrigins::contains$")) == 1
    ctx.check(ok3, "VISIBLE", "FactSet::iterator keeps exactly the origins the scope contains", "VISIBLE|iterator", "`if block_ids.contains(ids) { Some(..) } else { None }` not found", f"{ib['file']}:{ib['line']}")
    evals = [D + "::World::run_with_limits", D + "::World::query_rule", D + "::Rule::find_match", D + "::Rule::check_match_all", D + "::Rule::apply", "<datalog::CombineIt<'a, IT> as std::iter::Iterator>::next"]
    for fn in evals:
        e = fb.body(fn)
        eh = fb.hir_of(e)
        unfiltered = mcalls(eh["body"], r"datalog::FactSet::iter_all$") + [f for f in find_all(eh["body"], lambda z: z.get("k") == "field" and z.get("name") == "inner" and "FactSet" in (z.get("ety") or ""))]
        ctx.check(not unfiltered, "VISIBLE", f"{fn.split('::')[-1] if '::' in fn else fn}: facts are only read through the scope-filtered iterator", f"VISIBLE|{fn}", "evaluation reads the fact store without the trust filter (iter_all / .inner)", f"{e['file']}:{e['line']}")


def loading_rules(fb, ctx):
    from props import tablesym
    tablesym.rule_translate_rules(fb, ctx)
    lb = fb.body("biscuit_auth::token::builder::authorizer::load_and_translate_block")
    lh = fb.hir_of(lb)
    where = f"{lb['file']}:{lb['line']}"
    params = [p.get("name") for p in lh["params"]]
    p_i = params[1]
    oi = [c for c in mcalls(lh["body"], r"origin::Origin::insert$")]
    ok = len(oi) == 1 and is_local(strip(oi[0]["args"][0]), p_i)
    bo = strip(oi[0]["recv"])["res"]["name"] if ok else None
    fi = [c for c in mcalls(lh["body"], r"datalog::FactSet::insert$")]
    ok = ok and len(fi) == 1 and is_local(strip(fi[0]["args"][0]), bo)
    ctx.check(ok, "LOAD", "block i's facts are stored under origin {i}", "LOAD|facts", "facts of a loaded block are not inserted under Origin{i}", where)
    ri = mcalls(lh["body"], r"datalog::RuleSet::insert$")
    fs = [c for c in find_all(lh["body"], lambda z: z.get("k") == "call" and (z.get("f", {}).get("res", {}).get("path") or "").endswith("TrustedOrigins::from_scopes"))]
    ok2 = len(ri) == 1 and is_local(strip(ri[0]["args"][0]), p_i) and len(fs) == 2 and all(is_local(strip(c["args"][2]), p_i) for c in fs) and any(find_all(c["args"][0], lambda z: z.get("k") == "field" and z.get("name") == "scopes" and re.search(r"datalog::Rule$", z.get("ety") or "")) and hirq.is_lid(strip(c["args"][1]), hirq.let_ids(lh["body"], lambda z: strip(z).get("k") == "call" and (strip(z).get("f", {}).get("res", {}).get("path") or "").endswith("TrustedOrigins::from_scopes"))) for c in fs)
    ctx.check(ok2, "LOAD", "block i's rules run as block i with trust from_scopes(rule.scopes, block trust, i)", "LOAD|rules", f"RuleSet::insert({', '.join(estr(a) for a in ri[0]['args']) if ri else ''}); from_scopes ids {[estr(c['args'][2]) for c in fs]}", where)
    bi = fb.body("biscuit_auth::token::builder::authorizer::AuthorizerBuilder::build_inner")
    bh = fb.hir_of(bi)
    # blocks enumerated from token.blocks() (authority first) and passed their index
    calls = [c for c in find_all(bh["body"], lambda z: z.get("k") == "call" and (z.get("f", {}).get("res", {}).get("path") or "").endswith("load_and_translate_block"))]
    ok3 = len(calls) == 1 and is_local(strip(calls[0]["args"][1])) and bool(mcalls(bh["body"], r"token::Biscuit::blocks$")) and bool(mcalls(bh["body"], r"::enumerate$"))
    ctx.check(ok3, "LOAD", "blocks are loaded in token order with their enumeration index", "LOAD|index", "load_and_translate_block is not fed (block, i) from token.blocks().enumerate()", f"{bi['file']}:{bi['line']}")
    # key -> block ids: external signatures of container.blocks[i] map to block i + 1
    pk = [c for c in mcalls(bh["body"], r"Vec::<T, A>::push$") if "or_default" in estr(c["recv"])]
    ok4 = len(pk) == 1 and re.fullmatch(r"\((\w+) Add 1\)", estr(pk[0]["args"][0])) is not None and "container.blocks" in estr(bh["body"]) if False else (len(pk) == 1 and re.fullmatch(r"\((\w+) Add 1\)", estr(pk[0]["args"][0])) is not None)
    ctx.check(ok4, "LOAD", "a block signed by an external key is registered under that key as block i + 1", "LOAD|keymap", f"public_key_to_block_id push argument: {estr(pk[0]['args'][0]) if pk else None}", f"{bi['file']}:{bi['line']}")
