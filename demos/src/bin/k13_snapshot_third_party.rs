// C13: restoring an authorizer snapshot must succeed and give the same authorizer, also when the token has a
// third-party block with its own symbols / key scopes.
use biscuit_auth::{builder::*, *};
use std::time::Duration;
fn main() {
    let root = KeyPair::new();
    let ext = KeyPair::new();
    let other = KeyPair::new();
    let token = Biscuit::builder().fact("user(\"alice\")").unwrap().build(&root).unwrap();
    let req = token.third_party_request().unwrap();
    let tp = req.create_block(&ext.private(), BlockBuilder::new().fact("group(\"my-own-symbol\")").unwrap()
        .check(format!("check if user($u) trusting authority, {}", other.public()).as_str()).unwrap()).unwrap();
    let token = token.append_third_party(ext.public(), tp).unwrap();
    let lim = AuthorizerLimits { max_facts: 1000, max_iterations: 100, max_time: Duration::from_secs(10) };
    let mut a = AuthorizerBuilder::new().policy(format!("allow if group($g) trusting {}", ext.public()).as_str()).unwrap().limits(lim).build(&token).unwrap();
    let before = a.to_raw_snapshot().unwrap();
    let r1 = Authorizer::from_raw_snapshot(&before).map(|mut b| format!("{:?}", b.authorize().map_err(|e| e.to_string())));
    let orig = format!("{:?}", a.authorize().map_err(|e| e.to_string()));
    let after = a.to_raw_snapshot().unwrap();
    let r2 = Authorizer::from_raw_snapshot(&after).map(|mut b| format!("{:?}", b.authorize().map_err(|e| e.to_string())));
    println!("original authorize          : {}", orig);
    println!("restored (snapshot before)  : {:?}", r1.as_ref().map_err(|e| e.to_string()));
    println!("restored (snapshot after)   : {:?}", r2.as_ref().map_err(|e| e.to_string()));
    let ok = matches!((&r1, &r2), (Ok(x), Ok(y)) if *x == orig && *y == orig);
    if ok { println!("OK"); std::process::exit(1) } else { println!("DEFECT snapshot of an authorizer with a third-party block does not restore") }
}
