"""Run framework: obligations, violations, known findings, evidence files, exit codes."""
import json, os, sys, time, hashlib

VERIF = os.path.normpath(os.path.join(os.path.dirname(os.path.abspath(__file__)), ".."))
# a run against a scratch tree (VERIF_REPO, development only) must not overwrite the evidence describing /repo
EVIDENCE = os.path.join(VERIF, "evidence") if os.environ.get("VERIF_REPO", "/repo") == "/repo" else os.path.join(VERIF, "work", "evidence-scratch")
KNOWN = os.path.join(VERIF, "known_findings.json")


class Ctx:
    def __init__(self, pid, tier="quick", seed=0):
        self.pid, self.tier, self.seed = pid, tier, seed
        self.t0 = time.time()
        self.obligations = []  # dict(rule, instance, ok, where, detail)
        self.violations = []
        self.known_hits = []
        self.notes = []
        self.controls = []
        self.floors = []
        self.floor_failures = []
        self.assumptions = []
        self.trusted = []
        self.explanation = ""
        self.not_decided = []
        self.analysed = {}
        self.outcomes = {}     # key -> bool, for rule instances evaluated through check()/fail(): premises of other properties' allow entries
        with open(KNOWN) as fh:
            k = json.load(fh)
        self.known = {e["key"]: e for e in k.get("findings", []) if e["property"] == pid}
        self.fixed = [e for e in k.get("fixed", []) if e.startswith(f"fixed: property={pid} ")]

    # ------------------------------------------------------------------
    def ok(self, rule, instance, where=None, detail=None, nontrivial=True):
        self.obligations.append({"rule": rule, "instance": instance, "ok": True, "where": where, "detail": detail, "nontrivial": nontrivial})

    def fail(self, rule, instance, key, msg, where=None, detail=None):
        """A rule instance that does not hold. key identifies the failing construct without line numbers."""
        self.obligations.append({"rule": rule, "instance": instance, "ok": False, "where": where, "detail": msg, "nontrivial": True})
        v = {"property": self.pid, "rule": rule, "instance": instance, "key": key, "message": msg, "where": where, "detail": detail}
        self.outcomes[key] = False
        if key in self.known:
            self.known_hits.append((self.known[key], v))
        else:
            self.violations.append(v)

    def check(self, cond, rule, instance, key, msg, where=None, detail=None):
        if cond:
            self.ok(rule, instance, where, detail)
            self.outcomes.setdefault(key, True)
        else:
            self.fail(rule, instance, key, msg, where, detail)
        return cond

    def floor(self, what, got, expected_min):
        self.floors.append({"what": what, "got": got, "min": expected_min})
        if got < expected_min:
            # decided at the end of the run: when rule instances already report violations, those are the verdict (exit 1) and the
            # missing instances are listed with them; with no violation at all the check cannot vouch for the property (exit 2)
            self.floor_failures.append(f"floor not met: {what}: found {got}, confirmed by hand {expected_min} — a rule would pass vacuously")
        return got >= expected_min

    def control(self, name, fired):
        """Positive control: a rule that expects zero matches must fire on a fixture / synthetic instance."""
        self.controls.append({"control": name, "fired": bool(fired)})
        if not fired:
            from facts import CheckerError
            raise CheckerError(f"positive control did not fire: {name}")

    def note(self, s):
        self.notes.append(s)

    # ------------------------------------------------------------------
    def finish(self, fb=None):
        os.makedirs(os.path.join(EVIDENCE, "violations"), exist_ok=True)
        # clean old violation files of this property
        vd = os.path.join(EVIDENCE, "violations")
        for f in os.listdir(vd):
            if f.startswith(self.pid + "-"):
                os.remove(os.path.join(vd, f))
        lines = []
        reported_known = set()
        for (entry, v) in self.known_hits:
            if entry["key"] in reported_known:
                continue
            reported_known.add(entry["key"])
            lines.append(f"KNOWN-FINDING: property={self.pid} {entry['what_fails']} [{entry['key']}]")
        for i, v in enumerate(self.violations):
            p = os.path.join(vd, f"{self.pid}-{i}.json")
            with open(p, "w") as fh:
                json.dump(v, fh, indent=1, default=str)
            w = v.get("where") or ""
            lines.append(f"VIOLATION property={self.pid} replay={p}")
            lines.append(f"  rule={v['rule']} instance={v['instance']} at {w}: {v['message']}")
        n_obl = len(self.obligations)
        n_ok = sum(1 for o in self.obligations if o["ok"])
        distinct = len({(o["rule"], o["instance"]) for o in self.obligations if o["nontrivial"]})
        samples = []
        seen_rules = {}
        for o in self.obligations:
            c = seen_rules.get(o["rule"], 0)
            if c < 4:
                seen_rules[o["rule"]] = c + 1
                samples.append({k: v for k, v in o.items() if v is not None and k != "nontrivial"})
        ev = {
            "property_id": self.pid,
            "tier": self.tier,
            "seed": self.seed,
            "level": "other",
            "coverage": {
                "explanation": self.explanation,
                "obligations": n_obl,
                "discharged": n_ok,
                "evaluations": n_obl,
                "distinct_nontrivial": distinct,
                "rule": "one evaluation = one rule instance (rule kind x anchored construct) decided on the facts extracted from /repo's current tree; distinct = distinct (rule, instance) pairs that had a real site",
                "samples": samples[:40],
                "rules": sorted(seen_rules),
                "floors": self.floors,
                "floor_failures": self.floor_failures,
                "positive_controls": self.controls,
                "analysed": (fb.stats() if fb else {}) | self.analysed,
                "not_decided": self.not_decided,
                "known_findings_reported": sorted(reported_known),
                "fixed_entries": self.fixed,
                "notes": self.notes[:60],
                "trusted_base": self.trusted,
                "checker_cmd": f"./check {self.pid}" + (" --tier thorough" if self.tier == "thorough" else ""),
            },
            "assumptions": self.assumptions,
            "wall_s": round(time.time() - self.t0, 3),
            "violations": len(self.violations),
        }
        with open(os.path.join(EVIDENCE, f"{self.pid}.json"), "w") as fh:
            json.dump(ev, fh, indent=1, default=str)
        for l in lines:
            print(l)
        for ff in self.floor_failures:
            print(f"FLOOR property={self.pid} {ff}")
        if self.floor_failures and not self.violations:
            print(f"CHECKER-ERROR property={self.pid}: {self.floor_failures[0]}")
            return 2
        print(f"{self.pid}: {n_ok}/{n_obl} rule instances hold, {len(self.violations)} violation(s), {len(reported_known)} known finding(s) [{self.tier}, {ev['wall_s']}s]")
        return 1 if self.violations else 0
