"""C06 — expression evaluation is total, overflow-checked and type-strict (structural part)."""
import json, os, re
import reach, hirq, mirq
from facts import CheckerError, find_all
from props.c05 import strip

ORACLE = os.path.join(os.path.dirname(os.path.abspath(__file__)), "..", "..", "oracle", "operator_typing.json")
EXPR = "biscuit_auth::datalog::expression"
TERM = "biscuit_auth::datalog::Term"


def _variants(fb, path):
    return [f"{path}::{v}" for v in fb.variants(path)]


def _the_match(fb, fn, sty_prefix):
    h = fb.hir_of(fn)
    ms = [m for m in hirq.matches_in(h["body"]) if (m.get("sty") or "").startswith(sty_prefix)]
    if len(ms) != 1:
        raise CheckerError(f"anchor: expected one match on `{sty_prefix}...` in {fn}, found {len(ms)}")
    return fb.body(fn), ms[0]


def check(fb, ctx):
    ctx.explanation = (
        "TOTAL: REACH over everything Expression::evaluate can call (operators, closures, extern-function glue, temporary "
        "symbol table, term conversions). TYPING: the (operator, left, right) cells accepted by a non-default arm of "
        "Binary::evaluate, Unary::evaluate and Binary::evaluate_with_closure, expanded from the resolved patterns with "
        "first-match semantics over every variant of the enums, equal the oracle table written from the specification; the "
        "default arm is Err(InvalidType). CHECKED: the integer Add/Sub/Mul/Div arms go through i64::checked_* and map None to "
        "Overflow/DivideByZero. LAZY: short-circuit arms do not evaluate the closure. SHADOW: evaluate_with_closure is only "
        "reached after the shadowing test. STACK: every stack.pop() is matched with an InvalidStack default. INTERN: the "
        "temporary symbol table only appends a string after a failed lookup."
    )
    orc = json.load(open(ORACLE))
    binv, unv, tv = _variants(fb, EXPR + "::Binary"), _variants(fb, EXPR + "::Unary"), _variants(fb, TERM)
    ctx.floor("Binary variants", len(binv), 29)
    ctx.floor("Term variants", len(tv), 10)
    if [v.split("::")[-1] for v in tv] != orc["term_variants"]:
        ctx.fail("TYPING", "Term variants", "TYPING|Term-variants", f"datalog::Term variants {[v.split('::')[-1] for v in tv]} differ from the oracle's {orc['term_variants']}: the typing table must be re-derived", "biscuit-auth/src/datalog/mod.rs")

    # ---- 1. totality
    ent = [fb.body(p)["key"] for p in (
        EXPR + "::Expression::evaluate", EXPR + "::Unary::evaluate", EXPR + "::Binary::evaluate",
        EXPR + "::Binary::evaluate_with_closure", EXPR + "::ExternFunc::call",
        "biscuit_auth::datalog::symbol::TemporarySymbolTable::<'a>::new", "biscuit_auth::datalog::symbol::TemporarySymbolTable::<'a>::get_symbol",
        "biscuit_auth::datalog::symbol::TemporarySymbolTable::<'a>::insert",
        "biscuit_auth::token::builder::term::Term::from_datalog", "biscuit_auth::token::builder::term::Term::to_datalog")]
    reach.run(fb, ctx, ent, rule="TOTAL")

    # ---- 2. typing tables
    def sh(x):
        return x.split("::")[-1]

    # binary
    body, m = _the_match(fb, EXPR + "::Binary::evaluate", "(&datalog::expression::Binary, datalog::Term, datalog::Term)")
    tab = hirq.cell_table(m, [binv, tv, tv])
    default = len(m["arms"]) - 1
    dflt_arm = m["arms"][default]
    ev = hirq.err_variant(dflt_arm["body"])
    ctx.check(hirq.arm_position_sets(dflt_arm["pat"]) == [None] and isinstance(ev, str) and ev.endswith("Expression::InvalidType"), "TYPING", "Binary::evaluate default arm", "TYPING|Binary::evaluate|default",
              "the last arm of Binary::evaluate must be `_ => Err(InvalidType)`", f"{body['file']}:{dflt_arm['ln']}")
    got = {}
    for (o, l, r), i in tab.items():
        if i != default:
            got.setdefault(sh(o), set()).add((sh(l), sh(r)))
    n_cells = 0
    for op in [sh(v) for v in binv]:
        want = {tuple(c) for c in orc["binary"].get(op, [])} if op in orc["binary"] else None
        have = got.get(op, set())
        if want is None:
            ctx.fail("TYPING", f"Binary::{op}", f"TYPING|Binary::{op}|unclassified", f"operator Binary::{op} is not in the typing oracle", f"{body['file']}:{body['line']}")
            continue
        n_cells += len(have)
        extra, missing = sorted(have - want), sorted(want - have)
        if extra or missing:
            first = (extra or missing)[0]
            arm_ln = m["arms"][tab[(EXPR + "::Binary::" + op, TERM + "::" + first[0], TERM + "::" + first[1])]]["ln"] if extra else body["line"]
            ctx.fail("TYPING", f"Binary::{op}", f"TYPING|Binary::{op}", f"accepted operand types differ from the specification: extra {extra[:6]} missing {missing[:6]}", f"{body['file']}:{arm_ln}")
        else:
            ctx.ok("TYPING", f"Binary::{op}", f"{body['file']}:{body['line']}", f"{len(have)} accepted (left,right) cells match the oracle")
    ctx.floor("accepted binary cells", n_cells, 370)

    # ---- 2a. POPORDER: the stack machine pops the right operand first
    eb0 = fb.body(EXPR + "::Expression::evaluate")
    po = hirq.pop_order(fb.hir_of(eb0), r"expression::Binary::evaluate(_with_closure)?$")
    ctx.floor("binary evaluations fed from two stack pops", len(po), 2)
    for ln, v in po:
        ctx.check(v == "ok", "POPORDER", f"Expression::evaluate: evaluation at +{ln - eb0['line']} receives (second pop, first pop) as (left, right)", f"POPORDER|evaluate|{po.index((ln, v))}", f"operands taken from the stack are passed as {v}: the first value popped is the RIGHT operand", f"{eb0['file']}:{ln}")
    # ---- 2b. ROLES: in the arms of the non-commutative operators the LEFT operand occupies the slot the specification gives it
    roles = json.load(open(os.path.join(os.path.dirname(os.path.dirname(os.path.dirname(os.path.abspath(__file__)))), "oracle", "operand_roles.json")))["roles"]

    def ids_in(n, ids):
        return bool(find_all(n, lambda z: hirq.is_lid(z, ids)))

    def witnesses(node, L, R, specs, out):
        """walk an arm body; follow `match (f(left), g(right)) { (Some(l), Some(r)) => .. }` rebindings; collect verdicts"""
        if isinstance(node, list):
            for x in node:
                witnesses(x, L, R, specs, out)
            return
        if not isinstance(node, dict):
            return
        k = node.get("k")
        if k == "match" and strip(node.get("scrut", {})).get("k") == "tup" and len(strip(node["scrut"])["es"]) == 2:
            es = strip(node["scrut"])["es"]
            if ids_in(es[0], L) and not ids_in(es[0], R) and ids_in(es[1], R) and not ids_in(es[1], L):
                for arm in node["arms"]:
                    p_ = arm["pat"]
                    L2, R2 = set(L), set(R)
                    if p_.get("k") == "tuple" and len(p_["pats"]) == 2:
                        L2 |= {b_["id"] for b_ in find_all(p_["pats"][0], lambda z: z.get("k") == "bind")}
                        R2 |= {b_["id"] for b_ in find_all(p_["pats"][1], lambda z: z.get("k") == "bind")}
                    witnesses(arm["body"], L2, R2, specs, out)
                return
        for sp in specs:
            slots = None
            if sp["kind"] == "binary" and k == "binary" and node.get("op") == sp["op"]:
                slots = {"a": node["a"], "b": node["b"]}
                lslot, rslot = "a", "b"
            elif sp["kind"] == "mcall" and k == "mcall" and node.get("name") == sp["name"]:
                slots = {"recv": node["recv"]}
                for i_, a_ in enumerate(node.get("args", [])):
                    slots[f"arg{i_}"] = a_
                lslot = sp["left"]
                rslot = sp.get("right") or next((x for x in slots if x != lslot and ids_in(slots[x], L | R)), None)
            elif sp["kind"] == "format" and k == "format" and len(node.get("args", [])) >= 2:
                slots = {f"arg{i_}": a_ for i_, a_ in enumerate(node["args"])}
                lslot, rslot = "arg0", "arg1"
            if slots is None or lslot not in slots:
                continue
            l_has_l, l_has_r = ids_in(slots[lslot], L), ids_in(slots[lslot], R)
            others_have_l = any(ids_in(v, L) for kx, v in slots.items() if kx != lslot)
            if l_has_l and not l_has_r:
                out.append(("ok", node["ln"]))
            elif l_has_r and not l_has_l and others_have_l:
                out.append(("swapped", node["ln"]))
        for v in node.values():
            if isinstance(v, (dict, list)):
                witnesses(v, L, R, specs, out)

    n_roles = 0
    for arm in m["arms"]:
        p_ = arm["pat"]
        if p_.get("k") != "tuple" or len(p_["pats"]) != 3:
            continue
        ops_here = {sh(v) for v in hirq.pat_variants(p_["pats"][0])}
        for op in sorted(ops_here & set(roles)):
            tys = {sh(v) for v in hirq.pat_variants(p_["pats"][1])}
            specs = [sp for sp in roles[op] if not sp.get("only_types") or tys & set(sp["only_types"])]
            if not specs:
                continue
            L = {b_["id"] for b_ in find_all(p_["pats"][1], lambda z: z.get("k") == "bind")}
            R = {b_["id"] for b_ in find_all(p_["pats"][2], lambda z: z.get("k") == "bind")}
            if not L or not R:
                continue
            out = []
            witnesses(arm["body"], L, R, specs, out)
            if not out:
                continue        # the arm computes in a shape the role table does not describe: not decided for this arm
            n_roles += 1
            bad = [ln for v, ln in out if v == "swapped"]
            ctx.check(not bad, "ROLES", f"Binary::{op} over {'/'.join(sorted(tys))}: the left operand is the {specs[0]['left']} of `{specs[0].get('name') or specs[0].get('op') or 'format!'}`", f"ROLES|{op}|{'+'.join(sorted(tys))}", f"operands are swapped at line {bad[0] if bad else '?'}: the specification computes `left {op} right`, the code computes `right {op} left`", f"{body['file']}:{arm['ln']}")
    ctx.floor("operator arms with a decided operand order", n_roles, 18)   # 27 on the pinned tree; an arm computed in a shape the role table does not describe is undecided, not wrong - two thirds must stay decided

    # unary
    ubody, um = _the_match(fb, EXPR + "::Unary::evaluate", "(&datalog::expression::Unary, datalog::Term)")
    utab = hirq.cell_table(um, [unv, tv])
    udef = len(um["arms"]) - 1
    uev = hirq.err_variant(um["arms"][udef]["body"])
    ctx.check(hirq.arm_position_sets(um["arms"][udef]["pat"]) == [None] and isinstance(uev, str) and uev.endswith("InvalidType"), "TYPING", "Unary::evaluate default arm", "TYPING|Unary::evaluate|default",
              "the last arm of Unary::evaluate must be `_ => Err(InvalidType)`", f"{ubody['file']}:{um['arms'][udef]['ln']}")
    ugot = {}
    for (o, t), i in utab.items():
        if i != udef:
            ugot.setdefault(sh(o), set()).add(sh(t))
    for op in [sh(v) for v in unv]:
        want = set(orc["unary"].get(op, ["<unclassified>"]))
        have = ugot.get(op, set())
        ctx.check(have == want, "TYPING", f"Unary::{op}", f"TYPING|Unary::{op}", f"accepted operand types {sorted(have)} differ from the specification {sorted(want)}", f"{ubody['file']}:{ubody['line']}")

    # closures
    cbody, cm = _the_match(fb, EXPR + "::Binary::evaluate_with_closure", "(&datalog::expression::Binary, datalog::Term, &[u32])")
    ctab = hirq.cell_table(cm, [binv, tv, ["slice:0", "slice:1", "slice:2"]])
    cdef = len(cm["arms"]) - 1
    cev = hirq.err_variant(cm["arms"][cdef]["body"])
    ctx.check(isinstance(cev, str) and cev.endswith("InvalidType"), "TYPING", "evaluate_with_closure default arm", "TYPING|evaluate_with_closure|default", "the last arm must be Err(InvalidType)", f"{cbody['file']}:{cm['arms'][cdef]['ln']}")
    cgot = {}
    for (o, l, p), i in ctab.items():
        if i != cdef:
            cgot.setdefault(sh(o), set()).add((sh(l), p))
    for op in [sh(v) for v in binv]:
        want = {tuple(c) for c in orc["closure"].get(op, [])}
        have = cgot.get(op, set())
        if want or have:
            ctx.check(have == want, "TYPING", f"closure Binary::{op}", f"TYPING|closure|{op}", f"closure operands accepted {sorted(have)} differ from the specification {sorted(want)} (left type, number of closure parameters)", f"{cbody['file']}:{cbody['line']}")

    # ---- 3. checked arithmetic
    for op, fn in orc["checked"].items():
        cell = (EXPR + "::Binary::" + op, TERM + "::Integer", TERM + "::Integer")
        idx = tab.get(cell)
        inst = f"Binary::{op} (Integer, Integer)"
        if idx is None or idx == default:
            ctx.fail("CHECKED", inst, f"CHECKED|{op}", "integer arm missing", f"{body['file']}:{body['line']}")
            continue
        arm = m["arms"][idx]
        calls = hirq.callee_paths(arm["body"])
        has_checked = any(c.endswith("::" + fn) and "impl i64" in c for c in calls)
        raw = [n for n in find_all(arm["body"], lambda n: n.get("k") == "binary" and n.get("op") in ("Add", "Sub", "Mul", "Div", "Rem"))]
        wrapping = [c for c in calls if re.search(r"::(wrapping_|overflowing_|unchecked_|saturating_)", c)]
        err = [hirq.ctor_name(n) for n in find_all(arm["body"], lambda n: hirq.ctor_name(n) and "error::Expression::" in hirq.ctor_name(n))]
        want_err = "DivideByZero" if op == "Div" else "Overflow"
        ok = has_checked and not raw and not wrapping and any(e.endswith(want_err) for e in err)
        ctx.check(ok, "CHECKED", inst, f"CHECKED|{op}", f"arm must compute with i64::{fn} and map None to Err({want_err}); found calls {[hirq.short(c) for c in calls][:5]}, raw arithmetic {len(raw)}", f"{body['file']}:{arm['ln']}")
    # and the whole function contains no Assert(Overflow/DivisionByZero)
    asserts = [s for s in reach.sites_of(fb, body) if s["kind"] == "assert"]
    ctx.check(not asserts, "CHECKED", "Binary::evaluate has no unchecked arithmetic", "CHECKED|Binary::evaluate|assert", f"compiler-inserted arithmetic check(s) {[s['what'] for s in asserts]}: plain operator on integers", f"{body['file']}:{asserts[0]['ln'] if asserts else body['line']}")

    # ---- 4. laziness
    for (op, val) in (("LazyOr", True), ("LazyAnd", False)):
        arms = [a for a in cm["arms"] if any(alt and len(alt) == 3 and (EXPR + "::Binary::" + op) in alt[0] for alt in hirq.arm_position_sets(a["pat"]))]
        short_arm = None
        for a in arms:
            lits = find_all(a["pat"], lambda n: n.get("k") == "lit" and n.get("t") == "bool")
            if lits and lits[0]["v"] == val:
                short_arm = a
        inst = f"({op}, Bool({str(val).lower()}), [])"
        if short_arm is None:
            ctx.fail("LAZY", inst, f"LAZY|{op}", "short-circuit arm not found", f"{cbody['file']}:{cbody['line']}")
            continue
        ev_calls = hirq.calls(short_arm["body"], r"Expression::evaluate$")
        ctx.check(not ev_calls, "LAZY", inst, f"LAZY|{op}", "the short-circuit arm evaluates the right-hand closure", f"{cbody['file']}:{short_arm['ln']}")

    # ---- 5. shadowing test dominates the closure evaluation
    eb = fb.body(EXPR + "::Expression::evaluate")
    cl = mirq.calls_matching(fb, eb, r"Binary::evaluate_with_closure$")
    ctx.floor("calls to evaluate_with_closure in Expression::evaluate", len(cl), 1)
    for c in cl:
        sh_calls = mirq.calls_matching(fb, eb, r"Option::<T>::is_some$")
        ok = False
        for s in sh_calls:
            e = mirq.success_edge(fb, eb, s)  # (D, true-target, false-targets)
            if e and e[2] and any(mirq.dominates(eb, f, c.bb) for f in e[2]) and not mirq.dominates(eb, e[1], c.bb):
                # and the true edge returns ShadowedVariable
                ok = True
        if not ok:
            # equivalent forms of the test (a loop over the closure parameters with `values.contains_key(p)`, `is_disjoint`, ..): in
            # the block that evaluates the closure, an earlier statement tests membership between the current bindings (parameter 1
            # of evaluate) and the closure's parameters and returns Err(ShadowedVariable)
            hb_ = fb.hir_of(eb)
            p_values = hirq.param_ids(hb_, 1)
            for blk in find_all(hb_["body"], lambda z: z.get("k") == "block" and z.get("stmts")):
                st = blk["stmts"] + ([blk["expr"]] if blk.get("expr") else [])
                idx = [i_ for i_, s_ in enumerate(st) if isinstance(s_, dict) and find_all(s_, lambda z: hirq.calls_path(z, r"Binary::evaluate_with_closure$")) and not find_all(s_, lambda z: z.get("k") == "block" and z is not s_ and z.get("stmts") and find_all(z, lambda y: hirq.calls_path(y, r"Binary::evaluate_with_closure$")))]
                for i_ in idx:
                    for s_ in st[:i_]:
                        test = find_all(s_, lambda z: z.get("k") == "mcall" and z.get("name") in ("contains_key", "contains", "intersection", "is_disjoint") and find_all(z, lambda y: hirq.is_lid(y, p_values)))
                        err = find_all(s_, lambda z: z.get("k") == "ret" and find_all(z, lambda y: (hirq.ctor_name(y) or "").endswith("Expression::ShadowedVariable")))
                        if test and err:
                            ok = True
        ctx.check(ok, "SHADOW", "Expression::evaluate -> evaluate_with_closure", "SHADOW|Expression::evaluate", "evaluate_with_closure is reachable without taking the `no shadowed variable` edge of the intersection test", f"{eb['file']}:{c.ln}")
    hb = fb.hir_of(eb)
    shadow_err = [n for n in find_all(hb["body"], lambda n: (hirq.ctor_name(n) or "").endswith("Expression::ShadowedVariable"))]
    ctx.check(bool(shadow_err), "SHADOW", "ShadowedVariable error is produced", "SHADOW|error", "no Err(ShadowedVariable) left in Expression::evaluate", f"{eb['file']}:{eb['line']}")

    # ---- 6. stack discipline: matches on stack.pop() have an InvalidStack default
    pops = [m2 for m2 in hirq.matches_in(hb["body"]) if hirq.calls(m2["scrut"], r"Vec::<T, A>::pop$")]
    # `let (Some(a), Some(b)) = (stack.pop(), stack.pop()) else { return Err(InvalidStack) }` is the same discipline
    let_else = [l_ for l_ in find_all(hb["body"], lambda z: z.get("k") == "let" and z.get("els") is not None and z.get("init") is not None and hirq.calls(z["init"], r"Vec::<T, A>::pop$"))]
    for l_ in let_else:
        ev2 = hirq.err_variant(l_["els"])
        ctx.check(isinstance(ev2, str) and ev2.endswith("InvalidStack"), "STACK", f"let-else on stack.pop() @+{l_['ln'] - eb['line']}", f"STACK|let-else|{let_else.index(l_)}", "the `else` of a `let .. = stack.pop() else` must return Err(InvalidStack)", f"{eb['file']}:{l_['ln']}")
    ctx.floor("matches on stack.pop()", len(pops) + len(let_else), 2)
    for m2 in pops:
        last = m2["arms"][-1]
        ev2 = hirq.err_variant(last["body"])
        ctx.check(hirq.arm_position_sets(last["pat"]) == [None] and isinstance(ev2, str) and ev2.endswith("InvalidStack"), "STACK", f"match stack.pop() @+{m2['ln'] - eb['line']}", f"STACK|{len(m2['arms'])}", "the default arm of a stack.pop() match must return Err(InvalidStack)", f"{eb['file']}:{last['ln']}")

    # ---- 7. interning is idempotent (string equality is index equality)
    for fn in ("biscuit_auth::datalog::symbol::TemporarySymbolTable::<'a>::insert", "biscuit_auth::datalog::symbol::SymbolTable::insert"):
        intern_rule(fb, ctx, fn, "INTERN")
    symbol_lookup_rules(fb, ctx, "INTERN")

    # ---- 7b. LOOKUP: a symbol lookup that fails during evaluation is an UnknownSymbol error, never a made-up value
    n_lookup = 0
    for fn in (EXPR + "::Unary::evaluate", EXPR + "::Binary::evaluate", "biscuit_auth::token::builder::term::Term::from_datalog"):
        hb = fb.hir_of(fn)
        lookups = find_all(hb["body"], lambda z: z.get("k") == "mcall" and z.get("name") == "get_symbol")
        unk = lambda z: bool(find_all(z, lambda y: (hirq.ctor_name(y) or (y.get("res", {}).get("path") if y.get("k") == "path" else "") or "").endswith("Expression::UnknownSymbol")))
        for n_, g in enumerate(lookups):
            n_lookup += 1
            # `.get_symbol(i)[.map(..)|.cloned()..].ok_or(<an Expression error>)`
            via_ok_or, cur = False, g
            for _ in range(4):
                up = [z for z in find_all(hb["body"], lambda z: z.get("k") == "mcall" and strip(z.get("recv")) is cur)]
                if not up:
                    break
                if up[0].get("name") in ("ok_or", "ok_or_else"):
                    via_ok_or = bool(find_all(up[0]["args"][0], lambda y: re.search(r"error::Expression::Unknown\w+$", hirq.ctor_name(y) or (y.get("res", {}).get("path") if y.get("k") == "path" else "") or "")))
                    break
                if up[0].get("name") not in ("map", "cloned", "copied", "as_deref", "as_ref"):
                    break
                cur = up[0]
            via_match = bool(find_all(hb["body"], lambda z: z.get("k") == "match" and find_all(z.get("scrut", {}), lambda y: y is g) and any(unk(a["body"]) and (hirq.ctor_name(strip(hirq.tail(a["body"]))) or "").endswith("::Err") for a in z["arms"])))
            ctx.check(via_ok_or or via_match, "LOOKUP", f"{fn.split('::')[-2]}::{fn.split('::')[-1]}: symbol lookup #{n_} fails with UnknownSymbol", f"LOOKUP|{fn.split('::')[-2]}::{fn.split('::')[-1]}|{n_}", "the Option returned by get_symbol is neither `.ok_or(UnknownSymbol(..))` nor matched with an `Err(UnknownSymbol(..))` arm: an unknown symbol index evaluates to a placeholder value instead of an error", f"{hb['file']}:{g['ln']}")
    ctx.floor("symbol lookups during evaluation", n_lookup, 16)
    # ---- 8. extern function results: from_datalog never builds a parameter
    fd = fb.hir_of("biscuit_auth::token::builder::term::Term::from_datalog")
    params = [n for n in find_all(fd["body"], lambda n: (hirq.ctor_name(n) or "").endswith(("Term::Parameter", "MapKey::Parameter")))]
    ctx.check(not params, "EXTERN", "Term::from_datalog builds no Parameter", "EXTERN|from_datalog", "from_datalog constructs a Parameter term: token data could reach the `Remaining parameter` panic of to_datalog", "biscuit-auth/src/token/builder/term.rs")

    ctx.not_decided = ["the value each operator returns (e.g. that starts_with is a prefix test)", "regex complexity", "behaviour of user-registered extern functions"]
    ctx.trusted = ["oracle/operator_typing.json (written from the specification)", "rustc pattern resolution (typeck qpath_res)", "panic-source catalogue"]


def symbol_lookup_rules(fb, ctx, rule):
    """`SymbolTable::get` and `SymbolTable::insert` agree on where a string lives: both look in the 28 default symbols first, then in the
    table's own strings (offset by OFFSET). If `get` skipped the defaults, a string computed during evaluation that equals a default
    symbol would get a fresh temporary index, and `==` on strings (index equality) would be false for equal strings."""
    for fn in ("biscuit_auth::datalog::symbol::SymbolTable::get", "biscuit_auth::datalog::symbol::SymbolTable::insert"):
        b = fb.body(fn)
        h = fb.hir_of(b)
        short_ = "::".join(fn.split("::")[-2:])
        names = {(z.get("res") or {}).get("path", "").split("::")[-1] for z in find_all(h["body"], lambda z: z.get("k") == "path")}
        delegates = bool(hirq.calls(h["body"], r"symbol::SymbolTable::get$")) and fn.endswith("::insert")
        own = bool(find_all(h["body"], lambda z: z.get("k") == "field" and z.get("name") == "symbols")) or delegates
        ctx.check("DEFAULT_SYMBOLS" in names and own, rule, f"{short_} looks a string up in the default symbols and in the table's own strings", f"{rule}|lookup|{fn}",
                  f"{short_} consults {'the default symbols' if 'DEFAULT_SYMBOLS' in names else 'NOT the default symbols'} and {'its own strings' if own else 'NOT its own strings'}: the same string can get two indices", f"{b['file']}:{b['line']}")


def intern_rule(fb, ctx, fn, rule):
    """Every push of a new entry is dominated by the `not found` edge of a position() lookup whose `found` edge returns."""
    b = fb.body(fn)
    pushes = mirq.calls_matching(fb, b, r"Vec::<T, A>::push$")
    pos = mirq.calls_matching(fb, b, r"Iterator::position$|::position$")
    where = f"{b['file']}:{b['line']}"
    if not pushes:
        raise CheckerError(f"anchor: no push in {fn}")
    ok = False
    for p in pos:
        for br in mirq.result_branches(fb, b, p):
            if br[0] == "branch":
                D, some_t, others = br[1], br[2], br[3]
                # position() returns an Option: the pushes sit under its None edge (`others`), the Some edge returns the index
                for none_t in others:
                    if none_t is not None and all(mirq.dominates(b, none_t, pc.bb) for pc in pushes):
                        ok = True
    ctx.check(ok, rule, f"{fn.split('::')[-2]}::insert pushes only after a failed lookup", f"{rule}|{fn}", "a new entry is appended without first looking the value up (equal strings would get different indices)", where)
