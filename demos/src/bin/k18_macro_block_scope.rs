//! C18: `block!` drops the block-level `trusting ..;` header that `BlockBuilder::code` keeps.
//! biscuit-quote's Builder::block_source calls parse_block_source and never reads `SourceResult.scopes`;
//! the run time path (BlockBuilder::code_with_params) pushes them into `BlockBuilder.scopes`.
//! Exits 0 ("DEFECT") when the two paths disagree, 1 ("OK") when they agree.
use biscuit_auth::builder::BlockBuilder;
use biscuit_auth::macros::block;

fn main() {
    let from_macro: BlockBuilder = block!(r#"trusting previous; right("read"); check if user($u);"#);
    let at_run_time = BlockBuilder::new()
        .code(r#"trusting previous; right("read"); check if user($u);"#)
        .unwrap();
    println!("macro   : scopes = {:?}", from_macro.scopes);
    println!("run time: scopes = {:?}", at_run_time.scopes);
    if from_macro.scopes != at_run_time.scopes || from_macro.to_string() != at_run_time.to_string() {
        println!("DEFECT block! and BlockBuilder::code build different blocks from the same source:\n--- macro\n{}\n--- run time\n{}", from_macro, at_run_time);
        std::process::exit(0);
    }
    println!("OK both paths keep the block scope");
    std::process::exit(1);
}
