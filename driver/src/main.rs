//! mirfacts — rustc_private driver that dumps, for every local body of the crate being
//! compiled, a resolved MIR-lite CFG and a resolved HIR-lite expression tree as JSON.
//! It contains no repository-specific logic; all rules live in /verif/rules (python).
//!
//! Used as RUSTC_WORKSPACE_WRAPPER: argv = [self, rustc, args...].
#![feature(rustc_private)]
#![allow(clippy::all)]

extern crate rustc_abi;
extern crate rustc_ast;
extern crate rustc_data_structures;
extern crate rustc_driver;
extern crate rustc_hir;
extern crate rustc_index;
extern crate rustc_interface;
extern crate rustc_middle;
extern crate rustc_session;
extern crate rustc_span;

mod hirlite;
mod json;
mod mirlite;

use json::V;
use rustc_data_structures::fx::FxHashMap;
use rustc_driver::{Callbacks, Compilation};
use rustc_hir::def::DefKind;
use rustc_hir::def_id::{DefId, LOCAL_CRATE};
use rustc_interface::interface::Compiler;
use rustc_middle::ty::print::{with_no_trimmed_paths, PrintTraitRefExt};
use rustc_middle::ty::TyCtxt;
use rustc_span::Span;

pub type SpanKey = (u32, u32, rustc_span::SyntaxContext);
pub fn span_key(s: Span) -> SpanKey {
    (s.lo().0, s.hi().0, s.ctxt())
}

pub struct FmtInfo {
    pub pieces: Vec<V>,
    pub arg_spans: Vec<Span>,
}

struct Dump {
    fmt: FxHashMap<SpanKey, usize>,
    fmt_infos: Vec<FmtInfo>,
}

pub fn def_key(tcx: TyCtxt<'_>, did: DefId) -> String {
    let krate = tcx.crate_name(did.krate);
    format!("{}{}", krate, tcx.def_path(did).to_string_no_crate_verbose())
}

pub fn def_path(tcx: TyCtxt<'_>, did: DefId) -> String {
    let krate = tcx.crate_name(did.krate);
    let p = with_no_trimmed_paths!(tcx.def_path_str(did));
    if did.is_local() {
        // local paths are printed crate-relative; make them absolute. `<T as Trait>::f` forms stay as printed.
        if p.starts_with('<') {
            p
        } else {
            format!("{}::{}", krate, p)
        }
    } else {
        p
    }
}

pub struct Loc {
    pub file: String,
    pub line: usize,
    pub col: usize,
}

pub fn loc(tcx: TyCtxt<'_>, sp: Span) -> Loc {
    let sp = sp.source_callsite();
    let sm = tcx.sess.source_map();
    let p = sm.lookup_char_pos(sp.lo());
    let file = match &p.file.name {
        rustc_span::FileName::Real(r) => match r.local_path() {
            Some(p) => p.display().to_string(),
            None => format!("{:?}", r),
        },
        other => format!("{:?}", other),
    };
    Loc { file, line: p.line, col: p.col.0 + 1 }
}

/// Innermost-to-outermost macro / desugaring names that produced this span ("" when written by hand).
pub fn expn(sp: Span) -> Option<String> {
    if !sp.from_expansion() {
        return None;
    }
    let mut names = Vec::new();
    let mut cur = sp;
    let mut guard = 0;
    while cur.from_expansion() && guard < 16 {
        let data = cur.ctxt().outer_expn_data();
        let n = match data.kind {
            rustc_span::hygiene::ExpnKind::Root => "root".to_string(),
            rustc_span::hygiene::ExpnKind::Macro(kind, name) => {
                let k = match kind {
                    rustc_span::hygiene::MacroKind::Bang => "m",
                    rustc_span::hygiene::MacroKind::Attr => "a",
                    rustc_span::hygiene::MacroKind::Derive => "derive",
                };
                format!("{}:{}", k, name)
            }
            rustc_span::hygiene::ExpnKind::AstPass(p) => format!("astpass:{:?}", p),
            rustc_span::hygiene::ExpnKind::Desugaring(d) => format!("d:{:?}", d),
        };
        names.push(n);
        cur = data.call_site;
        guard += 1;
    }
    Some(names.join(">"))
}

impl Callbacks for Dump {
    fn after_expansion<'tcx>(&mut self, _c: &Compiler, tcx: TyCtxt<'tcx>) -> Compilation {
        // Collect format_args!() templates from the expanded AST: they are the only place where the
        // literal text of a format string is still a literal.
        let resolver_and_krate = tcx.resolver_for_lowering().borrow();
        let krate = &resolver_and_krate.1;
        struct Vis<'a> {
            d: &'a mut Dump,
        }
        impl<'a, 'ast> rustc_ast::visit::Visitor<'ast> for Vis<'a> {
            fn visit_expr(&mut self, e: &'ast rustc_ast::Expr) {
                if let rustc_ast::ExprKind::FormatArgs(fa) = &e.kind {
                    let mut pieces = Vec::new();
                    for p in fa.template.iter() {
                        match p {
                            rustc_ast::FormatArgsPiece::Literal(s) => pieces.push(V::s(s.as_str())),
                            rustc_ast::FormatArgsPiece::Placeholder(ph) => {
                                let idx = match ph.argument.index {
                                    Ok(i) => i as i128,
                                    Err(_) => -1,
                                };
                                pieces.push(V::Obj(vec![
                                    ("arg", V::Int(idx)),
                                    ("trait", V::s(format!("{:?}", ph.format_trait))),
                                ]));
                            }
                        }
                    }
                    let arg_spans = fa.arguments.all_args().iter().map(|a| a.expr.span).collect();
                    let idx = self.d.fmt_infos.len();
                    self.d.fmt_infos.push(FmtInfo { pieces, arg_spans });
                    self.d.fmt.insert(span_key(e.span), idx);
                }
                rustc_ast::visit::walk_expr(self, e);
            }
        }
        let mut v = Vis { d: self };
        rustc_ast::visit::walk_crate(&mut v, krate);
        Compilation::Continue
    }

    fn after_analysis<'tcx>(&mut self, _c: &Compiler, tcx: TyCtxt<'tcx>) -> Compilation {
        let out_dir = match std::env::var("MIRFACTS_OUT") {
            Ok(d) => d,
            Err(_) => return Compilation::Continue,
        };
        let crate_name = tcx.crate_name(LOCAL_CRATE).to_string();
        if crate_name.starts_with("build_script") {
            return Compilation::Continue;
        }
        let nonce = std::env::var("MIRFACTS_NONCE").unwrap_or_default();
        let mut bodies = Vec::new();
        let mut n_bodies = 0usize;
        for local in tcx.mir_keys(()).iter() {
            let did = local.to_def_id();
            let kind = tcx.def_kind(did);
            match kind {
                DefKind::Fn | DefKind::AssocFn | DefKind::Closure => {}
                _ => continue,
            }
            if tcx.is_constructor(did) {
                continue;
            }
            n_bodies += 1;
            bodies.push(mirlite::dump_body(tcx, *local));
        }
        // HIR trees, one per fn-like owner (closures are inlined in their parent tree).
        let mut hirs = Vec::new();
        for local in tcx.hir_body_owners() {
            let did = local.to_def_id();
            match tcx.def_kind(did) {
                DefKind::Fn | DefKind::AssocFn => {}
                _ => continue,
            }
            if let Some(v) = hirlite::dump_fn(tcx, local, &self.fmt, &self.fmt_infos) {
                hirs.push(v);
            }
        }
        // ADT tables.
        let mut adts = Vec::new();
        for local in tcx.hir_crate_items(()).definitions() {
            let did = local.to_def_id();
            match tcx.def_kind(did) {
                DefKind::Struct | DefKind::Enum | DefKind::Union => {}
                _ => continue,
            }
            let adt = tcx.adt_def(did);
            let mut variants = Vec::new();
            // discriminant value of each variant (enums only): `E::V as usize` is in range of a table only because of these
            let discrs: Vec<u128> = if adt.is_enum() { adt.discriminants(tcx).map(|(_, d)| d.val).collect() } else { Vec::new() };
            for (vi, v) in adt.variants().iter().enumerate() {
                let mut fields = Vec::new();
                for f in v.fields.iter() {
                    let fty = with_no_trimmed_paths!(tcx.type_of(f.did).instantiate_identity().skip_norm_wip().to_string());
                    fields.push(V::Obj(vec![
                        ("name", V::s(f.name.as_str())),
                        ("ty", V::s(fty)),
                        ("pub", V::Bool(f.vis.is_public())),
                    ]));
                }
                variants.push(V::Obj(vec![
                    ("name", V::s(v.name.as_str())),
                    ("key", V::s(def_key(tcx, v.def_id))),
                    ("discr", discrs.get(vi).map(|d| V::s(&d.to_string())).unwrap_or(V::Null)),
                    ("fields", V::Arr(fields)),
                ]));
            }
            let l = loc(tcx, tcx.def_span(did));
            adts.push(V::Obj(vec![
                ("key", V::s(def_key(tcx, did))),
                ("path", V::s(def_path(tcx, did))),
                ("kind", V::s(format!("{:?}", tcx.def_kind(did)))),
                ("pub", V::Bool(tcx.visibility(did).is_public())),
                ("file", V::s(l.file)),
                ("line", V::u(l.line)),
                ("exp", expn(tcx.def_span(did)).map(V::s).unwrap_or(V::Null)),
                ("variants", V::Arr(variants)),
            ]));
        }
        // Trait impl table.
        let mut impls = Vec::new();
        for local in tcx.hir_crate_items(()).definitions() {
            let did = local.to_def_id();
            if let DefKind::Impl { of_trait } = tcx.def_kind(did) {
                let self_ty = with_no_trimmed_paths!(tcx.type_of(did).instantiate_identity().skip_norm_wip().to_string());
                let tr = if of_trait {
                    let t = tcx.impl_trait_ref(did).instantiate_identity().skip_norm_wip();
                    Some(with_no_trimmed_paths!(t.print_only_trait_path().to_string()))
                } else {
                    None
                };
                let l = loc(tcx, tcx.def_span(did));
                impls.push(V::Obj(vec![
                    ("key", V::s(def_key(tcx, did))),
                    ("self_ty", V::s(self_ty)),
                    ("trait", tr.map(V::s).unwrap_or(V::Null)),
                    ("file", V::s(l.file)),
                    ("line", V::u(l.line)),
                    ("exp", expn(tcx.def_span(did)).map(V::s).unwrap_or(V::Null)),
                ]));
            }
        }
        let cfgs: Vec<V> = {
            let mut v: Vec<String> = tcx
                .sess
                .config
                .iter()
                .filter_map(|(k, val)| match (k.as_str(), val) {
                    ("feature", Some(f)) => Some(format!("feature={}", f)),
                    ("debug_assertions", None) => Some("debug_assertions".into()),
                    ("overflow_checks", None) => Some("overflow_checks".into()),
                    ("test", None) => Some("test".into()),
                    ("panic", Some(p)) => Some(format!("panic={}", p)),
                    _ => None,
                })
                .collect();
            v.sort();
            v.into_iter().map(V::s).collect()
        };
        let root = V::Obj(vec![
            ("crate", V::s(crate_name.clone())),
            ("nonce", V::s(nonce)),
            ("rustc", V::s(rustc_interface::util::rustc_version_str().unwrap_or("?"))),
            ("crate_types", V::s(format!("{:?}", tcx.crate_types()))),
            ("overflow_checks", V::Bool(tcx.sess.overflow_checks())),
            ("cfg", V::Arr(cfgs)),
            ("n_bodies", V::u(n_bodies)),
            ("bodies", V::Arr(bodies)),
            ("hir", V::Arr(hirs)),
            ("adts", V::Arr(adts)),
            ("impls", V::Arr(impls)),
        ]);
        let mut s = String::new();
        root.write(&mut s);
        let fname = format!("{}/{}-{}.json", out_dir, crate_name, std::process::id());
        // one write per process
        std::fs::write(&fname, s).expect("write facts");
        Compilation::Continue
    }
}

fn main() {
    let mut args: Vec<String> = std::env::args().collect();
    // RUSTC_WORKSPACE_WRAPPER mode: argv[1] is the path of the real rustc.
    if args.len() > 1 && (args[1].ends_with("rustc") || args[1].contains("/rustc")) {
        args.remove(1);
    }
    let mut cb = Dump { fmt: FxHashMap::default(), fmt_infos: Vec::new() };
    rustc_driver::run_compiler(&args, &mut cb);
}
