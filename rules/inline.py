"""Inlining of helper functions that did not exist when the rules were written.

Every rule instance was confirmed by hand against the functions of the pinned tree (tables/known_functions.json lists their
paths). A maintainer who moves part of such a function into a new helper does not change behaviour, but a rule anchored in the
original function would no longer see the code it looks for. So, before any rule runs, every call from a workspace function to a
*new* (unlisted) non-recursive function of the same crate that has a body is replaced by that body - in the MIR-lite CFG
(locals and blocks renumbered, arguments assigned to the callee's parameter locals, `return` turned into an assignment to the
call's destination and a jump to its target) and in the HIR-lite tree (a block `{ let <param> = <arg>; ..; <body> }` with
renumbered local ids). Bounded depth (3 levels of new helpers calling new helpers). A new helper that is private and whose calls
were all inlined is not analysed on its own any more (its code is analysed where it runs). Functions that are listed keep their
own analysis: moving code between two *known* functions is visible to the rules that name them."""
import copy, json, os, re

VERIF = os.path.normpath(os.path.join(os.path.dirname(os.path.abspath(__file__)), ".."))
TABLE = os.path.join(VERIF, "tables", "known_functions.json")
MAX_DEPTH = 3
ID_STRIDE = 100000


class _Shift:
    """callee local -> caller local: shifted by `off`; the callee's return place `_0` is the call's destination itself when that
    destination is a plain local (so `_0 = Err(..)` of the helper reads `dest = Err(..)` in the caller, as it did before the
    code was moved)"""
    def __init__(self, off, ret_local=None):
        self.off, self.ret = off, ret_local

    def __call__(self, l):
        if l == 0 and self.ret is not None:
            return self.ret
        return l + self.off


def _remap_place(pl, sh):
    out = {"l": sh(pl["l"])}
    if pl.get("p"):
        out["p"] = [re.sub(r"\[_(\d+)\]", lambda m: f"[_{sh(int(m.group(1)))}]", q) if isinstance(q, str) else q for q in pl["p"]]
    for k, v in pl.items():
        if k not in ("l", "p"):
            out[k] = v
    return out


def _remap_mir(x, sh):
    """deep copy of a statement / rvalue / operand tree with every place's local renumbered"""
    if isinstance(x, dict):
        if isinstance(x.get("l"), int) and all(k in ("l", "p") for k in x):
            return _remap_place(x, sh)
        return {k: _remap_mir(v, sh) for k, v in x.items()}
    if isinstance(x, list):
        return [_remap_mir(v, sh) for v in x]
    return x


def _remap_term(t, sh, boff):
    t2 = {}
    for k, v in t.items():
        if k in ("t", "u", "o") and isinstance(v, int):
            t2[k] = v + boff
        elif k == "ts":
            t2[k] = [[a, b + boff] for a, b in v]
        else:
            t2[k] = _remap_mir(v, sh)
    return t2


def inline_mir_call(caller, bb, callee):
    """splice `callee` into `caller` at the call terminating block bb"""
    t = caller["blocks"][bb]["t"]
    loff = len(caller["locals"])
    boff = len(caller["blocks"])
    dest, target = t.get("d"), t.get("t")
    direct = dest is not None and not dest.get("p")
    sh = _Shift(loff, dest["l"] if direct else None)
    caller["locals"] = list(caller["locals"]) + list(callee["locals"])
    for n in callee.get("names", []):
        caller.setdefault("names", []).append({**n, "pl": _remap_place(n["pl"], sh)})
    ln = t.get("ln")
    # arguments -> parameter locals
    stmts = caller["blocks"][bb]["s"]
    for j, a in enumerate(t.get("a", [])):
        if j + 1 <= callee["argc"]:
            stmts.append({"d": {"l": loff + j + 1}, "r": {"k": "use", "op": a}, "ln": ln, "inl": callee["path"]})
    caller["blocks"][bb]["t"] = {"k": "goto", "t": boff, "ln": ln, "inl": callee["path"]}
    for blk in callee["blocks"]:
        nb = {"s": [_remap_mir(s_, sh) for s_ in blk["s"]], "t": _remap_term(blk.get("t") or {"k": "unreachable"}, sh, boff)}
        for s_ in nb["s"]:
            s_.setdefault("inl", callee["path"])
        if blk.get("cleanup"):
            nb["cleanup"] = True
        if nb["t"].get("k") == "return":
            nb["was_return"] = True
            if dest is not None and not direct:
                nb["s"].append({"d": dest, "r": {"k": "use", "op": {"k": "move", "pl": {"l": loff}}}, "ln": ln, "inl": callee["path"]})
            nb["t"] = {"k": "goto", "t": target, "ln": ln} if target is not None else {"k": "unreachable", "ln": ln}
        nb["t"].setdefault("inl", callee["path"])
        caller["blocks"].append(nb)
    if direct and target is not None:
        _thread_returns(caller, callee, boff, dest["l"], target)
    for k in [k for k in caller if k.startswith("_")]:
        del caller[k]          # cached CFG / def index


def _thread_returns(caller, callee, boff, dest_l, target):
    """Jump threading across the inlined call: an exit of the helper that is known to return `Err(..)` / `None` (resp. `Ok` / `Some`)
    is wired directly to the matching arm of the `?` (or `match`) the caller applies to the result, through copies of the one or two
    blocks that inspect it. Without this, the error exit of the helper and the success arm of the caller are connected in the CFG,
    and every dominance rule sees a path on which the helper failed and the caller went on."""
    ty = str(caller["locals"][dest_l]) if dest_l < len(caller["locals"]) else ""
    is_res = ty.startswith(("std::result::Result<", "core::result::Result<"))
    is_opt = ty.startswith(("std::option::Option<", "core::option::Option<"))
    if not (is_res or is_opt):
        return
    blocks = caller["blocks"]
    T = blocks[target]
    tt = T.get("t") or {}
    chain, sw = None, None
    def uses_whole(op, l):
        return isinstance(op, dict) and op.get("k") in ("move", "copy") and op["pl"]["l"] == l and not op["pl"].get("p")
    def discr_switch(blk, l):
        """block computes discriminant(l) and switches on it -> {value: target}"""
        dl = [st_["d"]["l"] for st_ in blk["s"] if st_["r"].get("k") == "discr" and st_["r"]["pl"]["l"] == l and not st_["r"]["pl"].get("p")]
        t_ = blk.get("t") or {}
        if dl and t_.get("k") == "switch" and uses_whole(t_.get("d"), dl[-1]):
            return {v: b_ for v, b_ in t_["ts"]}, t_.get("o")
        return None, None
    if tt.get("k") == "call" and (tt.get("f") or {}).get("k") == "fn" and str(tt["f"]["fn"].get("path", "")).endswith("Try::branch") and tt.get("a") and uses_whole(tt["a"][0], dest_l) and tt.get("d") and tt.get("t") is not None:
        m_, o_ = discr_switch(blocks[tt["t"]], tt["d"]["l"])
        if m_ is not None:
            chain, sw = [target, tt["t"]], {"good": m_.get(0), "bad": m_.get(1, o_)}
    else:
        m_, o_ = discr_switch(T, dest_l)
        if m_ is not None:
            good_v = 0 if is_res else 1
            chain, sw = [target], {"good": m_.get(good_v, o_), "bad": m_.get(1 - good_v, o_)}
    if chain is None or sw["good"] is None or sw["bad"] is None:
        return
    made = {}
    def threaded(kind):
        if kind not in made:
            first = None
            prev = None
            for n_, bi in enumerate(chain):
                cp = copy.deepcopy(blocks[bi])
                cp["threaded"] = kind
                blocks.append(cp)
                idx = len(blocks) - 1
                if first is None:
                    first = idx
                if prev is not None:
                    blocks[prev]["t"]["t"] = idx
                prev = idx
            blocks[prev]["t"] = {"k": "goto", "t": sw[kind], "ln": (blocks[prev].get("t") or {}).get("ln")}
            made[kind] = first
        return made[kind]
    n_callee = len(callee["blocks"])
    inl = range(boff, boff + n_callee)
    ret_blocks = {i for i in inl if blocks[i].get("was_return")}

    def succs(blk):
        t_ = blk.get("t") or {}
        k_ = t_.get("k")
        if k_ == "goto":
            return [("t", t_["t"])]
        if k_ == "switch":
            return [("ts", i_) for i_ in range(len(t_["ts"]))] + ([("o", t_["o"])] if t_.get("o") is not None else [])
        if k_ in ("call", "drop", "assert") and t_.get("t") is not None:
            return [("t", t_["t"])]
        return []

    def succ_targets(blk):
        t_ = blk.get("t") or {}
        out = []
        for kind_, v in succs(blk):
            out.append(t_["ts"][v][1] if kind_ == "ts" else v)
        return out

    def assigned_kind(blk):
        kind = None
        for st_ in blk["s"]:
            if st_["d"]["l"] == dest_l and not st_["d"].get("p"):
                r_ = st_["r"]
                kind = "good" if (r_.get("k") == "agg" and r_.get("variant") in ("Ok", "Some")) else "bad" if (r_.get("k") == "agg" and r_.get("variant") in ("Err", "None")) else "unknown"
        pt = blk.get("t") or {}
        if pt.get("k") == "call" and pt.get("d") and pt["d"]["l"] == dest_l and not pt["d"].get("p"):
            fp = str(((pt.get("f") or {}).get("fn") or {}).get("rpath") or ((pt.get("f") or {}).get("fn") or {}).get("path") or "")
            kind = "bad" if ("FromResidual" in fp or fp.endswith("from_residual")) else "unknown"
        return kind

    ak = {i: assigned_kind(blocks[i]) for i in inl}
    # tail duplication: the blocks that run after the result was assigned (drops, storage ends, the former return) are cloned once
    # per known kind, and the clone of the former return jumps to the threaded continuation
    for kind in ("good", "bad"):
        starts = [i for i in inl if ak[i] == kind]
        if not starts:
            continue
        region, st = set(), []
        for i in starts:
            st += [x for x in succ_targets(blocks[i]) if x in inl]
        while st:
            x = st.pop()
            if x in region or ak.get(x) is not None:
                continue
            region.add(x)
            st += [y for y in succ_targets(blocks[x]) if y in inl]
        if not region or not (region & ret_blocks):
            continue
        clone = {}
        for x in sorted(region):
            blocks.append(copy.deepcopy(blocks[x]))
            blocks[-1]["threaded"] = kind
            clone[x] = len(blocks) - 1
        for x, cx in clone.items():
            t_ = blocks[cx].get("t") or {}
            if x in ret_blocks:
                blocks[cx]["t"] = {"k": "goto", "t": threaded(kind), "ln": t_.get("ln")}
                continue
            if t_.get("k") == "switch":
                t_["ts"] = [[v, clone.get(b_, b_)] for v, b_ in t_["ts"]]
                if t_.get("o") is not None:
                    t_["o"] = clone.get(t_["o"], t_["o"])
            elif t_.get("t") is not None:
                t_["t"] = clone.get(t_["t"], t_["t"])
        for i in starts:
            t_ = blocks[i].get("t") or {}
            if t_.get("k") == "switch":
                t_["ts"] = [[v, clone.get(b_, b_)] for v, b_ in t_["ts"]]
                if t_.get("o") is not None:
                    t_["o"] = clone.get(t_["o"], t_["o"])
            elif t_.get("t") is not None:
                t_["t"] = clone.get(t_["t"], t_["t"])


def _remap_hir(x, off, ln=None):
    """copy with local ids shifted; with `ln`, every node takes the line of the call site it is inlined at (rules order statements
    by line; the original line is kept as ln0)"""
    if isinstance(x, dict):
        y = {k: _remap_hir(v, off, ln) for k, v in x.items()}
        if ln is not None and "ln" in x:
            y["ln0"] = x["ln"]
            y["ln"] = ln
        if x.get("k") == "bind" and isinstance(x.get("id"), int):
            y["id"] = x["id"] + off
        if x.get("dk") == "Local" and isinstance(x.get("id"), int):
            y["id"] = x["id"] + off
        return y
    if isinstance(x, list):
        return [_remap_hir(v, off, ln) for v in x]
    return x


def _place_like(e, depth=0):
    """a side-effect-free, cheap expression: locals, constants, literals, field / & / * chains and arithmetic over those - safe to
    substitute for a parameter (evaluating it again changes nothing for an analysis)"""
    if not isinstance(e, dict) or depth > 6:
        return False
    k = e.get("k")
    if k == "lit":
        return True
    if k == "path":
        return (e.get("res") or {}).get("dk") in ("Local", "Const", "AssocConst", "Static") or str((e.get("res") or {}).get("dk", "")).startswith("Ctor")
    if k in ("addr", "use", "cast", "paren"):
        return _place_like(e.get("e"), depth + 1)
    if k == "unary":
        return _place_like(e.get("a"), depth + 1)
    if k == "field":
        return _place_like(e.get("e"), depth + 1)
    if k == "binary" and e.get("op") in ("Add", "Sub", "Mul", "Eq", "Ne", "Lt", "Le", "Gt", "Ge"):
        return _place_like(e.get("a"), depth + 1) and _place_like(e.get("b"), depth + 1)
    return False


def _subst(node, mapping):
    """replace uses of the locals in `mapping` (id -> expression) by a copy of the expression"""
    if isinstance(node, list):
        return [_subst(v, mapping) for v in node]
    if not isinstance(node, dict):
        return node
    if node.get("k") == "path" and (node.get("res") or {}).get("dk") == "Local" and node["res"].get("id") in mapping:
        return copy.deepcopy(mapping[node["res"]["id"]])
    out = {k: _subst(v, mapping) for k, v in node.items()}
    # `*index += 1` with `index := &mut index`  ->  `index += 1`
    if out.get("k") == "unary" and out.get("op") == "Deref" and isinstance(out.get("a"), dict) and out["a"].get("k") == "addr" and isinstance(node.get("a"), dict) and node["a"].get("k") == "path":
        return out["a"]["e"]
    return out


def inline_hir(node, new_hir, counter, depth=0):
    """returns node with calls to new helpers replaced by `{ let params = args; body }` (a parameter whose argument is a plain
    place expression is substituted by that expression, so that rules which identify a value by where it comes from still do);
    a new function used as a *value* (`take_while1(is_name_char)`) is replaced by the equivalent closure"""
    if isinstance(node, list):
        return [inline_hir(v, new_hir, counter, depth) for v in node]
    if not isinstance(node, dict):
        return node
    k = node.get("k")
    callee_is_path = k == "call" and isinstance(node.get("f"), dict) and node["f"].get("k") == "path"
    if callee_is_path:
        node = {kk: (vv if kk == "f" else inline_hir(vv, new_hir, counter, depth)) for kk, vv in node.items()}
    else:
        node = {kk: inline_hir(vv, new_hir, counter, depth) for kk, vv in node.items()}
    key, args = None, None
    if callee_is_path:
        res = node["f"].get("res") or {}
        key, args = res.get("rkey") or res.get("key"), node.get("args", [])
    elif k == "mcall":
        d = node.get("rdef") or node.get("def") or {}
        key, args = d.get("key"), [node.get("recv")] + list(node.get("args", []))
    elif k == "path" and (node.get("res") or {}).get("dk") in ("Fn", "AssocFn") and depth < MAX_DEPTH:
        fk = node["res"].get("rkey") or node["res"].get("key")
        if fk in new_hir:
            h = new_hir[fk]
            counter[0] += 1
            off = counter[0] * ID_STRIDE
            return {"k": "closure", "def": fk, "params": _remap_hir(h.get("params") or [], off), "body": inline_hir(_remap_hir(h["body"], off), new_hir, counter, depth + 1), "ln": node.get("ln"), "inlined": h["path"]}
    if key in new_hir and depth < MAX_DEPTH:
        h = new_hir[key]
        counter[0] += 1
        off = counter[0] * ID_STRIDE
        params = _remap_hir(h.get("params") or [], off, node.get("ln"))
        body = _remap_hir(h["body"], off, node.get("ln"))
        stmts, mapping = [], {}
        for p, a in zip(params, args):
            if isinstance(p, dict) and p.get("k") == "bind" and _place_like(a) and "Mut" not in str(p.get("mode", "")).split(",")[-1]:
                mapping[p["id"]] = a
            else:
                stmts.append({"k": "let", "pat": p, "init": a, "ln": node.get("ln")})
        if mapping:
            body = _subst(body, mapping)
        # the helper's own `return`s and `?`s leave the helper, not the caller: they carry the id of this inlined instance
        def mark(n_):
            if isinstance(n_, list):
                for x_ in n_:
                    mark(x_)
            elif isinstance(n_, dict):
                if n_.get("k") == "closure":
                    return
                if (n_.get("k") == "ret" or (n_.get("k") == "match" and str(n_.get("src", "")).startswith("TryDesugar"))) and "of" not in n_:
                    n_["of"] = off
                for x_ in n_.values():
                    if isinstance(x_, (dict, list)):
                        mark(x_)
        mark(body)
        body = inline_hir(body, ({k_: v_ for k_, v_ in new_hir.items() if not v_.get("_rec")} if h.get("_rec") else new_hir), counter, depth + 1)
        return {"k": "block", "stmts": stmts, "expr": body, "ln": node.get("ln"), "inlined": h["path"], "inl_id": off}
    return node


def _ctor(e):
    while isinstance(e, dict) and e.get("k") in ("use", "paren"):
        e = e.get("e")
    if not isinstance(e, dict):
        return None, []
    if e.get("k") == "call" and isinstance(e.get("f"), dict) and e["f"].get("k") == "path" and str((e["f"].get("res") or {}).get("dk", "")).startswith("Ctor"):
        r = e["f"]["res"]
        return r.get("of") or r.get("path"), list(e.get("args") or [])
    if e.get("k") == "path" and str((e.get("res") or {}).get("dk", "")).startswith("Ctor"):
        return e["res"].get("of") or e["res"].get("path"), []
    return None, []


def _diverges(e):
    """the expression always leaves the enclosing statement sequence (break / return / continue at its end)"""
    if not isinstance(e, dict):
        return False
    k = e.get("k")
    if k in ("break", "ret", "continue"):
        return True
    if k == "semi":
        return _diverges(e.get("e"))
    if k == "block":
        last = e.get("expr") if e.get("expr") is not None else ((e.get("stmts") or [None])[-1])
        return _diverges(last)
    if k == "if":
        return e.get("else") is not None and _diverges(e.get("then")) and _diverges(e.get("else"))
    return False


def _select(arms, v):
    """the arm body (parameters bound) a `match` / `if let` runs for the value expression v when v is a constructor application
    whose variant decides the arm; (False, None) when that cannot be told"""
    c, cargs = _ctor(v)
    if c is None:
        return False, None
    for pat, body in arms:
        q = pat
        while isinstance(q, dict) and q.get("k") in ("ref", "deref", "box"):
            q = q.get("pat")
        if not isinstance(q, dict):
            return False, None
        if q.get("k") == "wild":
            return True, body
        if q.get("k") == "bind" and not q.get("sub"):
            return True, (_subst(body, {q["id"]: v}) if body is not None else None)
        if q.get("k") in ("tstruct", "path"):
            pv = (q.get("res") or {}).get("of") or (q.get("res") or {}).get("path") or (q.get("res") or {}).get("name")
            if pv != c:
                continue
            mapping = {}
            subs = q.get("pats") or []
            if len(subs) != len(cargs):
                return False, None
            for sp, a in zip(subs, cargs):
                while isinstance(sp, dict) and sp.get("k") in ("ref", "deref"):
                    sp = sp.get("pat")
                if sp.get("k") == "wild":
                    continue
                if sp.get("k") == "bind" and not sp.get("sub"):
                    mapping[sp["id"]] = a
                else:
                    return False, None
            return True, (_subst(body, mapping) if body is not None and mapping else body)
        return False, None
    return False, None


def _fuse_consumer(st, parts):
    """`if let Some(x) = helper(..) { break x }` / `match helper(..) { .. }` as a statement, with the helper inlined: every
    `return V` of the helper and its final value are routed straight into the arm they select (V must be a constructor application
    and the arm taken by a `return` in the middle must leave the statement sequence, as the original did by returning to a caller
    that then leaves). The caller-side decision of what a helper's answer means is thereby visible where the answer is produced."""
    e = st.get("e") if isinstance(st, dict) and st.get("k") == "semi" else st
    if not isinstance(e, dict):
        return None
    if e.get("k") == "if" and isinstance(e.get("cond"), dict) and e["cond"].get("k") == "letexpr":
        init, arms = e["cond"].get("init"), [(e["cond"]["pat"], e.get("then")), ({"k": "wild"}, e.get("else"))]
    elif e.get("k") == "match" and e.get("src") == "Normal" and not any(a.get("guard") for a in e.get("arms") or []):
        init, arms = e.get("scrut"), [(a["pat"], a["body"]) for a in e["arms"]]
    else:
        return None
    pr = parts(init, True)
    if not pr or pr[1] is None:
        return None
    pre, tailv = pr
    if _find_all(pre, lambda z: z.get("k") == "match" and z.get("of") is not None and z.get("of") == init.get("inl_id")):
        return None        # a `?` of the helper would become a `?` of the caller
    def rets(n, acc):
        if isinstance(n, list):
            for x in n:
                rets(x, acc)
        elif isinstance(n, dict):
            if n.get("k") == "closure":
                return
            if n.get("k") == "ret":
                if n.get("of") == init.get("inl_id"):
                    acc.append(n)
                return
            for x in n.values():
                if isinstance(x, (dict, list)):
                    rets(x, acc)
    found = []
    rets(pre, found)
    repl = {}
    for r in found:
        ok, body = _select(arms, r.get("e"))
        if not ok or body is None or not _diverges(body):
            return None
        repl[id(r)] = body
    ok, tb = _select(arms, tailv)
    if not ok:
        if not found:
            return None
        # the helper's final value is not a literal constructor: keep the consumer for it
        tb = {**e, **({"cond": {**e["cond"], "init": tailv}} if e.get("k") == "if" else {"scrut": tailv})}
    def rw(n):
        if isinstance(n, list):
            return [rw(x) for x in n]
        if isinstance(n, dict):
            if id(n) in repl:
                return copy.deepcopy(repl[id(n)])
            return {k_: rw(v_) for k_, v_ in n.items()}
        return n
    return rw(pre), tb


def split_local_structs(body, counter):
    """`let mut b = S { f: e1, g: e2 }; .. b.f .. (&mut b).g ..` where every use of `b` is a field access: one variable per field
    (`let mut b.f = e1; let mut b.g = e2;`). Running state kept in a small private struct (whose methods were inlined) then reads
    like the separate locals it replaced. Variables are identified by id; the new ones get fresh ids."""
    cands = {}
    for l in _find_all(body, lambda z: z.get("k") == "let" and isinstance(z.get("pat"), dict) and z["pat"].get("k") == "bind" and not z["pat"].get("sub") and isinstance(z.get("init"), dict)):
        init = l["init"]
        if init.get("k") == "struct" and init.get("base") is None and init.get("fields") and not str((init.get("res") or {}).get("dk", "")).startswith(("Variant", "Ctor")):
            cands[l["pat"]["id"]] = l
        elif init.get("k") == "call" and not init.get("args") and isinstance(init.get("f"), dict) and init["f"].get("k") == "path" and str((init["f"].get("res") or {}).get("path") or "").endswith("::default"):
            # `let mut v = Verdict::default();` - the fields are the ones the function reads and writes; each starts as its default
            cands[l["pat"]["id"]] = {**l, "init": {"k": "struct", "fields": None, "default": init}}
    if not cands:
        return body
    total, good = {i: 0 for i in cands}, {i: 0 for i in cands}
    used_fields = {}
    def unwrap(x):
        while isinstance(x, dict) and (x.get("k") in ("addr", "use", "paren") or (x.get("k") == "unary" and x.get("op") == "Deref")):
            x = x.get("e") if x.get("k") != "unary" else x.get("a")
        return x
    def scan(n):
        if isinstance(n, list):
            for x in n:
                scan(x)
        elif isinstance(n, dict):
            if n.get("k") == "path" and (n.get("res") or {}).get("dk") == "Local" and n["res"].get("id") in cands:
                total[n["res"]["id"]] += 1
            if n.get("k") == "field":
                b_ = unwrap(n.get("e"))
                if isinstance(b_, dict) and b_.get("k") == "path" and (b_.get("res") or {}).get("dk") == "Local" and b_["res"].get("id") in cands:
                    fs_ = cands[b_["res"]["id"]]["init"]["fields"]
                    if fs_ is None:
                        used_fields.setdefault(b_["res"]["id"], [])
                        if n.get("name") not in used_fields[b_["res"]["id"]]:
                            used_fields[b_["res"]["id"]].append(n.get("name"))
                        good[b_["res"]["id"]] += 1
                    elif any(f_["name"] == n.get("name") for f_ in fs_):
                        good[b_["res"]["id"]] += 1
            for v in n.values():
                if isinstance(v, (dict, list)):
                    scan(v)
    scan(body)
    chosen = {i for i in cands if total[i] > 0 and total[i] == good[i]}
    if not chosen:
        return body
    for i in chosen:
        if cands[i]["init"]["fields"] is None:
            cands[i]["init"]["fields"] = [{"name": f_, "e": copy.deepcopy(cands[i]["init"]["default"])} for f_ in used_fields.get(i, [])]
    newid = {}
    for i in chosen:
        counter[0] += 1
        for j, f_ in enumerate(cands[i]["init"]["fields"]):
            newid[(i, f_["name"])] = 50_000_000 + counter[0] * 100 + j
    def rw(n):
        if isinstance(n, list):
            out = []
            for x in n:
                if isinstance(x, dict) and x.get("k") == "let" and isinstance(x.get("pat"), dict) and x["pat"].get("k") == "bind" and x["pat"].get("id") in chosen and x.get("ln") == cands[x["pat"]["id"]].get("ln"):
                    x = cands[x["pat"]["id"]]
                    for f_ in x["init"]["fields"]:
                        out.append({"k": "let", "pat": {"k": "bind", "name": f'{x["pat"].get("name")}.{f_["name"]}', "id": newid[(x["pat"]["id"], f_["name"])], "mode": x["pat"].get("mode"), "sub": None}, "init": rw(f_["e"]), "els": None, "ln": x.get("ln"), "split": True})
                else:
                    out.append(rw(x))
            return out
        if isinstance(n, dict):
            if n.get("k") == "field":
                b_ = unwrap(n.get("e"))
                if isinstance(b_, dict) and b_.get("k") == "path" and (b_.get("res") or {}).get("dk") == "Local" and (b_["res"].get("id"), n.get("name")) in newid:
                    return {"k": "path", "res": {"dk": "Local", "id": newid[(b_["res"]["id"], n["name"])], "name": f'{b_["res"].get("name")}.{n["name"]}'}, "ln": n.get("ln"), "ln0": n.get("ln0")}
            return {k_: rw(v_) for k_, v_ in n.items()}
        return n
    return rw(body)


def hoist_inlined(node):
    """`let x = { let p = a; s1; s2; tail };` (an inlined helper that is the whole initialiser / statement / tail of a block) ->
    `let p = a; s1; s2; let x = tail;`. Variables are identified by id, so widening their scope cannot capture anything; rules
    that read a statement sequence (`let len = ..; merge(..); if len == ..`) see the same sequence as before the extraction."""
    if isinstance(node, list):
        return [hoist_inlined(v) for v in node]
    if not isinstance(node, dict):
        return node
    node = {k: hoist_inlined(v) for k, v in node.items()}
    if node.get("k") != "block" or not isinstance(node.get("stmts"), list):
        return node
    def own_returns(e):
        return bool(_find_all(e, lambda z: z.get("of") is not None and z.get("of") == e.get("inl_id") and (z.get("k") == "ret" or z.get("k") == "match")))
    def parts(e, for_fusion=False):
        """(statements, tail) of an inlined-helper block, None when e is not one (or, outside fusion, when it still contains
        `return`s / `?`s of the helper: spliced into the caller they would read as the caller's)"""
        if not (isinstance(e, dict) and e.get("k") == "block" and e.get("inlined") and e.get("inlined") != "local closure"):
            return None
        if not for_fusion and e.get("inl_id") is not None and own_returns(e):
            return None
        pre = list(e.get("stmts") or [])
        inner = e.get("expr")
        while isinstance(inner, dict) and inner.get("k") == "block" and isinstance(inner.get("stmts"), list) and not inner.get("label") and not inner.get("unsafe"):
            if inner.get("inlined"):
                sub = parts(inner)
                if sub is None:
                    break
                pre += sub[0]
                inner = sub[1]
                continue
            pre += inner["stmts"]
            inner = inner.get("expr")
        return pre, inner
    out = []
    for st in node["stmts"]:
        fused = _fuse_consumer(st, parts)
        if fused is not None:
            out += fused[0] + ([fused[1]] if fused[1] is not None else [])
            continue
        if isinstance(st, dict) and st.get("k") == "let" and st.get("els") is None:
            pr = parts(st.get("init"))
            if pr and pr[1] is not None:
                out += pr[0]
                out.append({**st, "init": pr[1]})
                continue
        if isinstance(st, dict) and st.get("k") == "semi":
            pr = parts(st.get("e"))
            if pr:
                out += pr[0]
                if pr[1] is not None:
                    out.append({**st, "e": pr[1]})
                continue
        pr = parts(st)
        if pr:                                  # an expression statement without `;`
            out += pr[0]
            if pr[1] is not None:
                out.append(pr[1])
            continue
        out.append(st)
    node["stmts"] = out
    fused = _fuse_consumer(node.get("expr"), parts)
    if fused is not None:
        node["stmts"] = node["stmts"] + fused[0]
        node["expr"] = fused[1]
    pr = parts(node.get("expr"))
    if pr:
        node["stmts"] = node["stmts"] + pr[0]
        node["expr"] = pr[1]
    return node


def inline_local_closures(body, counter):
    """`let f = |a, b| { .. }; .. f(x, y) ..` -> the call is replaced by the closure body with its parameters bound (HIR only):
    moving a block of a function into a local closure does not hide it from the rules. Closures that are passed around as values
    (iterator adaptors) are left alone."""
    lets = {}
    for l in _find_all(body, lambda z: z.get("k") == "let" and isinstance(z.get("pat"), dict) and z["pat"].get("k") == "bind" and isinstance(z.get("init"), dict)):
        init = l["init"]
        while isinstance(init, dict) and init.get("k") in ("addr", "use", "paren"):
            init = init.get("e")
        if isinstance(init, dict) and init.get("k") == "closure":
            lets[l["pat"]["id"]] = init

    if not lets:
        return body

    def rw(n, depth=0):
        if isinstance(n, list):
            return [rw(v, depth) for v in n]
        if not isinstance(n, dict):
            return n
        n = {k: rw(v, depth) for k, v in n.items()}
        if n.get("k") == "call" and isinstance(n.get("f"), dict) and n["f"].get("k") == "path" and (n["f"].get("res") or {}).get("dk") == "Local" and n["f"]["res"].get("id") in lets and depth < MAX_DEPTH:
            cl = lets[n["f"]["res"]["id"]]
            counter[0] += 1
            off = counter[0] * ID_STRIDE
            params = _remap_hir(cl.get("params") or [], off, n.get("ln"))
            cbody = _remap_hir(cl["body"], off, n.get("ln"))
            stmts, mapping = [], {}
            for p, a in zip(params, n.get("args", [])):
                if isinstance(p, dict) and p.get("k") == "bind" and _place_like(a):
                    mapping[p["id"]] = a
                else:
                    stmts.append({"k": "let", "pat": p, "init": a, "ln": n.get("ln")})
            if mapping:
                cbody = _subst(cbody, mapping)
            return {"k": "block", "stmts": stmts, "expr": cbody, "ln": n.get("ln"), "inlined": "local closure"}
        return n
    return rw(body)


def _find_all(node, pred):
    out = []
    def w(n):
        if isinstance(n, list):
            for x in n:
                w(x)
        elif isinstance(n, dict):
            if pred(n):
                out.append(n)
            for v in n.values():
                w(v)
    w(node)
    return out


def apply(fb):
    """inline the functions that tables/known_functions.json does not list; records what was done in fb.inlined"""
    fb.inlined = []
    cnt = [5000]
    for key, h in fb.hir.items():
        if h.get("crate") in ("biscuit_auth", "biscuit_capi"):
            nb = inline_local_closures(h["body"], cnt)
            if nb is not h["body"]:
                h["body"] = nb
    if not os.path.exists(TABLE):
        return
    with open(TABLE) as fh:
        tbl = json.load(fh)
        known = set(tbl["functions"])
        info = tbl.get("info") or {}
    fb._known_paths = {b["path"] for b in fb.bodies.values() if b["path"] in known}
    new = {k: b for k, b in fb.bodies.items() if b["kind"] in ("Fn", "AssocFn") and b["path"] not in known and not b.get("exp") and b.get("blocks")}
    # a listed function that is gone under its path while an unlisted one has its name: it was MOVED (other module / into an impl),
    # it is not a new helper - the rules find it through FactBase._moved and it keeps its own analysis
    present = {b["path"] for b in fb.bodies.values()}
    gone = {}
    for p_ in known - present:
        gone.setdefault((p_.split("::")[0], p_.split("::")[-1]), []).append(p_)
    # renamed while moved (`generate_seal_signature_payload_v0` -> `Block::seal_signature_payload_v0`): a listed function that is gone
    # and exactly one unlisted function of the crate sharing a long common substring of the name (>= 60 % of the old name, >= 12
    # characters), unique in both directions
    def lcs(a_, b_):
        best = 0
        for i_ in range(len(a_)):
            for j_ in range(len(b_)):
                k_ = 0
                while i_ + k_ < len(a_) and j_ + k_ < len(b_) and a_[i_ + k_] == b_[j_ + k_]:
                    k_ += 1
                best = max(best, k_)
        return best
    gone_names = [(c_, n_, ps_) for (c_, n_), ps_ in gone.items() if len(ps_) == 1]
    for (c_, n_, ps_) in gone_names:
        cands = [b_ for b_ in new.values() if b_["crate"] == c_ and (b_["crate"], b_["path"].split("::")[-1]) not in gone and lcs(n_, b_["path"].split("::")[-1]) >= max(12, int(0.6 * len(n_)))]
        if len(cands) == 1:
            nm2 = cands[0]["path"].split("::")[-1]
            rivals = [n2 for (c2, n2, _) in gone_names if c2 == c_ and n2 != n_ and lcs(n2, nm2) >= max(12, int(0.6 * len(n2)))]
            if not rivals:
                gone.setdefault((c_, nm2), []).append(ps_[0])
    # renamed arbitrarily (`parse_any_algorithm` -> `Algorithm::parse_with_any`): a listed function that is gone and an unlisted one
    # of the same crate with the same arity and exactly the callers the listed one had at the pinned HEAD (callers that are new
    # helpers themselves are replaced by their own callers); several candidates: the strictly closest name; unique in both directions
    if info:
        by_caller = {}
        for b_ in fb.bodies.values():
            for blk in b_.get("blocks") or []:
                t = blk.get("t") or {}
                if t.get("k") == "call" and (t.get("f") or {}).get("k") == "fn":
                    ck = t["f"]["fn"].get("rkey", t["f"]["fn"].get("key"))
                    if ck != b_["key"]:
                        by_caller.setdefault(ck, set()).add(b_["key"])
        def callers_of(k_, seen_=None):
            seen_ = seen_ if seen_ is not None else set()
            out_ = set()
            for c_ in by_caller.get(k_, ()):
                if c_ in seen_:
                    continue
                seen_.add(c_)
                if c_ in new:
                    out_ |= callers_of(c_, seen_)
                elif c_ in fb.bodies:
                    out_.add(fb.bodies[c_]["path"])
            return out_
        taken = {n2 for (c2, n2) in gone}
        picks = {}
        for (c_, n_, ps_) in gone_names:
            if any(ps_[0] in v_ and k_ != (c_, n_) for k_, v_ in gone.items()):
                continue                       # already paired by the name rule above
            want = info.get(ps_[0])
            if not want or not want["callers"]:
                continue
            cands = [(k_, b_) for k_, b_ in new.items() if b_["crate"] == c_ and b_["path"].split("::")[-1] not in taken and b_.get("argc") == want["argc"] and callers_of(k_) == set(want["callers"])]
            if len(cands) > 1:
                sc = sorted(((lcs(n_, b_["path"].split("::")[-1]), k_, b_) for k_, b_ in cands), key=lambda z: -z[0])
                cands = [(sc[0][1], sc[0][2])] if sc[0][0] > sc[1][0] else []
            if len(cands) == 1:
                picks.setdefault(cands[0][0], []).append((c_, ps_[0], cands[0][1]["path"].split("::")[-1]))
        for k_, lst in picks.items():
            if len(lst) == 1:
                c_, old_, nm2 = lst[0]
                gone.setdefault((c_, nm2), []).append(old_)
    moved = {}
    for k, b in list(new.items()):
        olds = gone.get((b["crate"], b["path"].split("::")[-1]))
        if olds:
            del new[k]
            if len(olds) == 1 and sum(1 for b2 in fb.bodies.values() if b2["crate"] == b["crate"] and b2["kind"] in ("Fn", "AssocFn") and b2["path"].split("::")[-1] == b["path"].split("::")[-1] and b2["path"] not in known) == 1:
                moved[b["path"]] = olds[0]
    if moved:
        # present the moved function under the path the rules know (its own def key is unchanged): body, call sites, HIR paths
        def ren(x):
            if isinstance(x, list):
                for v in x:
                    ren(v)
            elif isinstance(x, dict):
                for kk in ("path", "rpath", "of"):
                    if isinstance(x.get(kk), str) and x[kk] in moved:
                        x[kk] = moved[x[kk]]
                for v in x.values():
                    if isinstance(v, (dict, list)):
                        ren(v)
        for b in fb.bodies.values():
            if b["path"] in moved:
                fb.by_path[b["path"]] = [x for x in fb.by_path[b["path"]] if x != b["key"]]
                b["path"] = moved[b["path"]]
                fb.by_path[b["path"]].append(b["key"])
            ren(b.get("blocks"))
        for h in fb.hir.values():
            if h["path"] in moved:
                h["path"] = moved[h["path"]]
            ren(h.get("body"))
        fb.relocated = {v: k for k, v in moved.items()}
        fb.inlined.append({"moved_functions": fb.relocated})
    if not new:
        fb._calls = {}
        fb._edges = None
        return
    # no recursion among the new functions (a recursive helper is analysed on its own)
    def callees(b):
        out = set()
        for blk in b["blocks"]:
            t = blk.get("t") or {}
            if t.get("k") == "call" and (t.get("f") or {}).get("k") == "fn":
                fn = t["f"]["fn"]
                out.add(fn.get("rkey", fn.get("key")))
        return out
    rec = set()
    for k, b in new.items():
        seen, st = set(), [k]
        while st:
            x = st.pop()
            for c in (callees(fb.bodies[x]) if x in fb.bodies else ()):
                if c == k:
                    rec.add(k)
                if c in new and c not in seen:
                    seen.add(c)
                    st.append(c)
    rec_new = {k: b for k, b in new.items() if k in rec}
    new = {k: b for k, b in new.items() if k not in rec}
    pristine = {k: copy.deepcopy(b) for k, b in new.items()}
    remaining_calls = {k: 0 for k in new}
    for key, b in fb.bodies.items():
        if not b.get("blocks"):
            continue
        for _ in range(MAX_DEPTH):
            hits = []
            for i, blk in enumerate(b["blocks"]):
                t = blk.get("t") or {}
                if t.get("k") == "call" and (t.get("f") or {}).get("k") == "fn":
                    fn = t["f"]["fn"]
                    ck = fn.get("rkey", fn.get("key"))
                    if ck in new and ck != key and fb.bodies[ck]["crate"] == b["crate"] and len(t.get("a", [])) == pristine[ck]["argc"]:
                        hits.append((i, ck))
            if not hits:
                break
            for i, ck in hits:
                inline_mir_call(b, i, pristine[ck])
                fb.inlined.append({"callee": pristine[ck]["path"], "into": b["path"], "level": "MIR"})
        # calls to new helpers that remain (depth bound, arity mismatch): the helper must still be analysed on its own
        for blk in b["blocks"]:
            t = blk.get("t") or {}
            if t.get("k") == "call" and (t.get("f") or {}).get("k") == "fn":
                ck = t["f"]["fn"].get("rkey", t["f"]["fn"].get("key"))
                if ck in remaining_calls and ck != key:
                    remaining_calls[ck] += 1
    new_hir = {k: copy.deepcopy(fb.hir[k]) for k in new if k in fb.hir}
    # a NEW recursive function (the recursive body of a listed function moved into a helper: `Expression::print` -> `print_ops`) is
    # shown ONE level deep inside its listed callers (HIR only), so that rules reading the listed function still see the code; the
    # helper stays a unit of analysis of its own (REACH / RECUR see the recursion)
    rec_hir = {k: {**copy.deepcopy(fb.hir[k]), "_rec": True} for k in rec_new if k in fb.hir}
    counter = [0]
    for key, h in fb.hir.items():
        before = counter[0]
        avail = {k: v for k, v in new_hir.items() if k != key}
        if key not in new and key not in rec_new and h.get("crate") in ("biscuit_auth", "biscuit_capi", "biscuit_parser", "biscuit_quote"):
            avail.update({k: v for k, v in rec_hir.items() if v.get("crate") == h.get("crate")})
        h["body"] = inline_hir(h["body"], avail, counter)
        if counter[0] != before:
            # a closure handed to the helper as an argument is now `let f = || ..; .. f() ..` inside the inlined block
            h["body"] = inline_local_closures(h["body"], cnt)
            h["body"] = hoist_inlined(h["body"])
            h["body"] = split_local_structs(h["body"], cnt)
            fb.inlined.append({"into": h["path"], "level": "HIR", "count": counter[0] - before})
    # a private new helper whose calls were all inlined is no longer a unit of analysis
    fb.absorbed = {k for k, b in new.items() if not b.get("pub") and remaining_calls.get(k, 0) == 0 and any(x.get("callee") == b["path"] for x in fb.inlined)}
    for k in fb.absorbed:
        b = fb.bodies.pop(k)
        fb.by_path[b["path"]] = [x for x in fb.by_path[b["path"]] if x != k]
        fb.hir.pop(k, None)
    fb._calls = {}
    fb._edges = None
