"""Fact base: loads the JSON written by the mirfacts driver and builds indices + the workspace call graph."""
import glob, json, os, re, sys
from collections import defaultdict

sys.path.insert(0, os.path.join(os.path.dirname(os.path.abspath(__file__)), "..", "bin"))
import extract as _extract

EXPECTED_CRATES = ["biscuit_auth", "biscuit_capi", "biscuit_parser", "biscuit_quote"]


class CheckerError(Exception):
    """Raised when an anchor cannot be resolved or a floor is not met: the checker fails closed (exit 2)."""


def walk(node, fn):
    """Pre-order walk over a HIR-lite tree; fn(node) may return False to stop descent."""
    stack = [node]
    while stack:
        n = stack.pop()
        if isinstance(n, dict):
            if "k" in n:
                if fn(n) is False:
                    continue
            stack.extend(reversed(list(n.values())))
        elif isinstance(n, list):
            stack.extend(reversed(n))


def find_all(node, pred):
    out = []

    def f(n):
        if pred(n):
            out.append(n)

    walk(node, f)
    return out


def strip_generics(s):
    out, depth = [], 0
    for ch in s:
        if ch == "<":
            depth += 1
        elif ch == ">":
            depth -= 1
        elif depth == 0:
            out.append(ch)
    return "".join(out)


class Call:
    __slots__ = ("body", "bb", "key", "path", "rkey", "rpath", "rkind", "gargs", "rargs", "args", "dest", "target", "unwind", "ln", "x", "indirect", "fty")

    def __init__(self, body, bb, t):
        self.body, self.bb = body, bb
        f = t["f"]
        self.args = t["a"]
        self.dest = t.get("d")
        self.target = t.get("t")
        self.unwind = t.get("u")
        self.ln = t.get("ln")
        self.x = t.get("x")
        self.fty = t.get("fty")
        if f["k"] == "fn":
            fn = f["fn"]
            self.indirect = False
            self.key, self.path = fn["key"], fn["path"]
            self.rkey, self.rpath = fn.get("rkey", fn["key"]), fn.get("rpath", fn["path"])
            self.rkind = fn.get("rkind")
            self.gargs = fn.get("args", "")
            self.rargs = fn.get("rargs", "")
        else:
            self.indirect = True
            self.key = self.path = self.rkey = self.rpath = None
            self.rkind = "indirect"
            self.gargs = self.rargs = ""

    @property
    def callee(self):
        return self.rpath or "<indirect>"

    def __repr__(self):
        return f"Call({self.body['path']}@bb{self.bb}:{self.ln} -> {self.callee})"


class FactBase:
    def __init__(self, facts_dir, expected=None):
        self.dir = facts_dir
        self.crates = {}
        self.configs = []
        per_crate = defaultdict(list)
        for f in sorted(glob.glob(os.path.join(facts_dir, "*.json"))):
            with open(f) as fh:
                d = json.load(fh)
            per_crate[d["crate"]].append(d)
        for c in (expected or EXPECTED_CRATES):
            if c not in per_crate:
                raise CheckerError(f"no facts for crate {c}")
        for c, ds in per_crate.items():
            # several configurations of one crate (host/target, feature unification): analyse the largest one,
            # record them all.
            ds.sort(key=lambda d: (-d["n_bodies"], d["cfg"]))
            self.crates[c] = ds[0]
            for d in ds:
                self.configs.append({"crate": c, "cfg": d["cfg"], "bodies": d["n_bodies"], "analysed": d is ds[0]})
        self.bodies = {}
        self.hir = {}
        self.adts = {}
        self.adt_by_path = {}
        self.impls = []
        self.by_path = defaultdict(list)
        for c, d in self.crates.items():
            for b in d["bodies"]:
                b["crate"] = c
                self.bodies[b["key"]] = b
                self.by_path[b["path"]].append(b["key"])
            for h in d["hir"]:
                h["crate"] = c
                self.hir[h["key"]] = h
            for a in d["adts"]:
                a["crate"] = c
                self.adts[a["key"]] = a
                self.adt_by_path[a["path"]] = a
            for i in d["impls"]:
                i["crate"] = c
                self.impls.append(i)
        self._calls = {}
        self._closures = defaultdict(list)
        for k, b in self.bodies.items():
            if b["kind"] == "Closure":
                self._closures[b["parent"]].append(k)
        self._trait_impl_index = None
        self._edges = None

    # ------------------------------------------------------------------ lookup
    def body(self, path):
        """Resolve a body by printed path (exact), failing closed when it does not exist or is ambiguous."""
        ks = self.by_path.get(path, [])
        if len(ks) == 1:
            return self.bodies[ks[0]]
        if not ks:
            moved = self._moved(path)
            if moved is not None:
                return moved
            raise CheckerError(f"anchor missing: no body with path `{path}`")
        raise CheckerError(f"anchor ambiguous: {len(ks)} bodies with path `{path}`: {ks}")

    def body_opt(self, path):
        ks = self.by_path.get(path, [])
        if not ks:
            return self._moved(path)
        return self.bodies[ks[0]] if len(ks) == 1 else None

    def _moved(self, path):
        """An anchor that is gone under its path but exists exactly once, in the same crate, under the same name with the same owner
        (`Type::method`, or a free function that became an associated function or moved to a sibling module): the function was moved,
        not removed. Recorded in self.relocated."""
        if "<" in path or " as " in path:
            return None
        segs = path.split("::")
        crate, name = segs[0], segs[-1]
        owner = segs[-2] if len(segs) >= 3 and segs[-2][:1].isupper() else None
        cands = []
        for b in self.bodies.values():
            if b["crate"] != crate or b["kind"] not in ("Fn", "AssocFn") or b.get("exp"):
                continue
            bs = b["path"].split("::")
            if bs[-1] != name or b["path"] in getattr(self, "_known_paths", ()):
                continue
            if owner is not None and not (len(bs) >= 2 and (bs[-2] == owner or bs[-2].endswith(owner + ">"))):
                continue
            cands.append(b)
        if len(cands) == 1:
            if not hasattr(self, "relocated"):
                self.relocated = {}
            self.relocated[path] = cands[0]["path"]
            return cands[0]
        return None

    def bodies_matching(self, regex):
        r = re.compile(regex)
        return [b for b in self.bodies.values() if r.search(b["path"])]

    def hir_of(self, path_or_body):
        b = path_or_body if isinstance(path_or_body, dict) else self.body(path_or_body)
        key = b["key"]
        if key in self.hir:
            return self.hir[key]
        raise CheckerError(f"anchor missing: no HIR for `{b['path']}`")

    def adt(self, path):
        a = self.adt_by_path.get(path)
        if a is None:
            raise CheckerError(f"anchor missing: no type `{path}`")
        return a

    def variants(self, path):
        return [v["name"] for v in self.adt(path)["variants"]]

    def closures_of(self, key, recursive=True):
        out = []
        for k in self._closures.get(key, []):
            out.append(k)
        return out

    # ------------------------------------------------------------------ calls
    def calls(self, body):
        key = body["key"]
        if key not in self._calls:
            cs = []
            for i, blk in enumerate(body["blocks"]):
                t = blk.get("t")
                if t and t["k"] in ("call", "tailcall"):
                    cs.append(Call(body, i, t))
            self._calls[key] = cs
        return self._calls[key]

    def calls_to(self, body, regex):
        r = re.compile(regex)
        return [c for c in self.calls(body) if c.rpath and (r.search(c.rpath) or r.search(c.path))]

    def _trait_impls(self):
        if self._trait_impl_index is None:
            idx = defaultdict(list)
            for b in self.bodies.values():
                tr = b.get("trait")
                if tr:
                    name = b["path"].rsplit("::", 1)[-1]
                    idx[(strip_generics(tr).split("::")[-1], name)].append(b)
            self._trait_impl_index = idx
        return self._trait_impl_index

    def edges(self, body):
        """Possible workspace callees of a body: list of (callee_key, Call-or-None, how)."""
        out = []
        for c in self.calls(body):
            if c.indirect:
                continue
            if c.rkey in self.bodies:
                out.append((c.rkey, c, "call"))
            elif c.key in self.bodies:
                out.append((c.key, c, "call"))
            elif c.rkind in ("unresolved", "virtual", None) or c.rkey == c.key:
                # unresolved trait method: every workspace impl of that trait method is a possible target
                parts = c.path.split("::")
                if len(parts) >= 2:
                    cands = self._trait_impls().get((parts[-2], parts[-1]), [])
                    # only when the callee really is a trait item (workspace trait or std trait implemented here)
                    for b in cands:
                        if c.rkind in ("unresolved", "virtual"):
                            out.append((b["key"], c, "trait-dispatch"))
            # formatting machinery: Argument::new_display::<T> etc. call <T as Display>::fmt later
            if c.path.startswith("core::fmt::rt::Argument") and "::new_" in c.path:
                tr = {"new_display": "Display", "new_debug": "Debug", "new_lower_hex": "LowerHex", "new_upper_hex": "UpperHex"}.get(c.path.rsplit("::", 1)[-1])
                if tr:
                    for b in self._trait_impls().get((tr, "fmt"), []):
                        if self._ty_matches(b.get("self_ty", ""), c.gargs):
                            out.append((b["key"], c, "fmt"))
            if c.path.endswith("ToString::to_string") or c.rpath.endswith("as std::string::ToString>::to_string"):
                for b in self._trait_impls().get(("Display", "fmt"), []):
                    if self._ty_matches(b.get("self_ty", ""), c.gargs):
                        out.append((b["key"], c, "to_string"))
        # closures created here may be called (by this body or by the iterator adaptor they are handed to)
        for blk in body["blocks"]:
            for s in blk["s"]:
                r = s["r"]
                if r.get("k") == "agg" and r.get("ak") in ("closure", "coroutine"):
                    if r["closure"] in self.bodies:
                        out.append((r["closure"], None, "closure"))
        # function items passed as values (map(Self::f), map_err(Into::into) ...)
        for blk in body["blocks"]:
            ops = []
            for s in blk["s"]:
                ops.extend(_operands_of_rvalue(s["r"]))
            t = blk.get("t")
            if t and t["k"] in ("call", "tailcall"):
                ops.extend(t["a"])
            for o in ops:
                if o.get("k") == "fn":
                    fn = o["fn"]
                    k = fn.get("rkey", fn["key"])
                    if k in self.bodies:
                        out.append((k, None, "fn-value"))
                    elif fn["key"] in self.bodies:
                        out.append((fn["key"], None, "fn-value"))
        return out

    @staticmethod
    def _ty_matches(self_ty, gargs):
        # gargs looks like "[token::builder::term::Term]" or "[&T]"; compare the head type name, ignoring refs/generics
        g = gargs.strip("[]")
        g = g.lstrip("&").replace("mut ", "")
        while g.startswith("&"):
            g = g[1:]
        a = strip_generics(self_ty).strip()
        b = strip_generics(g).strip()
        if not a or not b:
            return True
        return a == b or a.endswith("::" + b) or b.endswith("::" + a)

    def reachable(self, entry_keys, stop=lambda key: False):
        """BFS over the workspace call graph. Returns {key: (pred_key, how, call)}."""
        pred = {}
        work = []
        for k in entry_keys:
            if k not in pred:
                pred[k] = (None, "entry", None)
                work.append(k)
        while work:
            k = work.pop()
            if stop(k):
                continue
            for (ck, call, how) in self.edges(self.bodies[k]):
                if ck not in pred:
                    pred[ck] = (k, how, call)
                    work.append(ck)
        return pred

    def path_to(self, pred, key):
        out = []
        while key is not None:
            p, how, call = pred[key]
            out.append((self.bodies[key]["path"], how, call.ln if call else None))
            key = p
        return list(reversed(out))

    def stats(self):
        return {
            "crates": {c: {"bodies": d["n_bodies"], "hir_fns": len(d["hir"]), "adts": len(d["adts"]), "cfg": d["cfg"]} for c, d in self.crates.items()},
            "configurations": self.configs,
            "call_sites": sum(len(self.calls(b)) for b in self.bodies.values()),
            "rustc": next(iter(self.crates.values()))["rustc"],
            "new_functions_inlined": getattr(self, "inlined", [])[:40],
        }


def _operands_of_rvalue(r):
    k = r.get("k")
    if k in ("use", "cast", "repeat"):
        return [r["op"]]
    if k == "binop":
        return [r["a"], r["b"]]
    if k == "unop":
        return [r["a"]]
    if k == "agg":
        return r["ops"]
    return []


_FB = {}


def load(config="default", **kw):
    if config not in _FB:
        d = _extract.extract(config, **kw)
        _FB[config] = FactBase(d, expected=_extract.CONFIGS.get(config, {}).get("crates"))
        import inline
        inline.apply(_FB[config])
    return _FB[config]
