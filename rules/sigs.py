"""Signature payload layout: abstract evaluation of a straight-line byte-buffer builder (MIR) into a token sequence.

Tokens (parameters are named by position, `arg1`.. so that renaming them does not matter):
  lit:<bytes>            a constant byte string
  argN[.field]           the bytes of a parameter (payload / previous signature slices; to_vec is transparent)
  le32(x)                x.to_le_bytes() for a 32-bit integer x
  alg(p)                 PublicKey::algorithm(p) as i32
  keybytes(p)            PublicKey::to_bytes(p)
  sigbytes(s)            Signature::to_bytes(s)
  argN?                  the payload of an Option parameter inside `if let Some(..)`
A token appended in a block that does not dominate the return is optional and printed in [brackets]."""
import re
from facts import CheckerError
from reach import def_index
from zones import cfg

APPEND = re.compile(r"(Extend<.*>>::extend|Vec::<T, A>::extend_from_slice|Vec::<T, A>::append|Vec::<T, A>::push)$")


class Layout:
    def __init__(self, fb, body):
        self.fb, self.b = fb, body
        self.defs = def_index(body)

    def single(self, l):
        ds = [d for d in self.defs.get(l, []) if d[0] in ("assign", "call")]
        return ds[0] if len(ds) == 1 and len(self.defs.get(l, [])) == 1 else None

    def place(self, pl, depth=0):
        l = pl["l"]
        proj = [p for p in (pl.get("p") or []) if p != "*"]
        base = None
        if 1 <= l <= self.b["argc"]:
            base = f"arg{l}"
        elif depth < 30:
            d = self.single(l)
            if d:
                kind, r, bb, _ = d
                if kind == "assign":
                    rk = r.get("k")
                    if rk in ("ref", "rawptr"):
                        base = self.place(r["pl"], depth + 1)
                    elif rk in ("use", "cast"):
                        base = self.operand(r["op"], depth + 1)
                    elif rk == "discr":
                        inner = self.place(r["pl"], depth + 1)
                        base = inner  # discriminant of alg(x) keeps the alg(x) name
                elif kind == "call":
                    base = self.call(r, depth + 1)
        if base is None:
            base = f"_{l}"
        out = base
        for p in proj:
            if p == "as Some":
                out += "?"
            elif p == ".0" and out.endswith("?"):
                pass
            elif p.startswith("."):
                out += p
            elif p.startswith("["):
                out += "[]"
        return out

    def operand(self, op, depth=0):
        k = op.get("k")
        if k == "const":
            v = op.get("v", "")
            if v.startswith('b"') or v.startswith('"'):
                return "lit:" + v
            if "int" in op:
                return f"const:{op['int']}"
            return "const:" + v
        if k in ("copy", "move"):
            return self.place(op["pl"], depth)
        return "?"

    def call(self, t, depth):
        f = t["f"]
        if f.get("k") != "fn":
            return "call:<indirect>"
        p = f["fn"].get("rpath", f["fn"]["path"])
        a = [self.operand(x, depth + 1) for x in t["a"]]
        a0 = a[0] if a else "?"
        # calling a closure that was created here (`f(key)` with `f = |k| k.private().to_bytes()`): the closure's result, with its
        # captures and parameters replaced by what they stand for at the call
        if re.search(r"(FnOnce|FnMut|Fn)(<.*>>)?::(call_once|call_mut|call)$", p) and len(t["a"]) == 2 and depth < 20:
            cl = self._closure_of(t["a"][0])
            if cl is not None:
                cb, caps = cl
                ret = Layout(self.fb, cb).place({"l": 0})
                tup = t["a"][1]
                targs = []
                if tup.get("k") in ("copy", "move") and not tup["pl"].get("p"):
                    dt = self.single(tup["pl"]["l"])
                    if dt and dt[0] == "assign" and dt[1].get("k") == "agg":
                        targs = [self.operand(o, depth + 1) for o in dt[1].get("ops") or []]
                def sub_(m_):
                    if m_.group(1) == "1":
                        n_ = m_.group(2)
                        return self.operand(caps[int(n_[1:])], depth + 1) if n_ and n_[1:].isdigit() and int(n_[1:]) < len(caps) else m_.group(0)
                    i_ = int(m_.group(1)) - 2
                    return (targs[i_] if i_ < len(targs) else m_.group(0)) + (m_.group(2) or "")
                return re.sub(r"\barg(\d+)(\.\d+)?", sub_, ret)
        if re.search(r"(<impl \[T\]>::to_vec|ToOwned>::to_owned|Clone>::clone|Option::<T>::as_ref|Deref>::deref|AsRef<.*>>::as_ref|Vec::<T, A>::as_slice|Borrow<.*>>::borrow|::into_iter|::iter|Into<.*>>::into|From<.*>>::from)$", p):
            return a0
        if p.endswith("crypto::Signature::to_bytes"):
            return f"sigbytes({a0})"
        if re.search(r"crypto::PublicKey::to_bytes$", p):
            return f"keybytes({a0})"
        if re.search(r"crypto::PublicKey::algorithm$", p):
            return f"alg({a0})"
        m = re.search(r"num::<impl ([iu])(\d+)>::to_(le|be|ne)_bytes$", p)
        if m:
            return f"{m.group(3)}{m.group(2)}({a0})"
        return "call:" + p.split("::")[-1] + "(" + ", ".join(a) + ")"

    def _closure_of(self, op, depth=0):
        """(closure body, captured operands) when the operand is a closure created in this body (through moves / refs)"""
        if op.get("k") not in ("copy", "move") or depth > 6:
            return None
        d = self.single(op["pl"]["l"])
        if not d or d[0] != "assign":
            return None
        r = d[1]
        if r.get("k") == "agg" and r.get("ak") == "closure" and r.get("closure") in self.fb.bodies:
            return self.fb.bodies[r["closure"]], r.get("ops") or []
        if r.get("k") == "use":
            return self._closure_of(r["op"], depth + 1)
        if r.get("k") == "ref":
            return self._closure_of({"k": "copy", "pl": {"l": r["pl"]["l"]}}, depth + 1)
        return None

    def sequence(self):
        b = self.b
        g = cfg(b)
        # the buffer: the local moved into _0 at the return
        ret = [i for i, blk in enumerate(b["blocks"]) if (blk.get("t") or {}).get("k") == "return" and not blk.get("cleanup")]
        if len(ret) != 1:
            raise CheckerError(f"layout: {b['path']} has {len(ret)} return blocks")
        R = ret[0]
        buf = None
        wrap = set()     # locals of a single-field wrapper type around the buffer (`struct TaggedPayload(Vec<u8>)` threaded by value)
        def newtype_src(pl):
            """`(w.0)` with nothing else: the only field of a wrapper"""
            return pl.get("p") == [".0"]
        for s in b["blocks"][R]["s"]:
            if s["d"]["l"] == 0 and not s["d"].get("p") and s["r"].get("k") == "use" and s["r"]["op"].get("k") == "move":
                if not s["r"]["op"]["pl"].get("p"):
                    buf = s["r"]["op"]["pl"]["l"]
                elif newtype_src(s["r"]["op"]["pl"]):
                    wrap.add(s["r"]["op"]["pl"]["l"])        # `.. .0` as the tail expression
        if buf is None and not wrap:
            # the move into _0 may sit in another block (code inlined from a helper that returned the buffer): a single `_0 = move x`
            movs = [s for blk in b["blocks"] for s in blk["s"] if s["d"]["l"] == 0 and not s["d"].get("p") and s["r"].get("k") == "use" and s["r"]["op"].get("k") == "move" and not s["r"]["op"]["pl"].get("p")]
            if len(movs) == 1:
                buf = movs[0]["r"]["op"]["pl"]["l"]
            else:
                # `_0 = move (w.0)`: the buffer is unwrapped at the end (`fn finish(self) -> Vec<u8> { self.0 }`, inlined)
                movs = [s for blk in b["blocks"] for s in blk["s"] if s["d"]["l"] == 0 and not s["d"].get("p") and s["r"].get("k") == "use" and s["r"]["op"].get("k") == "move" and newtype_src(s["r"]["op"]["pl"])]
                if len(movs) == 1:
                    wrap.add(movs[0]["r"]["op"]["pl"]["l"])
        # the buffer may change hands through whole-value moves (`let mut v = header(..); ..; v` with the header inlined):
        # all locals connected by `a = move b` are one buffer; `w = Wrapper(move b)` / `b = move (w.0)` wrap and unwrap it
        alias = {buf} if buf is not None else set()
        changed = buf is not None or bool(wrap)
        def fresh(l_):
            return l_ not in alias and l_ not in wrap and l_ != 0 and not (1 <= l_ <= b["argc"])
        while changed:
            changed = False
            for blk in b["blocks"]:
                for s in blk["s"]:
                    rv = s["r"]
                    if s["d"].get("p"):
                        continue
                    a_ = s["d"]["l"]
                    if rv.get("k") == "use" and rv["op"].get("k") == "move":
                        spl = rv["op"]["pl"]
                        b_ = spl["l"]
                        if not spl.get("p"):
                            if a_ in alias and fresh(b_):
                                alias.add(b_); changed = True
                            elif a_ in wrap and fresh(b_):
                                wrap.add(b_); changed = True
                        elif newtype_src(spl) and a_ in alias and fresh(b_):
                            wrap.add(b_); changed = True
                    elif rv.get("k") == "agg" and rv.get("ak") == "adt" and a_ in wrap and len(rv.get("ops") or []) == 1:
                        o_ = rv["ops"][0]
                        if o_.get("k") == "move" and not o_["pl"].get("p") and fresh(o_["pl"]["l"]):
                            alias.add(o_["pl"]["l"]); changed = True
        self._wrap = wrap
        self._alias = alias
        if buf is None and not alias:
            # `fn f(..) -> Vec<u8> { g(..) }`: the payload is built by another generator - inline it
            for p_ in g["pred"][R] + [R]:
                t = b["blocks"][p_].get("t") or {}
                if t.get("k") == "call" and t.get("d") and t["d"]["l"] == 0 and not t["d"].get("p"):
                    ex = self.expand_call(t)
                    if ex is not None:
                        return ex
            raise CheckerError(f"layout: cannot find the returned buffer in {b['path']}")
        # any loop => not a straight-line builder
        order = self._rpo(g)
        tokens = []
        def handover(d):
            """a definition that only passes the buffer on: whole move inside the class, wrapping, unwrapping"""
            if d[0] != "assign":
                return False
            rv = d[1]
            if rv.get("k") == "use" and rv["op"].get("k") == "move":
                return rv["op"]["pl"]["l"] in alias or rv["op"]["pl"]["l"] in wrap
            if rv.get("k") == "agg" and len(rv.get("ops") or []) == 1 and rv["ops"][0].get("k") == "move":
                return rv["ops"][0]["pl"]["l"] in alias
            return False
        init = [d for a_ in sorted(alias | wrap) for d in self.defs.get(a_, []) if d[0] in ("assign", "call") and not handover(d)]
        if len(init) != 1:
            raise CheckerError(f"layout: buffer of {b['path']} has {len(init)} initialisations")
        kind, r, bb0, _ = init[0]
        opt0 = not (R in g["dom"] and bb0 in g["dom"][R])
        ex = self.expand_call(r) if kind == "call" else None
        if ex is not None:
            tokens.extend((tok, o or opt0) for tok, o in ex)
        elif kind == "call" and r["f"].get("k") == "fn" and re.search(r"Vec::<T>::new$|Vec::<T>::with_capacity$|Default>::default$", r["f"]["fn"].get("rpath", r["f"]["fn"]["path"])):
            pass              # the buffer starts empty: every byte comes from an append below
        else:
            first = self.call(r, 0) if kind == "call" else self.operand(r.get("op", {}), 0)
            tokens.append((first, opt0))
        mutrefs = {}
        for blk in b["blocks"]:
            for s in blk["s"]:
                if s["r"].get("k") == "ref" and s["r"].get("mut") and ((s["r"]["pl"]["l"] in alias and not s["r"]["pl"].get("p")) or (s["r"]["pl"]["l"] in wrap and newtype_src(s["r"]["pl"]))):
                    mutrefs[s["d"]["l"]] = True
        # the reference may be handed on (`append_key(&mut buf, ..)` with the helper inlined: `p = move r`, `q = &mut (*p)`)
        grew = True
        while grew:
            grew = False
            for blk in b["blocks"]:
                for s in blk["s"]:
                    if s["d"].get("p") or s["d"]["l"] in mutrefs:
                        continue
                    rv = s["r"]
                    if rv.get("k") == "use" and rv["op"].get("k") in ("move", "copy") and not rv["op"]["pl"].get("p") and rv["op"]["pl"]["l"] in mutrefs:
                        mutrefs[s["d"]["l"]] = True; grew = True
                    elif rv.get("k") == "ref" and rv.get("mut") and rv["pl"].get("p") == ["*"] and rv["pl"]["l"] in mutrefs:
                        mutrefs[s["d"]["l"]] = True; grew = True
        for i in order:
            t = b["blocks"][i].get("t") or {}
            if t.get("k") != "call" or t["f"].get("k") != "fn":
                continue
            p = t["f"]["fn"].get("rpath", t["f"]["fn"]["path"])
            a = t["a"]
            if a and a[0].get("k") in ("copy", "move") and a[0]["pl"]["l"] in mutrefs:
                if APPEND.search(p):
                    tokens.append((self.operand(a[1]), not (i in g["dom"][R])))
                else:
                    raise CheckerError(f"layout: unrecognised mutation of the payload buffer in {b['path']}: {p}")
        return tokens

    def expand_call(self, t, depth=0):
        """A payload generator that starts from (or returns) the output of another payload generator of the workspace: the callee's
        token sequence with its parameters replaced by the actual arguments. None when the callee is not such a generator."""
        f = t.get("f") or {}
        if f.get("k") != "fn" or depth > 3:
            return None
        p = f["fn"].get("rpath", f["fn"]["path"])
        cb = self.fb.bodies.get(f["fn"].get("rkey", f["fn"]["key"]))
        if cb is None or not re.search(r"crypto::generate_\w*payload\w*$", p):
            return None
        sub = Layout(self.fb, cb).sequence()
        actual = [self.operand(x) for x in t["a"]]
        # an argument that is the constant `None`: whatever the callee appends under `if let Some(..) = argN` is never appended
        none_args = set()
        for i_, x in enumerate(t["a"]):
            if x.get("k") in ("copy", "move") and not x["pl"].get("p"):
                d_ = self.single(x["pl"]["l"])
                if d_ and d_[0] == "assign" and d_[1].get("k") == "agg" and d_[1].get("variant") == "None":
                    none_args.add(i_ + 1)
            elif x.get("k") == "const" and "None" in str(x.get("v", "")):
                none_args.add(i_ + 1)
        if none_args:
            sub = [(tok, o) for tok, o in sub if not any(re.search(rf"\barg{n_}\?", tok) for n_ in none_args)]
        def subst(tok):
            return re.sub(r"\barg(\d+)\b", lambda m_: actual[int(m_.group(1)) - 1] if int(m_.group(1)) - 1 < len(actual) else m_.group(0), tok)
        return [(subst(tok), o) for tok, o in sub]

    def _rpo(self, g):
        seen, out = set(), []

        def dfs(x):
            seen.add(x)
            for s in g["succ"][x]:
                if s not in seen:
                    dfs(s)
            out.append(x)

        dfs(0)
        order = list(reversed(out))
        pos = {b: i for i, b in enumerate(order)}
        for x in order:
            for s in g["succ"][x]:
                if pos.get(s, 0) <= pos[x]:
                    raise CheckerError(f"layout: loop in payload generator {self.b['path']}")
        return order


def layout(fb, body):
    return [f"[{t}]" if opt else t for t, opt in Layout(fb, body).sequence()]
