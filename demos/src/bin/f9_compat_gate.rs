// F9 (C16): a block whose declared version is lower than a feature it contains must be refused at load.
use biscuit_auth::{builder::*, format::convert::*, *};
fn main() {
    let mut defect = false;
    for (name, src) in [("null term", "n(null);"), ("array", "a([1]);"), ("closure", "check if [1].any($x -> $x == 1);"), ("reject if", "reject if a(1);")] {
        let b = BlockBuilder::new().code(src).unwrap();
        let root = KeyPair::new();
        let token = Biscuit::builder().merge(b).build(&root).unwrap();
        let _ = token;
        // take the block the builder produced and re-declare it
        let t2 = Biscuit::builder().code(src).unwrap().build(&root).unwrap();
        let bytes = t2.to_vec().unwrap();
        let proto = <biscuit_auth::format::schema::Biscuit as prost::Message>::decode(&bytes[..]).unwrap();
        let mut blk = <biscuit_auth::format::schema::Block as prost::Message>::decode(&proto.authority.block[..]).unwrap();
        let declared = blk.version;
        let mut line = format!("{:10} built as {:?}:", name, declared);
        for v in [3u32, 4, 5, 6] {
            blk.version = Some(v);
            let r = proto_block_to_token_block(&blk, None);
            line += &format!(" v{}={}", v, if r.is_ok() { "accepted" } else { "refused" });
            if v < 6 && r.is_ok() { defect = true }
        }
        println!("{}", line);
    }
    if defect { println!("DEFECT under-declared block accepted") } else { println!("OK"); std::process::exit(1) }
}
