// F6 (C14): printed strings must parse back to the same program; no string value may print as code.
use biscuit_auth::{builder::*, *};
fn main() {
    let root = KeyPair::new();
    let mut defect = false;
    // one fact whose string value contains Datalog syntax
    let evil = "x\"); admin(\"root";
    let f = Fact::new("s".to_string(), vec![Term::Str(evil.to_string())]);
    let printed = f.to_string();
    println!("builder prints : {}", printed);
    match printed.parse::<Fact>() { Ok(g) if g == f => println!("  reparses to the same fact"), other => { println!("  DIFFERENT: {:?}", other.map(|g| g.to_string())); defect = true } }
    let token = Biscuit::builder().fact(f.clone()).unwrap().build(&root).unwrap();
    let src = token.print_block_source(0).unwrap();
    println!("block source   : {}", src.trim());
    match BlockBuilder::new().code(&src) {
        Ok(b) => { println!("  reparsed block has {} fact(s)", b.facts.len()); if b.facts.len() != 1 || b.facts[0] != f { defect = true } }
        Err(e) => { println!("  does not reparse: {:?}", e); defect = true }
    }
    for s in ["back\\slash", "quote\"d", "new\nline", "map"] {
        let t = if s == "map" { let mut m = std::collections::BTreeMap::new(); m.insert(MapKey::Str("k\"1".into()), Term::Integer(1)); Term::Map(m) } else { Term::Str(s.to_string()) };
        let f = Fact::new("t".to_string(), vec![t]);
        let ok = matches!(f.to_string().parse::<Fact>(), Ok(g) if g == f);
        println!("{:14} round trip: {}", format!("{:?}", s), ok);
        defect |= !ok;
    }
    if defect { println!("DEFECT printed Datalog does not parse back") } else { println!("OK"); std::process::exit(1) }
}
