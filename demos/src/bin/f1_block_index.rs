// F1 (C09): print_block_source(block_count()) must return Err, not panic.
use biscuit_auth::{builder::*, *};
fn main() {
    let root = KeyPair::new();
    let b = Biscuit::builder().fact("a(1)").unwrap().build(&root).unwrap();
    let b = b.append(BlockBuilder::new().fact("b(2)").unwrap()).unwrap();
    let n = b.block_count(); // 2 : valid indices are 0 and 1
    let r = std::panic::catch_unwind(|| b.print_block_source(n));
    let u = UnverifiedBiscuit::from(&b.to_vec().unwrap()).unwrap();
    let r2 = std::panic::catch_unwind(|| u.print_block_source(n));
    match (r, r2) {
        (Ok(Err(_)), Ok(Err(_))) => { println!("OK both return Err"); std::process::exit(1) }
        (a, b) => { println!("DEFECT verified panicked={} unverified panicked={}", a.is_err(), b.is_err()); }
    }
}
