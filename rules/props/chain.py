"""Rules about the signature chain shared by C01, C02, C07, C08, C15."""
import json, os, re
import hirq, mirq, sigs
from facts import CheckerError, find_all
from zones import cfg
from props.c05 import strip, is_local, mcalls

ORACLE = os.path.join(os.path.dirname(os.path.abspath(__file__)), "..", "..", "oracle", "signature_layout.json")
C = "biscuit_auth::crypto"
F = "biscuit_auth::format::SerializedBiscuit"


def oracle():
    return json.load(open(ORACLE))


# ------------------------------------------------------------------------------------------------ LAYOUT
def layout_rules(fb, ctx, only=None):
    orc = oracle()
    n = 0
    for g, spec in orc["generators"].items():
        if only and not any(o in g for o in only):
            continue
        b = fb.body(g)
        got = sigs.layout(fb, b)
        n += 1
        want = spec["layout"]
        if got != want:
            # first differing position
            i = next((k for k in range(max(len(got), len(want))) if k >= len(got) or k >= len(want) or got[k] != want[k]), 0)
            ctx.fail("LAYOUT", g.split("::")[-1], f"LAYOUT|{g.split('::')[-1]}", f"signed byte layout differs from the specification at element {i}: code has {got[i] if i < len(got) else '<nothing>'}, specification has {want[i] if i < len(want) else '<nothing>'} (full: {got})", f"{b['file']}:{b['line']}")
        else:
            ctx.ok("LAYOUT", g.split("::")[-1], f"{b['file']}:{b['line']}", " ++ ".join(got))
    return n


# ------------------------------------------------------------------------------------------------ DISPATCH + ARGS
def dispatch_rules(fb, ctx, only=None):
    orc = oracle()
    for fn, spec in orc["dispatch"].items():
        if only and fn.split("::")[-1] not in only:
            continue
        b = fb.body(fn)
        h = fb.hir_of(b)
        ms = [m for m in hirq.matches_in(h["body"]) if (m.get("sty") or "") == "u32"]
        short = fn.split("::")[-1]
        if len(ms) != 1:
            ctx.fail("DISPATCH", short, f"DISPATCH|{short}", f"expected one `match <version>` in {short}, found {len(ms)}", f"{b['file']}:{b['line']}")
            continue
        m = ms[0]
        arms = {}
        default_ok = False
        for arm in m["arms"]:
            vs = hirq.pat_variants(arm["pat"])
            for v in vs:
                if v.startswith("lit:"):
                    gens = [c.split("::")[-1] for c in hirq.callee_paths(arm["body"]) if "generate_" in c]
                    arms[v[4:]] = gens
                elif v == "_":
                    default_ok = bool(hirq.err_variant(arm["body"]))
        want = spec["arms"]
        ok = default_ok and set(arms) == set(want) and all(arms[k] == [want[k]] for k in want)
        ctx.check(ok, "DISPATCH", f"{short}: version -> payload generator", f"DISPATCH|{short}", f"expected arms {want} and `_ => Err`, found {arms} (default returns Err: {default_ok})", f"{b['file']}:{m['ln']}")
        # arguments handed to the generators
        L = sigs.Layout(fb, b)
        # (a generator may be called from a closure created here - `versioned(version, || generate_v0(..), || generate_v1(..))`:
        #  its arguments are then captured variables, rendered as the operands the closure was built from)
        sites = [(b, c, None) for c in fb.calls(b)]
        for blk_ in b["blocks"]:
            for st_ in blk_["s"]:
                if st_["r"].get("k") == "agg" and st_["r"].get("ak") == "closure" and st_["r"].get("closure") in fb.bodies:
                    sites += [(fb.bodies[st_["r"]["closure"]], c, st_["r"].get("ops") or []) for c in fb.calls(fb.bodies[st_["r"]["closure"]])]
        for owner, c, caps in sites:
            if c.indirect or "generate_" not in (c.rpath or ""):
                continue
            g = c.rpath.split("::")[-1]
            if caps is None:
                got = [L.operand(a) for a in c.args]
            else:
                Lc, got = sigs.Layout(fb, owner), []
                for a in c.args:
                    txt = Lc.operand(a)
                    got.append(re.sub(r"\barg1\.(\d+)", lambda m_: L.operand(caps[int(m_.group(1))]) if int(m_.group(1)) < len(caps) else m_.group(0), txt))
            wanta = spec["args"].get(g)
            ctx.check(got == wanta, "ARGS", f"{short} -> {g}", f"ARGS|{short}|{g}", f"generator called with {got}, expected {wanta}", f"{b['file']}:{c.ln}")
        # the signature that is checked / produced is over that payload
        if short.startswith("verify_"):
            vs = mirq.calls_matching(fb, b, r"crypto::PublicKey::verify_signature$")
            good = [v for v in vs if L.operand(v.args[0]) == "arg2" and "generate_" in "".join(mirq.operand_leaves(fb, b, v.args[1])) and L.operand(v.args[2]) == "arg1.signature"]
            ctx.check(len(good) >= 1, "ARGS", f"{short}: verify_signature(public_key, payload, block.signature)", f"ARGS|{short}|verify", "the chain signature is not verified with the given key over the generated payload against block.signature", f"{b['file']}:{b['line']}")
            if good:
                mirq.must_pass(fb, ctx, b, r"crypto::PublicKey::verify_signature$", "PASS", f"{short} returns Ok only after verify_signature succeeded", f"PASS|{short}|verify")
        else:
            ss = mirq.calls_matching(fb, b, r"crypto::KeyPair::sign$")
            good = [v for v in ss if L.operand(v.args[0]) == "arg1" and "generate_" in "".join(mirq.operand_leaves(fb, b, v.args[1]))]
            ctx.check(len(good) == 1, "ARGS", f"{short}: keypair.sign(payload)", f"ARGS|{short}|sign", "the block is not signed with the given key pair over the generated payload", f"{b['file']}:{b['line']}")


def external_rules(fb, ctx):
    """verify_external_signature and its two callers / the third-party signer."""
    b = fb.body(C + "::verify_external_signature")
    h = fb.hir_of(b)
    L = sigs.Layout(fb, b)
    ms = [m for m in hirq.matches_in(h["body"]) if "ThirdPartyVerificationMode" in (m.get("sty") or "")]
    arms = {}
    for m in ms[:1]:
        for arm in m["arms"]:
            for v in hirq.pat_variants(arm["pat"]):
                arms[(v or "").split("::")[-1]] = [c.split("::")[-1] for c in hirq.callee_paths(arm["body"]) if "generate_" in c]
    want = {"UnsafeLegacy": ["generate_external_signature_payload_v0"], "PreviousSignatureHashing": ["generate_external_signature_payload_v1"]}
    ctx.check(arms == want, "DISPATCH", "verify_external_signature: mode -> payload generator", "DISPATCH|verify_external_signature", f"expected {want}, found {arms}", f"{b['file']}:{b['line']}")
    for c in fb.calls(b):
        if c.indirect or "generate_external" not in (c.rpath or ""):
            continue
        g = c.rpath.split("::")[-1]
        got = [L.operand(a) for a in c.args]
        wanta = {"generate_external_signature_payload_v0": ["arg1", "arg2"], "generate_external_signature_payload_v1": ["arg1", "sigbytes(arg3)", "arg5"]}[g]
        ctx.check(got == wanta, "ARGS", f"verify_external_signature -> {g}", f"ARGS|verify_external_signature|{g}", f"generator called with {got}, expected {wanta} (payload, previous signature, version)", f"{b['file']}:{c.ln}")
    vs = mirq.calls_matching(fb, b, r"crypto::PublicKey::verify_signature$")
    good = [v for v in vs if L.operand(v.args[0]) == "arg4.public_key" and L.operand(v.args[2]) == "arg4.signature"]
    ctx.check(len(good) == 1, "ARGS", "external signature checked under the external key", "ARGS|verify_external_signature|verify", "verify_signature must be called on external_signature.public_key with external_signature.signature", f"{b['file']}:{b['line']}")
    # verify_block_signature re-checks it against the actual previous block
    vb = fb.body(C + "::verify_block_signature")
    Lb = sigs.Layout(fb, vb)
    ex = mirq.calls_matching(fb, vb, r"crypto::verify_external_signature$")
    if len(ex) != 1:
        ctx.fail("PASS", "verify_block_signature re-checks the external signature", "PASS|verify_block_signature|external", f"expected one call to verify_external_signature, found {len(ex)}", f"{vb['file']}:{vb['line']}")
    else:
        got = [Lb.operand(a) for a in ex[0].args]
        want = ["arg1.data", "arg2", "arg3", "arg1.external_signature?", "arg1.version", "arg4"]
        ctx.check(got == want, "ARGS", "verify_block_signature -> verify_external_signature", "ARGS|verify_block_signature|external", f"called with {got}, expected {want}", f"{vb['file']}:{ex[0].ln}")
        mirq.result_used(fb, ctx, vb, ex[0], "PASS", "result of verify_external_signature is propagated", "PASS|verify_block_signature|external-used")
        # it is called whenever the block carries an external signature: dominated only by the `Some` edge of external_signature
        hb = fb.hir_of(vb)
        guards = [n for n in find_all(hb["body"], lambda n: (n.get("k") == "if" or (n.get("k") == "match" and n.get("src") == "Normal")) and mcalls(n, r"crypto::verify_external_signature$"))]
        conds = []
        for gnode in guards:
            if gnode.get("k") == "if":
                c = strip(gnode["cond"])
                conds.append(c)
        simple = len(guards) == 1 and len(conds) == 1 and conds[0].get("k") == "letexpr" and hirq.pat_variants(conds[0]["pat"]) == {"std::prelude::v1::Some"} and not [s for s in hirq.subpatterns(conds[0]["pat"]) if s.get("k") not in ("bind", "wild")] and strip(conds[0]["init"]).get("k") == "mcall" and strip(strip(conds[0]["init"])["recv"]).get("name") == "external_signature"
        if not simple:
            # the same guard in its other spellings: the tested value may be bound to a variable first
            # (`let ext = block.external_signature.as_ref();`), and the test may be a two-arm `match` (`Some(sig) => verify_external(..),
            # None => Ok(())`) or a `let Some(sig) = .. else { return Ok(()) }` before the call
            is_call = lambda z: bool(mcalls(z, r"crypto::verify_external_signature$"))
            ext_lets_holder = [set()]
            def is_ext(e_):
                e_ = strip(e_)
                while isinstance(e_, dict) and e_.get("k") == "mcall" and e_.get("name") in ("as_ref", "as_deref") and not e_.get("args"):
                    e_ = strip(e_["recv"])
                return isinstance(e_, dict) and ((e_.get("k") == "field" and e_.get("name") == "external_signature") or hirq.is_lid(e_, ext_lets_holder[0]))
            ext_lets_holder[0] = hirq.let_ids(hb["body"], is_ext)
            some_only = lambda p_: {(v or "").split("::")[-1] for v in hirq.pat_variants(p_)} == {"Some"} and not [s_ for s_ in hirq.subpatterns(p_) if s_.get("k") not in ("bind", "wild")]
            if len(guards) == 1 and guards[0].get("k") == "if":
                c_ = strip(guards[0]["cond"])
                simple = c_.get("k") == "letexpr" and some_only(c_["pat"]) and is_ext(c_["init"]) and is_call(guards[0]["then"]) and not (guards[0].get("else") and is_call(guards[0]["else"]))
            elif len(guards) == 1 and guards[0].get("k") == "match":
                g_ = guards[0]
                with_call = [a_ for a_ in g_["arms"] if is_call(a_["body"])]
                simple = is_ext(g_["scrut"]) and len(g_["arms"]) == 2 and len(with_call) == 1 and some_only(with_call[0]["pat"]) and with_call[0].get("guard") is None
            elif not guards:
                le = [l_ for l_ in find_all(hb["body"], lambda z: z.get("k") == "let" and z.get("els") is not None and z.get("init") is not None and is_ext(z["init"]))]
                simple = len(le) == 1 and some_only(le[0]["pat"]) and bool(find_all(le[0]["els"], lambda z: z.get("k") == "ret" and (hirq.ctor_name(strip(z.get("e") or {})) or "").endswith("::Ok")))
        ctx.check(simple, "PASS", "every block with an external signature is re-checked", "PASS|verify_block_signature|external-guard", "verify_external_signature must run under exactly `if let Some(sig) = block.external_signature.as_ref()` (no further condition)", f"{vb['file']}:{ex[0].ln}")


# ------------------------------------------------------------------------------------------------ chain walk
def cut_reach(body, cut_edges, start=0):
    g = cfg(body)
    seen, st = set(), [start]
    while st:
        x = st.pop()
        if x in seen:
            continue
        seen.add(x)
        for s in g["succ"][x]:
            if (x, s) not in cut_edges:
                st.append(s)
    return seen


def verify_inner_rules(fb, ctx):
    b = fb.body(F + "::verify_inner")
    L = sigs.Layout(fb, b)
    where = f"{b['file']}:{b['line']}"
    rets = [bb for bb, k, _ in mirq.value_return_blocks(b)]
    if not rets:
        raise CheckerError("verify_inner: no Ok return")
    # 1. authority
    mirq.must_pass(fb, ctx, b, r"crypto::verify_authority_block_signature$", "PASS", "verify_inner: authority block verified first", "PASS|verify_inner|authority")
    au = mirq.calls_matching(fb, b, r"crypto::verify_authority_block_signature$")
    if au:
        got = [L.operand(au[0].args[0]), {l for l in mirq.leaves_at(fb, b, au[0].args[1], au[0].bb) if l.startswith("arg")}]
        ctx.check(got[0] == "arg1.authority" and got[1] == {"arg2"}, "ARGS", "verify_inner: authority verified under the root key only", "ARGS|verify_inner|authority", f"verify_authority_block_signature called with ({got[0]}, key depending on {sorted(got[1])}), expected (self.authority, root)", f"{b['file']}:{au[0].ln}")
    # 2. every loop iteration verifies its block before moving on
    vb = mirq.calls_matching(fb, b, r"crypto::verify_block_signature$")
    if len(vb) != 1:
        ctx.fail("PASS", "verify_inner: one verify_block_signature per block", "PASS|verify_inner|block", f"expected one call site in the loop, found {len(vb)}", where)
        return
    c = vb[0]
    e = mirq.success_edge(fb, b, c)
    g = cfg(b)
    from order import scc_of
    loop = scc_of(b, c.bb)
    ctx.check(bool(loop), "PASS", "verify_block_signature is inside the block loop", "PASS|verify_inner|loop", "the call is not in a loop over self.blocks", f"{b['file']}:{c.ln}")
    if e and loop:
        D, S, errs = e
        # no cycle through the loop that avoids the success edge: cut it and the loop must fall apart
        cut = {(D, S)}
        # blocks reachable from the loop header going round without the success edge
        hdr = min(loop)
        reach = set()
        st = [hdr]
        while st:
            x = st.pop()
            if x in reach:
                continue
            reach.add(x)
            for s in g["succ"][x]:
                if (x, s) not in cut and s in loop:
                    st.append(s)
        back = any(hdr in g["succ"][x] and (x, hdr) not in cut for x in reach if x != hdr or hdr in g["succ"][hdr])
        ctx.check(not back, "PASS", "no loop iteration skips verify_block_signature", "PASS|verify_inner|every-block", "there is a path round the block loop that does not take the success edge of verify_block_signature: some blocks are accepted unverified", f"{b['file']}:{c.ln}")
    else:
        ctx.fail("PASS", "result of verify_block_signature is checked", "PASS|verify_inner|block-used", "the Result of verify_block_signature is not branched on", f"{b['file']}:{c.ln}")
    # wiring of the loop call
    a_block, a_key, a_prev = c.args[0], c.args[1], c.args[2]
    lk = mirq.operand_leaves(fb, b, a_key)
    lp = mirq.operand_leaves(fb, b, a_prev)
    lb = mirq.operand_leaves(fb, b, a_block)
    ctx.check(any(l.startswith("arg1.blocks") for l in lb), "ARGS", "verify_inner: the verified block comes from self.blocks", "ARGS|verify_inner|block", f"first argument depends on {sorted(lb)}", f"{b['file']}:{c.ln}")
    ctx.check(mirq.has_leaf(lk, "arg1.authority.next_key") and any(l.startswith("arg1.blocks") and l.endswith(".next_key") for l in lk) and not any(l.startswith("arg1.blocks") and not l.endswith("next_key") for l in lk if "." in l[11:]), "ARGS", "verify_inner: each block verified under the previous block's next key", "ARGS|verify_inner|key",
              f"key argument depends on {sorted(l for l in lk if not l.startswith('call:'))}; expected the chain {{root, self.authority.next_key, self.blocks[*].next_key}}", f"{b['file']}:{c.ln}")
    ctx.check(mirq.has_leaf(lp, "arg1.authority.signature") and any(l.startswith("arg1.blocks") and l.endswith(".signature") for l in lp), "ARGS", "verify_inner: previous signature is the previous block's signature", "ARGS|verify_inner|prev",
              f"previous-signature argument depends on {sorted(l for l in lp if not l.startswith('call:'))}; expected {{self.authority.signature, self.blocks[*].signature}}", f"{b['file']}:{c.ln}")
    # the loop variable is advanced from the verified block after the call
    # (the key / signature of the block being verified: reads of another block's fields, e.g. of the predecessor handed out by
    #  `once(&self.authority).chain(self.blocks.iter()).zip(self.blocks.iter())`, are not an advance - ARGS above decides them)
    from reach import def_index
    dfs = def_index(b)
    def root(l_):
        for _ in range(12):
            ds = dfs.get(l_, [])
            if len(ds) != 1 or ds[0][0] != "assign":
                return l_
            rv = ds[0][1]
            src = rv["op"]["pl"] if rv.get("k") == "use" and rv["op"].get("k") in ("copy", "move") else (rv["pl"] if rv.get("k") == "ref" else None)
            if src is None or [p_ for p_ in (src.get("p") or []) if p_ != "*"]:
                return l_
            l_ = src["l"]
        return l_
    blk_root = root(a_block["pl"]["l"]) if a_block.get("k") in ("copy", "move") else None
    key_root = root(a_key["pl"]["l"]) if a_key.get("k") in ("copy", "move") else None
    adv, other = [], []
    for i, blk in enumerate(b["blocks"]):
        for s in blk["s"]:
            if s["r"].get("k") == "ref" and (s["r"]["pl"].get("p") or [])[-1:] in ([".next_key"], [".signature"]) and i in loop:
                (adv if blk_root is None or root(s["r"]["pl"]["l"]) == blk_root else other).append(i)
    stateless = not adv and bool(other) and blk_root is not None and key_root is not None and key_root != blk_root
    ok_adv = (bool(adv) or stateless) and e is not None and all(mirq.dominates(b, e[1], i) for i in adv)
    ctx.check(ok_adv, "PASS", "current key / previous signature advance only after a successful verification", "PASS|verify_inner|advance", "current_pub / previous_signature are updated on a path that did not verify the block", f"{b['file']}:{c.ln}")
    # 3. proof
    proof_rules(fb, ctx, b, rets)


def proof_rules(fb, ctx, b, rets):
    g = cfg(b)
    L = sigs.Layout(fb, b)
    where = f"{b['file']}:{b['line']}"
    good_edges = set()
    # Secret arm: comparison of the last next key with private.public()
    cmp_calls = [c for c in fb.calls(b) if not c.indirect and re.search(r"PartialEq.*::(ne|eq)$|cmp::PartialEq::(ne|eq)$", c.rpath or c.path or "")]
    sec = []
    for c in cmp_calls:
        leaves = mirq.operand_leaves(fb, b, c.args[0]) | mirq.operand_leaves(fb, b, c.args[1])
        if any("PrivateKey::public" in l for l in leaves) and any(l.endswith("next_key") or l == "arg2" for l in leaves):
            sec.append(c)
    if len(sec) != 1:
        ctx.fail("PROOF", "secret proof: last next key == public(carried secret)", "PROOF|secret", f"expected one comparison between the last next key and private.public(), found {len(sec)}", where)
    else:
        c = sec[0]
        br = [x for x in mirq.result_branches(fb, b, c) if x[0] == "branch"]
        is_ne = (c.rpath or c.path).endswith("ne")
        if not br:
            ctx.fail("PROOF", "secret proof comparison is branched on", "PROOF|secret-used", "result of the key comparison is ignored", f"{b['file']}:{c.ln}")
        else:
            D, true_t, false_ts = br[0][1], br[0][2], br[0][3]
            good = false_ts[0] if is_ne else true_t
            bad = true_t if is_ne else (false_ts[0] if false_ts else None)
            good_edges.add((D, good))
            ctx.check(bad is not None and mirq.err_return_desc(fb, b, bad), "PROOF", "secret proof: mismatch returns Err", "PROOF|secret-err", "the mismatch edge of the key comparison does not return an error", f"{b['file']}:{c.ln}")
            lk = mirq.operand_leaves(fb, b, c.args[0]) | mirq.operand_leaves(fb, b, c.args[1])
            ctx.check(last_key_leaves(lk), "PROOF", "secret proof compares the *last* next key of the walk", "PROOF|secret-key", f"compared key depends on {sorted(l for l in lk if not l.startswith('call:'))}", f"{b['file']}:{c.ln}")
    # Seal arm
    sealp = mirq.calls_matching(fb, b, r"crypto::generate_seal_signature_payload_v0$")
    vs = [v for v in mirq.calls_matching(fb, b, r"crypto::PublicKey::verify_signature$")]
    if len(sealp) != 1 or len(vs) != 1:
        ctx.fail("PROOF", "seal proof: verify_signature over the seal payload", "PROOF|seal", f"expected one generate_seal_signature_payload_v0 and one verify_signature in verify_inner, found {len(sealp)}/{len(vs)}", where)
    else:
        v = vs[0]
        lv = mirq.operand_leaves(fb, b, v.args[1])
        lk = mirq.operand_leaves(fb, b, v.args[0])
        ls = mirq.operand_leaves(fb, b, v.args[2])
        lblk = mirq.operand_leaves(fb, b, sealp[0].args[0])
        ok = any("generate_seal_signature_payload_v0" in l for l in lv) and (mirq.has_leaf(lk, "arg1.authority.next_key") or last_key_leaves(lk)) and any(l.startswith("arg1.proof") for l in ls) and last_block_leaves(lblk)
        ctx.check(ok, "PROOF", "seal proof: seal signature verified over the last block under the last next key", "PROOF|seal-args", f"verify_signature(key<-{sorted(l for l in lk if l.startswith('arg'))}, payload<-{sorted(l for l in lv if 'generate' in l)}, sig<-{sorted(l for l in ls if l.startswith('arg'))}) over block<-{sorted(l for l in lblk if l.startswith('arg'))}", f"{b['file']}:{v.ln}")
        e = mirq.success_edge(fb, b, v)
        if e:
            good_edges.add((e[0], e[1]))
        elif mirq.returned_directly(b, v):
            # `last_key.verify_signature(..)` is the function's own result: Ok is returned only when the seal verified
            rets = [x for x in rets if x not in mirq.returned_directly(b, v)]
        else:
            ctx.fail("PROOF", "seal proof result is checked", "PROOF|seal-used", "result of verify_signature on the seal is ignored", f"{b['file']}:{v.ln}")
        # last block selection: blocks[len-1] or authority when empty
        hb = fb.hir_of(b)
        idx = [n for n in find_all(hb["body"], lambda n: n.get("k") == "index" and strip(n["e"]).get("k") == "field" and strip(n["e"]).get("name") == "blocks")]
        last_ok = any((lambda i: i.get("k") == "binary" and i.get("op") == "Sub" and hirq.calls(i["a"], r"::len$") and hirq.literal(i["b"]) == 1)(strip(n["idx"])) for n in idx) or bool(mcalls(hb["body"], r"SerializedBiscuit::last_block$|<impl \[T\]>::last$"))
        ctx.check(last_ok, "PROOF", "seal covers the last block", "PROOF|seal-last", "the sealed block is not selected as blocks[len - 1] / last()", where)
    # the Ok(()) return is cut off when both proof edges are cut
    if good_edges:
        r = cut_reach(b, good_edges)
        ctx.check(not any(x in r for x in rets), "PROOF", "Ok(()) only through a successful proof check", "PROOF|pass", "verify_inner can return Ok without the key-equality edge or the seal-verification success edge", where)


def deserialize_then_verify(fb, ctx):
    for fn, vrx in ((F + "::from_slice", r"SerializedBiscuit::verify$"), (F + "::unsafe_from_slice", r"SerializedBiscuit::verify_inner$")):
        b = fb.body(fn)
        short = fn.split("::")[-1]
        ok = mirq.must_pass(fb, ctx, b, vrx, "PASS", f"{short}: Ok(container) only after verify succeeded", f"PASS|{short}|verify")
        vs = mirq.calls_matching(fb, b, vrx)
        if vs:
            # the verified value is the returned value; the key comes from the provider
            L = sigs.Layout(fb, b)
            verified = L.operand(vs[0].args[0])
            returned = None
            for bb, k, item in mirq.value_return_blocks(b):
                if k == "assign" and item["r"].get("k") == "agg":
                    returned = L.operand(item["r"]["ops"][0])
            ctx.check(verified == returned and verified is not None, "ARGS", f"{short}: the container that was verified is the one returned", f"ARGS|{short}|same", f"verified {verified}, returned {returned}", f"{b['file']}:{vs[0].ln}")
            lk = mirq.operand_leaves(fb, b, vs[0].args[1])
            ctx.check(any("choose" in l for l in lk), "ARGS", f"{short}: root key comes from the key provider", f"ARGS|{short}|root", f"root key depends on {sorted(lk)}", f"{b['file']}:{vs[0].ln}")
    # legacy mode only from the unsafe entry points
    legacy_users = []
    for b in fb.bodies.values():
        if b["crate"] != "biscuit_auth" or b.get("exp"):
            continue
        for blk in b["blocks"]:
            for s in blk["s"]:
                r = s["r"]
                if r.get("k") == "agg" and r.get("adt", "").endswith("ThirdPartyVerificationMode") and r.get("variant") == "UnsafeLegacy":
                    legacy_users.append(re.sub(r"(::\{closure#\d+\})+$", "", b["path"]))     # a closure belongs to its function
    allowed = {F + "::verify_inner"}
    extra = sorted(u for u in set(legacy_users) - allowed if "unsafe" not in u.split("::")[-1])
    ctx.check(not extra, "WHO", "UnsafeLegacy verification mode is only selected by the unsafe_* entry point", "WHO|UnsafeLegacy", f"ThirdPartyVerificationMode::UnsafeLegacy constructed in {extra}", "biscuit-auth/src/format/mod.rs")


def mode_selection_rules(fb, ctx):
    """verify_inner chooses the external-signature scheme per block: the legacy scheme (bound only to the previous public key, so
    a third-party block can be replayed on another token) is selected only for (block version 0, caller asked for UnsafeLegacy)."""
    b = fb.body(F + "::verify_inner")
    h = fb.hir_of(b)
    ms = [m for m in hirq.matches_in(h["body"]) if "ThirdPartyVerificationMode" in (m.get("sty") or "")]
    where = f"{b['file']}:{ms[0]['ln'] if ms else b['line']}"
    # EVAL first: the expression that computes the per-block mode = initialiser of the local handed to verify_block_signature
    import absint
    vcalls = [c for c in find_all(h["body"], lambda z: hirq.calls_path(z, r"crypto::verify_block_signature$"))]
    got = None
    if len(vcalls) == 1 and len(vcalls[0].get("args", [])) == 4:
        marg = strip_h(vcalls[0]["args"][3])
        if hirq.is_lid(marg, {marg.get("res", {}).get("id")}) if isinstance(marg, dict) and marg.get("k") == "path" else False:
            mid = marg["res"]["id"]
            lets = [l for l in find_all(h["body"], lambda z: z.get("k") == "let" and isinstance(z.get("pat"), dict) and z["pat"].get("k") == "bind" and z["pat"].get("id") == mid and z.get("init") is not None)]
            p_mode = hirq.param_ids(h, 2)
            if len(lets) == 1 and p_mode:
                try:
                    got = {}
                    for ver in (0, 1):
                        for req in ("UnsafeLegacy", "PreviousSignatureHashing"):
                            fl = absint.free_locals(lets[0]["init"])
                            env = {i_: absint.sym(nm_ or "v") for i_, nm_ in fl.items()}
                            env[list(p_mode)[0]] = absint.C(req)
                            it = absint.Interp(fields={(v_[1], "version"): ver for v_ in env.values() if isinstance(v_, tuple) and v_[0] == "sym"})
                            got[("0" if ver == 0 else "other", req)] = absint.tag(it.run(lets[0]["init"], env)) or "?"
                except absint.Unknown:
                    got = None
    if got is not None:
        want = {("0", "UnsafeLegacy"): "UnsafeLegacy", ("0", "PreviousSignatureHashing"): "PreviousSignatureHashing", ("other", "UnsafeLegacy"): "PreviousSignatureHashing", ("other", "PreviousSignatureHashing"): "PreviousSignatureHashing"}
        ctx.check(got == want, "TABLE", "verify_inner: legacy external signatures only for (version 0, UnsafeLegacy requested)", "TABLE|verify_inner|mode", f"(block version, requested mode) -> scheme is {got}; the specification allows the legacy scheme only in the cell (0, UnsafeLegacy)", where)
        return
    if len(ms) != 1:
        ctx.fail("TABLE", "verify_inner selects the external-signature scheme with one match on (block.version, requested mode)", "TABLE|verify_inner|mode|anchor", f"{len(ms)} matches over ThirdPartyVerificationMode", where)
        return
    m = ms[0]
    M = "biscuit_auth::format::ThirdPartyVerificationMode::"
    table = hirq.cell_table(m, [["lit:0", "lit:other"], [M + "UnsafeLegacy", M + "PreviousSignatureHashing"]])
    got = {}
    for cell, i in table.items():
        body = strip_h(m["arms"][i]["body"])
        got[(cell[0].split(":")[1], cell[1].split("::")[-1])] = (hirq.ctor_name(body) or (body.get("res", {}).get("path") if isinstance(body, dict) and body.get("k") == "path" else None) or "?").split("::")[-1]
    want = {("0", "UnsafeLegacy"): "UnsafeLegacy", ("0", "PreviousSignatureHashing"): "PreviousSignatureHashing", ("other", "UnsafeLegacy"): "PreviousSignatureHashing", ("other", "PreviousSignatureHashing"): "PreviousSignatureHashing"}
    ctx.check(got == want, "TABLE", "verify_inner: legacy external signatures only for (version 0, UnsafeLegacy requested)", "TABLE|verify_inner|mode", f"(block version, requested mode) -> scheme is {got}; the specification allows the legacy scheme only in the cell (0, UnsafeLegacy)", where)


def strip_h(n):
    while isinstance(n, dict) and n.get("k") == "block" and not n.get("stmts") and n.get("expr") is not None:
        n = n["expr"]
    return n


def decode_gates(fb, ctx):
    b = fb.body(F + "::deserialize")
    h = fb.hir_of(b)
    where = f"{b['file']}:{b['line']}"
    # authority must not carry an external signature
    ifs = find_all(h["body"], lambda n: n.get("k") == "if")
    g1 = [n for n in ifs if (lambda c: c.get("k") == "mcall" and c.get("name") == "is_some" and find_all(c["recv"], lambda z: z.get("k") == "field" and z.get("name") == "external_signature") and find_all(c["recv"], lambda z: z.get("k") == "field" and z.get("name") == "authority"))(strip(n["cond"])) and hirq.err_variant(n["then"])]
    ctx.check(len(g1) == 1, "GATE", "authority block with an external signature is refused", "GATE|authority-external", "`if data.authority.external_signature.is_some() { return Err(..) }` not found in deserialize", where)
    au = [s for _, s in mirq.aggregates(b, r"crypto::Block$")]
    # third-party blocks must use the chained signature version
    g2 = []
    for n in ifs:
        c = strip(n["cond"])
        if c.get("k") == "binary" and c.get("op") == "And" and hirq.err_variant(n["then"]):
            l, r = strip(c["a"]), hirq.expand_places(strip(c["b"]), hirq.place_lets(h))       # `let version = block.version;`
            mode_eq = l.get("k") == "binary" and l.get("op") == "Eq" and any((hirq.ctor_name(strip(x)) or "").endswith("PreviousSignatureHashing") for x in (l["a"], l["b"]))
            ver_ne = r.get("k") == "binary" and r.get("op") == "Ne" and find_all(r, lambda z: z.get("k") == "field" and z.get("name") == "version") and find_all(r, lambda z: (z.get("k") == "path" and (z["res"].get("path") or "").endswith("THIRD_PARTY_SIGNATURE_VERSION")) or (z.get("k") == "lit" and z.get("v") == 1))
            if mode_eq and ver_ne:
                g2.append(n)
    ctx.check(len(g2) == 1, "GATE", "third-party block whose signature version is not 1 is refused", "GATE|third-party-version", "`if mode == PreviousSignatureHashing && block.version != Some(THIRD_PARTY_SIGNATURE_VERSION) { return Err }` not found", where)
    if g2:
        # the gate precedes the construction of the ExternalSignature in the same branch
        ex = [n for n in find_all(h["body"], lambda n: n.get("k") == "struct" and hirq.res_path(n["res"]).endswith("crypto::ExternalSignature"))]
        pos_ = lambda n_: (n_["ln"], n_.get("ln0", 0))      # nodes inlined from a helper share the call's line: their own line breaks the tie
        ctx.check(bool(ex) and all(pos_(g2[0]) < pos_(e) for e in ex), "GATE", "version gate precedes the use of the external signature", "GATE|third-party-order", "ExternalSignature is built before the version gate", where)
    # the proof is mandatory and both forms are understood
    pm = [m for m in hirq.matches_in(h["body"]) if "proof::Content" in (m.get("sty") or "")]
    kinds = {}
    for m in pm[:1]:
        for arm in m["arms"]:
            for v in hirq.pat_variants(arm["pat"]):
                sub = hirq.subpatterns(arm["pat"])
                subv = hirq.pat_variants(sub[0]) if sub else set()
                name = ((list(subv)[0] if subv else v) or "").split("::")[-1]
                kinds[name] = bool(hirq.err_variant(arm["body"])) or sorted({hirq.ctor_name(n).split("::")[-1] for n in find_all(arm["body"], lambda n: (hirq.ctor_name(n) or "").startswith("biscuit_auth::crypto::TokenNext::"))})
    ctx.check(kinds.get("None") is True and kinds.get("NextSecret") == ["Secret"] and kinds.get("FinalSignature") == ["Seal"], "GATE", "proof: missing -> Err, NextSecret -> Secret, FinalSignature -> Seal", "GATE|proof", f"found {kinds}", where)
    # the secret is parsed with the algorithm of the *last* next key
    mb = b
    pk = [c for c in fb.calls(mb) if not c.indirect and (c.rpath or "").endswith("crypto::PrivateKey::from_bytes")]
    ok = False
    for c in pk:
        la = mirq.operand_leaves(fb, mb, c.args[1])
        ok = ok or (sum(1 for l in la if "PublicKey::algorithm" in l) >= 1 and (_alg_from_blocks(fb, mb) or (any(re.search(r"authority(\.\w+)*\.next_key$", l) for l in la) and any(re.search(r"blocks(\.\w+)*\.next_key$", l) for l in la))))
    ctx.check(ok, "GATE", "carried secret parsed with the last block's next-key algorithm", "GATE|secret-algorithm", "PrivateKey::from_bytes is not given an algorithm that follows the last block's next key", where)


def _alg_from_blocks(fb, b):
    """the local holding next_key_algorithm is assigned both from the authority's and from each block's next key"""
    cs = [c for c in fb.calls(b) if not c.indirect and (c.rpath or "").endswith("crypto::PublicKey::algorithm")]
    dests = {}
    for c in cs:
        if c.dest is not None and not c.dest.get("p"):
            dests.setdefault(c.dest["l"], []).append(c)
    # either one local assigned twice, or a temp then moved into the same user variable
    targets = {}
    for c in cs:
        d = c.dest["l"]
        # follow a `use` into a named variable
        tgt = d
        for blk in b["blocks"]:
            for s in blk["s"]:
                if s["r"].get("k") == "use" and s["r"]["op"].get("k") in ("move", "copy") and s["r"]["op"]["pl"]["l"] == d and not s["d"].get("p"):
                    tgt = s["d"]["l"]
        targets.setdefault(tgt, []).append(c)
    # equivalent form: computed once after the loop from `blocks.last().unwrap_or(&authority).next_key`
    for c in cs:
        la = mirq.operand_leaves(fb, b, c.args[0])
        if any(re.search(r"::last$", l) for l in la) and any("unwrap_or" in l for l in la):
            return True
    from order import scc_of
    for tgt, calls in targets.items():
        in_loop = [c for c in calls if scc_of(b, c.bb)]
        out_loop = [c for c in calls if not scc_of(b, c.bb)]
        if in_loop and out_loop:
            return True
    return False


# ------------------------------------------------------------------------------------------------ signing side
def signer_rules(fb, ctx):
    """What is stored in the new crypto::Block is what was signed (new_inner, append, append_serialized, seal)."""
    for fn, signer in ((F + "::new_inner", "sign_authority_block"), (F + "::append", "sign_block"), (F + "::append_serialized", "sign_block")):
        b = fb.body(fn)
        short = fn.split("::")[-1]
        L = sigs.Layout(fb, b)
        sc = mirq.calls_matching(fb, b, rf"crypto::{signer}$")
        blks = [s for _, s in mirq.aggregates(b, r"crypto::Block$")]
        if len(sc) != 1 or len(blks) != 1:
            ctx.fail("SIGN", f"{short}: one signing call and one stored block", f"SIGN|{short}|shape", f"found {len(sc)} calls to {signer} and {len(blks)} crypto::Block aggregates", f"{b['file']}:{b['line']}")
            continue
        c, agg = sc[0], blks[0]
        a = [L.operand(x) for x in c.args]
        fld = {n: L.operand(mirq.agg_field(agg, n)) for n in ("data", "next_key", "signature", "external_signature", "version")}
        where = f"{b['file']}:{c.ln}"
        if signer == "sign_authority_block":
            kp, nk, msg, ver = a
            ext_arg, prev = None, None
        else:
            kp, nk, msg, ext_arg, prev, ver = a
        ctx.check(fld["data"] == msg, "SIGN", f"{short}: stored payload is the signed payload", f"SIGN|{short}|data", f"signed {msg}, stored {fld['data']}", where)
        ctx.check(fld["next_key"] == f"call:public({nk})", "SIGN", f"{short}: stored next key is the signed next key", f"SIGN|{short}|next_key", f"signed with next key pair {nk}, stored {fld['next_key']}", where)
        ctx.check(fld["version"] == ver, "SIGN", f"{short}: stored signature version is the one signed with", f"SIGN|{short}|version", f"signed with version {ver}, stored {fld['version']}", where)
        ctx.check(fld["signature"].startswith(f"call:{signer}") or mirq.has_leaf(mirq.operand_leaves(fb, b, mirq.agg_field(agg, "signature")), f"call:crypto::{signer}"), "SIGN", f"{short}: stored signature is the result of {signer}", f"SIGN|{short}|signature", f"stored {fld['signature']}", where)
        if ext_arg is not None:
            ctx.check(fld["external_signature"] == ext_arg, "SIGN", f"{short}: stored external signature is the signed one", f"SIGN|{short}|external", f"signed {ext_arg}, stored {fld['external_signature']}", where)
            ctx.check(prev in ("call:last_block(arg1).signature",) or re.match(r"^call:last_block\(arg1\)\.signature$", prev or "") is not None, "SIGN", f"{short}: previous signature is the last block's signature", f"SIGN|{short}|prev", f"previous signature argument is {prev}", where)
            # signed with the carried secret
            ctx.check(kp.startswith("call:") and "keypair" in kp and "arg1.proof" in kp, "SIGN", f"{short}: signed with the key pair carried in the proof", f"SIGN|{short}|key", f"signing key pair is {kp}", where)
        # the new proof carries the next secret
        tn = [s for _, s in mirq.aggregates(b, r"crypto::TokenNext$")]
        ctx.check(len(tn) == 1 and tn[0]["r"].get("variant") == "Secret" and any("private" in l or "PrivateKey" in l for l in mirq.operand_leaves(fb, b, tn[0]["r"]["ops"][0])) and any(l.startswith(nk.split("(")[-1].rstrip(")")) or l == nk for l in mirq.operand_leaves(fb, b, tn[0]["r"]["ops"][0])), "SIGN", f"{short}: new proof = next secret key", f"SIGN|{short}|proof", "the returned container does not carry TokenNext::Secret(next_keypair.private())", where)
        # existing blocks are preserved
        sb = [s for _, s in mirq.aggregates(b, r"format::SerializedBiscuit$")]
        if short != "new_inner" and sb:
            la = mirq.operand_leaves(fb, b, mirq.agg_field(sb[0], "authority"))
            lbk = mirq.operand_leaves(fb, b, mirq.agg_field(sb[0], "blocks"))
            lr = mirq.operand_leaves(fb, b, mirq.agg_field(sb[0], "root_key_id"))
            ctx.check(mirq.has_leaf(la, "arg1.authority") and mirq.has_leaf(lbk, "arg1.blocks") and mirq.has_leaf(lr, "arg1.root_key_id"), "SIGN", f"{short}: authority, earlier blocks and root key id are carried over", f"SIGN|{short}|preserve", f"authority<-{sorted(l for l in la if l.startswith('arg'))} blocks<-{sorted(l for l in lbk if l.startswith('arg'))[:4]}", where)


def seal_rules(fb, ctx):
    b = fb.body(F + "::seal")
    L = sigs.Layout(fb, b)
    where = f"{b['file']}:{b['line']}"
    gp = mirq.calls_matching(fb, b, r"crypto::generate_seal_signature_payload_v0$")
    sg = mirq.calls_matching(fb, b, r"crypto::KeyPair::sign$")
    ok = len(gp) == 1 and len(sg) == 1
    ctx.check(ok, "SEAL", "seal signs generate_seal_signature_payload_v0(last block)", "SEAL|generator", f"found {len(gp)} calls to generate_seal_signature_payload_v0 and {len(sg)} to KeyPair::sign: signer and verifier must use the same generator", where)
    if ok:
        lv = mirq.operand_leaves(fb, b, sg[0].args[1])
        lk = L.operand(sg[0].args[0])
        lblk = mirq.operand_leaves(fb, b, gp[0].args[0])
        ctx.check(any("generate_seal_signature_payload_v0" in l for l in lv) and "keypair" in lk and "arg1.proof" in lk and last_block_leaves(lblk), "SEAL", "seal: signature by the carried secret over the last block", "SEAL|args", f"sign(key {lk}) over payload<-{sorted(l for l in lv if 'generate' in l)} of block<-{sorted(l for l in lblk if l.startswith('arg'))}", where)
    tn = [s for _, s in mirq.aggregates(b, r"crypto::TokenNext$")]
    ctx.check(len(tn) == 1 and tn[0]["r"].get("variant") == "Seal", "SEAL", "sealed container stores TokenNext::Seal, not the secret", "SEAL|proof", "seal() does not build TokenNext::Seal(signature)", where)
    sb = [s for _, s in mirq.aggregates(b, r"format::SerializedBiscuit$")]
    if sb:
        la = mirq.operand_leaves(fb, b, mirq.agg_field(sb[0], "authority"))
        lbk = mirq.operand_leaves(fb, b, mirq.agg_field(sb[0], "blocks"))
        lr = mirq.operand_leaves(fb, b, mirq.agg_field(sb[0], "root_key_id"))
        ctx.check(mirq.has_leaf(la, "arg1.authority") and mirq.has_leaf(lbk, "arg1.blocks") and mirq.has_leaf(lr, "arg1.root_key_id") and not any(l.startswith("arg") and not l.startswith("arg1.blocks") for l in lbk), "SEAL", "seal keeps authority, blocks and root key id", "SEAL|preserve", f"blocks<-{sorted(l for l in lbk if l.startswith('arg'))}", where)
    mirq.must_pass(fb, ctx, b, r"crypto::TokenNext::keypair$", "SEAL", "seal needs the secret (refused on a sealed token)", "SEAL|needs-secret")


def last_block_leaves(l):
    """the block under the seal comes from self.authority / self.blocks, directly or through SerializedBiscuit::last_block(self)
    (whose selector the LASTBLOCK rule checks)"""
    return (mirq.has_leaf(l, "arg1.authority") and any(x.startswith("arg1.blocks") for x in l)) or (any(x.endswith("SerializedBiscuit::last_block") for x in l) and any(x == "arg1" or x.startswith("arg1") for x in l))


def last_key_leaves(l):
    """the key the proof is checked against is the next key at the end of the walk: the variable advanced over self.authority /
    self.blocks, or `self.last_block().next_key` (the accessor's selector is checked by LASTBLOCK)"""
    walk = mirq.has_leaf(l, "arg1.authority.next_key") and any(x.startswith("arg1.blocks") and x.endswith("next_key") for x in l)
    accessor = any(x.endswith("SerializedBiscuit::last_block") for x in l) and "arg1.next_key" in l
    return walk or accessor


def last_block_rules(fb, ctx):
    """LASTBLOCK: the seal covers the LAST block of the chain (signer and verifier), and requests / appends start from it."""
    def selectors(h):
        out = []
        isblocks = lambda z: isinstance(z, dict) and strip_a(z).get("k") == "field" and strip_a(z).get("name") == "blocks"
        for z in find_all(h["body"], lambda z: z.get("k") == "index" and isblocks(z.get("e"))):
            i = strip_a(z["idx"])
            last = i.get("k") == "binary" and i.get("op") == "Sub" and hirq.literal(i["b"]) == 1 and bool(find_all(i["a"], lambda y: y.get("k") == "mcall" and y.get("name") == "len" and isblocks(y.get("recv"))))
            rng = i.get("k") == "struct"      # a range: `&self.blocks[..]` is not a selector of one block
            if not rng:
                out.append(("last" if last else f"[{hirq.literal(i) if hirq.literal(i) is not None else '?'}]", z["ln"]))
        for z in find_all(h["body"], lambda z: z.get("k") == "mcall" and z.get("name") in ("first", "last", "get", "first_mut", "last_mut") and isblocks(z.get("recv"))):
            out.append(("last" if z["name"].startswith("last") else z["name"], z["ln"]))
        return out
    n = 0
    # the functions that sign / check a seal (whoever calls the seal payload generator), plus the accessor used for requests and appends
    targets = sorted({b_["path"] for b_ in fb.bodies.values() if b_["crate"] == "biscuit_auth" and b_["kind"] != "Closure" and not b_.get("exp") and mirq.calls_matching(fb, b_, r"crypto::generate_seal_signature_payload_v0$")} | {F + "::last_block"})
    for fn in targets:
        b = fb.body(fn)
        sel = selectors(fb.hir_of(b))
        n += len(sel)
        bad = [(w, ln) for w, ln in sel if w != "last"]
        via_accessor = fn != F + "::last_block" and bool(mirq.calls_matching(fb, b, r"SerializedBiscuit::last_block$"))
        if via_accessor and not sel:
            n += 1
        ctx.check((bool(sel) or via_accessor) and not bad, "LASTBLOCK", f"{fn.split('::')[-1]}: the block selected from self.blocks is the last one", f"LASTBLOCK|{fn.split('::')[-1]}", f"block selector(s) {bad or 'none found'}: the seal / next request must be computed from the last block of the chain (`blocks[len - 1]` or `blocks.last()`), which is the one the verifier checks the seal against", f"{b['file']}:{(bad[0][1] if bad else b['line'])}")
    ctx.floor("single-block selectors on SerializedBiscuit.blocks", n, 3)


def strip_a(n):
    while isinstance(n, dict) and (n.get("k") in ("addr", "use") or (n.get("k") == "unary" and n.get("op") == "Deref")):
        n = n["e"] if n.get("k") in ("addr", "use") else n["a"]
    return n if isinstance(n, dict) else {}


def needs_secret_rules(fb, ctx):
    import absint
    # TokenNext::keypair: Seal -> Err(AlreadySealed)
    b = fb.body(C + "::TokenNext::keypair")
    h = fb.hir_of(b)
    m = hirq.matches_in(h["body"])
    kinds = {}
    for arm in (m[0]["arms"] if m else []):
        for v in hirq.pat_variants(arm["pat"]):
            ev = hirq.err_variant(arm["body"])
            kinds[(v or "").split("::")[-1]] = (ev.split("::")[-1] if isinstance(ev, str) else ("Ok" if (hirq.ctor_name(strip(arm["body"])) or "").endswith("::Ok") else "?"))
    try:
        pid_ = (h.get("params") or [{}])[0].get("id")
        ev_k = {}
        for v_ in ("Seal", "Secret"):
            r_ = absint.Interp().run(h["body"], {pid_: absint.C(v_, absint.sym("x"))})
            ev_k[v_] = "Ok" if absint.tag(r_) == "Ok" else ("AlreadySealed" if absint.tag(r_) == "Err" and absint.find_ctor(r_, "AlreadySealed") is not None else absint.show(r_))
        kinds = ev_k
    except (absint.Unknown, TypeError):
        pass
    ctx.check(kinds == {"Seal": "AlreadySealed", "Secret": "Ok"}, "SEALED", "TokenNext::keypair refuses a seal", "SEALED|keypair", f"expected Seal -> Err(AlreadySealed), Secret -> Ok(..); found {kinds}", f"{b['file']}:{b['line']}")
    for fn in (F + "::append", F + "::append_serialized"):
        bb = fb.body(fn)
        mirq.must_pass(fb, ctx, bb, r"crypto::TokenNext::keypair$", "SEALED", f"{fn.split('::')[-1]} needs the secret", f"SEALED|{fn.split('::')[-1]}")
    tb = fb.body("biscuit_auth::token::third_party::ThirdPartyRequest::from_container")
    th = fb.hir_of(tb)
    ifs = [n for n in find_all(th["body"], lambda n: n.get("k") == "if") if mcalls(n["cond"], r"TokenNext::is_sealed$") and hirq.err_variant(n["then"])]
    ctx.check(len(ifs) == 1 and str(hirq.err_variant(ifs[0]["then"])).endswith("AppendOnSealed"), "SEALED", "third-party request refused on a sealed token", "SEALED|from_container", "`if container.proof.is_sealed() { return Err(AppendOnSealed) }` not found", f"{tb['file']}:{tb['line']}")
    ib = fb.body(C + "::TokenNext::is_sealed")
    ih = fb.hir_of(ib)
    mm = hirq.matches_in(ih["body"])
    k2 = {}
    for arm in (mm[0]["arms"] if mm else []):
        for v in hirq.pat_variants(arm["pat"]):
            k2[(v or "").split("::")[-1]] = hirq.literal(arm["body"])
    # EVAL first: is_sealed interpreted for both variants of TokenNext (any shape: match, matches!, if let)
    import absint
    try:
        pid_ = (ih.get("params") or [{}])[0].get("id")
        ev2 = {v_: absint.Interp().run(ih["body"], {pid_: absint.C(v_, absint.sym("x"))}) for v_ in ("Seal", "Secret")}
        k2 = ev2
    except (absint.Unknown, TypeError):
        pass
    ctx.check(k2 == {"Seal": True, "Secret": False}, "SEALED", "is_sealed is true exactly for Seal", "SEALED|is_sealed", f"found {k2}", f"{ib['file']}:{ib['line']}")
    # every public append / seal / request path of Biscuit and UnverifiedBiscuit reaches one of the gated functions
    gated = {fb.body(F + "::append")["key"], fb.body(F + "::append_serialized")["key"], fb.body(F + "::seal")["key"], tb["key"]}
    n = 0
    for ty in ("biscuit_auth::token::Biscuit", "biscuit_auth::token::unverified::UnverifiedBiscuit"):
        for name in ("append", "append_with_keypair", "append_third_party", "append_third_party_with_keypair", "append_third_party_base64", "seal", "third_party_request"):
            bb = fb.body_opt(f"{ty}::{name}")
            if bb is None:
                continue
            n += 1
            r = fb.reachable([bb["key"]])
            ctx.check(bool(gated & set(r)), "SEALED", f"{ty.split('::')[-1]}::{name} goes through a secret-requiring container operation", f"SEALED|{ty.split('::')[-1]}::{name}", "this public extension path reaches none of SerializedBiscuit::{append, append_serialized, seal} / ThirdPartyRequest::from_container", f"{bb['file']}:{bb['line']}")
    ctx.floor("public extension paths", n, 12)


# ------------------------------------------------------------------------------------------------ typestate
def typestate_rules(fb, ctx):
    """Biscuit{..} is only built from a verified container, a container derived from self.container, or a fresh one."""
    sites = []
    for b in fb.bodies.values():
        if b["crate"] != "biscuit_auth" or b.get("exp"):
            continue
        for i, s in mirq.aggregates(b, r"^biscuit_auth::token::Biscuit$"):
            sites.append((b, i, s))
    fns = sorted({b["path"] for b, _, _ in sites})
    allowed = {
        "biscuit_auth::token::Biscuit::new_with_key_pair": r"call:(crypto::)?.*SerializedBiscuit::new",
        "biscuit_auth::token::Biscuit::from_serialized_container": r"^arg1$",
        "biscuit_auth::token::Biscuit::append_with_keypair": r"SerializedBiscuit::append",
        "biscuit_auth::token::Biscuit::append_third_party_with_keypair": r"SerializedBiscuit::append_serialized",
        "biscuit_auth::token::unverified::UnverifiedBiscuit::verify": r"arg1\.container",
    }
    ctx.floor("Biscuit construction sites", len(sites), 5)
    for b, i, s in sites:
        where = f"{b['file']}:{s['ln']}"
        if b["path"] not in allowed:
            # a method of an already verified token may build a new one around a container DERIVED from its own by the container's
            # own extension / sealing operations (what Biscuit::seal does by cloning self and replacing the container)
            self_ty = str((b.get("locals") or ["", ""])[1]) if b.get("argc", 0) >= 1 else ""
            lc = mirq.operand_leaves(fb, b, mirq.agg_field(s, "container"))
            derived = re.search(r"^&(mut )?token::Biscuit$", self_ty) and any(re.search(r"SerializedBiscuit::(seal|append|append_serialized)$", l) for l in lc) and any(l == "arg1.container" or l.startswith("arg1.container.") for l in lc)
            if derived:
                ctx.ok("TYPESTATE", f"{b['path'].split('::')[-1]}: container derived from the verified token's own container", where, f"container <- {sorted(l for l in lc if 'SerializedBiscuit' in l)}")
                continue
            ctx.fail("TYPESTATE", f"Biscuit built in {b['path']}", f"TYPESTATE|{b['path']}", "a verified-token value is constructed outside the five audited constructors", where)
            continue
        lc = mirq.operand_leaves(fb, b, mirq.agg_field(s, "container"))
        ctx.check(any(re.search(allowed[b["path"]], l) for l in lc), "TYPESTATE", f"{b['path'].split('::')[-1]}: container provenance", f"TYPESTATE|{b['path']}|container", f"container field depends on {sorted(lc)[:6]}", where)
    vb = fb.body("biscuit_auth::token::unverified::UnverifiedBiscuit::verify")
    mirq.must_pass(fb, ctx, vb, r"SerializedBiscuit::verify$", "TYPESTATE", "UnverifiedBiscuit::verify -> Biscuit only after container.verify(root) succeeded", "TYPESTATE|verify")
    # callers of from_serialized_container hand it a verified container
    target = fb.body("biscuit_auth::token::Biscuit::from_serialized_container")["key"]
    callers = []
    for b in fb.bodies.values():
        if b["crate"] != "biscuit_auth" or b.get("exp"):
            continue
        for c in fb.calls(b):
            if not c.indirect and c.rkey == target:
                callers.append((b, c))
    ctx.floor("callers of Biscuit::from_serialized_container", len(callers), 2)
    for b, c in callers:
        lc = mirq.operand_leaves(fb, b, c.args[0])
        ok = any(re.search(r"SerializedBiscuit::(from_slice|unsafe_from_slice)$", l) for l in lc)
        ctx.check(ok, "TYPESTATE", f"{b['path'].split('::')[-1]} passes a container returned by a verifying deserialiser", f"TYPESTATE|caller|{b['path']}", f"container argument depends on {sorted(lc)[:6]}", f"{b['file']}:{c.ln}")


# ------------------------------------------------------------------------------------------------ primitives
def primitive_rules(fb, ctx):
    e = fb.body(C + "::ed25519::PublicKey::verify_signature")
    cs = [c.rpath or "" for c in fb.calls(e) if not c.indirect]
    strict = any(c.endswith("VerifyingKey::verify_strict") for c in cs)
    weak = [c for c in cs if re.search(r"VerifyingKey::verify$|Verifier<.*>>::verify$|verify_prehashed$", c)]
    ctx.check(strict and not weak, "PRIMITIVE", "ed25519 verification is verify_strict", "PRIMITIVE|ed25519|strict", f"ed25519 verify_signature must call VerifyingKey::verify_strict (non-malleable, rejects small-order keys); calls: {[c.split('::')[-1] for c in cs]}", f"{e['file']}:{e['line']}")
    # the whole signature field is converted to [u8; 64]
    conv = [c for c in fb.calls(e) if not c.indirect and re.search(r"TryInto<.*>>::try_into$|TryFrom<.*>>::try_from$", c.rpath or c.path or "")]
    L = sigs.Layout(fb, e)
    whole = [c for c in conv if L.operand(c.args[0]) in ("arg3.0", "arg3") and "[u8; 64" in (c.gargs + c.rargs)]
    partial = [c.rpath for c in fb.calls(e) if not c.indirect and re.search(r"::(get|get_unchecked|split_at|first_chunk|split_first_chunk|index|truncate|take)$", c.rpath or "")]
    ctx.check(len(whole) == 1 and not partial, "PRIMITIVE", "ed25519 signature must be exactly 64 bytes", "PRIMITIVE|ed25519|length", f"the complete signature field must be converted with try_into::<[u8; 64]>() (found whole-field conversions: {len(whole)}, slicing calls: {[p.split('::')[-1] for p in partial]})", f"{e['file']}:{e['line']}")
    if whole:
        mirq.must_pass(fb, ctx, e, r"TryInto<.*>>::try_into$|TryFrom<.*>>::try_from$", "PRIMITIVE", "ed25519: wrong length is an error", "PRIMITIVE|ed25519|length-err")
    mirq.must_pass(fb, ctx, e, r"VerifyingKey::verify_strict$", "PRIMITIVE", "ed25519: Ok only if the signature verified", "PRIMITIVE|ed25519|used")
    p = fb.body(C + "::p256::PublicKey::verify_signature")
    cs = [c.rpath or "" for c in fb.calls(p) if not c.indirect]
    ctx.check(any(c.endswith("Signature<C>::from_der") or c.endswith("::from_der") for c in cs) and any(re.search(r"Verifier<.*>>::verify$|::verify$", c) for c in cs), "PRIMITIVE", "p256 verification parses strict DER and verifies", "PRIMITIVE|p256", f"calls: {[c.split('::')[-1] for c in cs]}", f"{p['file']}:{p['line']}")
    mirq.must_pass(fb, ctx, p, r"Verifier<.*>>::verify$", "PRIMITIVE", "p256: Ok only if the signature verified", "PRIMITIVE|p256|used")
    # dispatch by key algorithm
    d = fb.body(C + "::PublicKey::verify_signature")
    h = fb.hir_of(d)
    m = hirq.matches_in(h["body"])
    k = {}
    for arm in (m[0]["arms"] if m else []):
        for v in hirq.pat_variants(arm["pat"]):
            k[(v or "").split("::")[-1]] = [c for c in hirq.callee_paths(arm["body"]) if c.endswith("verify_signature")]
    ctx.check(k.get("Ed25519") == ["biscuit_auth::crypto::ed25519::PublicKey::verify_signature"] and k.get("P256") == ["biscuit_auth::crypto::p256::PublicKey::verify_signature"], "PRIMITIVE", "PublicKey::verify_signature dispatches to its own algorithm", "PRIMITIVE|dispatch", f"found {k}", f"{d['file']}:{d['line']}")


# ------------------------------------------------------------------------------------------------ wire format coverage
def wire_rules(fb, ctx):
    """Writer (to_proto) and reader (deserialize) agree field by field."""
    tb = fb.body(F + "::to_proto")
    db = fb.body(F + "::deserialize")
    where_t, where_d = f"{tb['file']}:{tb['line']}", f"{db['file']}:{db['line']}"
    sbs = mirq.deep_aggregates(fb, tb, r"schema::SignedBlock$")      # the per-block one may sit in a `.map(|block| ..)` closure
    ctx.floor("SignedBlock aggregates in to_proto", len(sbs), 2)
    want_w = {"block": ".data", "next_key": ".next_key", "signature": ".signature", "version": ".version"}
    for n, (owner_, s) in enumerate(sbs):
        who = "authority" if n == 0 else "blocks"
        for f, suffix in want_w.items():
            lv = mirq.deep_leaves(fb, tb, owner_, mirq.agg_field(s, f))
            ok = any(l.startswith("arg1." + who) and l.endswith(suffix) for l in lv)
            ctx.check(ok, "WIRE", f"to_proto: SignedBlock.{f} of {who} <- self.{who}{suffix}", f"WIRE|to_proto|{who}|{f}", f"field depends on {sorted(l for l in lv if l.startswith('arg'))}", where_t)
        if who == "blocks":
            lv = mirq.deep_leaves(fb, tb, owner_, mirq.agg_field(s, "external_signature"))
            ctx.check(any(l.startswith("arg1.blocks") and "external_signature" in l for l in lv), "WIRE", "to_proto: external signature of each block is written", "WIRE|to_proto|blocks|external_signature", f"field depends on {sorted(l for l in lv if l.startswith('arg'))}", where_t)
    top = [s for _, s in mirq.aggregates(tb, r"schema::Biscuit$")]
    if top:
        for f, src in (("root_key_id", "arg1.root_key_id"), ("proof", "arg1.proof")):
            lv = mirq.operand_leaves(fb, tb, mirq.agg_field(top[0], f))
            ctx.check(mirq.has_leaf(lv, src), "WIRE", f"to_proto: Biscuit.{f} <- self.{f}", f"WIRE|to_proto|{f}", f"field depends on {sorted(l for l in lv if l.startswith('arg'))}", where_t)
            if f == "root_key_id":
                # an Option<u32> copied as is: Some(0) is a key id like any other, it must not be normalised away
                vs = mirq.verbatim_source(tb, mirq.agg_field(top[0], f))
                ctx.check(vs == ("arg1", [".root_key_id"]), "WIRE", "to_proto: root_key_id is copied verbatim", "WIRE|to_proto|root_key_id|verbatim", f"the written value is not a plain copy of self.root_key_id on every path (found {vs}): the id is transformed or filtered on the way out (e.g. Some(0) dropped), so the token no longer names the key it was built for", where_t)
    # version written as None iff 0
    th = fb.hir_of(tb)
    vifs = [n for n in find_all(th["body"], lambda n: n.get("k") == "if") if (lambda c: c.get("k") == "binary" and c.get("op") == "Gt" and strip(c["a"]).get("name") == "version" and hirq.literal(c["b"]) == 0)(strip(n["cond"]))]
    ctx.check(len(vifs) == 2, "WIRE", "to_proto: version omitted only when 0", "WIRE|to_proto|version-none", f"expected `if x.version > 0 {{ Some(x.version) }} else {{ None }}` for authority and blocks, found {len(vifs)}", where_t)
    # reader
    cbs = mirq.deep_aggregates(fb, db, r"crypto::Block$")       # the loop over data.blocks may be a `map(|block| ..)` closure
    ctx.floor("crypto::Block aggregates in deserialize", len(cbs), 2)
    want_r = {"data": ".block", "next_key": ".next_key", "signature": ".signature", "version": ".version"}
    def leaves_r(owner_, s_, f_):
        lv_ = mirq.deep_leaves(fb, db, owner_, mirq.agg_field(s_, f_))
        if owner_ is not db:
            lv_ = lv_ | {l for l in mirq.closure_source_leaves(fb, db, owner_["key"]) if l.startswith("call:")}
        return lv_
    # which aggregate is the authority block: the one whose data comes from the decoded `.authority` (not its position in the body:
    # after inlining a helper its blocks come last)
    def who_of(o_s):
        lv_ = leaves_r(o_s[0], o_s[1], "data")
        return "authority" if any(".authority" in l for l in lv_) and not any(".blocks" in l for l in lv_) else "blocks"
    cbs = sorted(cbs, key=lambda o_s: 0 if who_of(o_s) == "authority" else 1)
    for n, (owner_, s) in enumerate(cbs):
        who = "authority" if n == 0 else "blocks"
        for f, suffix in want_r.items():
            lv = leaves_r(owner_, s, f)
            ok = any(suffix in l and (who in l or who == "blocks") for l in lv if not l.startswith("const")) and any(("Biscuit" in l and "decode" in l) or l.startswith("call:") for l in lv)
            ctx.check(ok, "WIRE", f"deserialize: crypto::Block.{f} of {who} <- decoded {who}{suffix}", f"WIRE|deserialize|{who}|{f}", f"field depends on {sorted(lv)[:8]}", where_d)
    dh = fb.hir_of(db)
    ud = mcalls(dh["body"], r"Option::<T>::unwrap_or_default$")
    pl_ = hirq.place_lets(dh)
    ctx.check(len([u for u in ud if strip(hirq.expand_places(strip(u["recv"]), pl_)).get("name") == "version"]) == 2, "WIRE", "deserialize: missing version reads as 0", "WIRE|deserialize|version-default", "version.unwrap_or_default() expected for authority and blocks", where_d)
    top = [s for _, s in mirq.aggregates(db, r"format::SerializedBiscuit$")]
    if top:
        lv = mirq.operand_leaves(fb, db, mirq.agg_field(top[0], "root_key_id"))
        ctx.check(any("root_key_id" in l for l in lv) or any("decode" in l for l in lv), "WIRE", "deserialize: root_key_id is read back", "WIRE|deserialize|root_key_id", f"field depends on {sorted(lv)[:6]}", where_d)


def third_party_signer_rules(fb, ctx):
    b = fb.body("biscuit_auth::token::third_party::ThirdPartyRequest::create_block")
    L = sigs.Layout(fb, b)
    where = f"{b['file']}:{b['line']}"
    g = mirq.calls_matching(fb, b, r"crypto::generate_external_signature_payload_v1$")
    if len(g) != 1:
        ctx.fail("EXTSIGN", "create_block signs the v1 external payload", "EXTSIGN|generator", f"expected one call to generate_external_signature_payload_v1, found {len(g)}", where)
        return
    got = [L.operand(a) for a in g[0].args]
    payload_ok = got[0].startswith("_") or got[0].startswith("call:")
    ver = g[0].args[2]
    ver_ok = ver.get("k") == "const" and ver.get("int") == 1
    ctx.check(payload_ok and got[1] == "arg1.previous_signature" and ver_ok, "EXTSIGN", "create_block: payload ++ request.previous_signature ++ version 1", "EXTSIGN|args", f"generator called with {got}", f"{b['file']}:{g[0].ln}")
    sg = mirq.calls_matching(fb, b, r"crypto::KeyPair::sign$")
    ok = len(sg) == 1 and any("generate_external_signature_payload_v1" in l for l in mirq.operand_leaves(fb, b, sg[0].args[1])) and any(l == "arg2" for l in mirq.operand_leaves(fb, b, sg[0].args[0]))
    ctx.check(ok, "EXTSIGN", "create_block: signed by the third party's private key", "EXTSIGN|sign", "KeyPair::sign is not applied to the generated payload with the key built from the private_key argument", where)
    # the same payload bytes are shipped
    tc = [s for _, s in mirq.aggregates(b, r"schema::ThirdPartyBlockContents$")]
    if tc:
        shipped = L.operand(mirq.agg_field(tc[0], "payload"))
        ctx.check(shipped == got[0], "EXTSIGN", "create_block: the signed payload is the shipped payload", "EXTSIGN|payload", f"signed {got[0]}, shipped {shipped}", where)
    # request carries the last block's signature
    fc = fb.body("biscuit_auth::token::third_party::ThirdPartyRequest::from_container")
    tr = [s for _, s in mirq.aggregates(fc, r"third_party::ThirdPartyRequest$")]
    if tr:
        lv = mirq.operand_leaves(fb, fc, mirq.agg_field(tr[0], "previous_signature"))
        via_acc = any(l.endswith("SerializedBiscuit::last_block") for l in lv) and any(l == "arg1" or l.startswith("arg1") for l in lv) and any(l.endswith(".signature") for l in lv)
        ctx.check((mirq.has_leaf(lv, "arg1.authority.signature") and any(l.startswith("arg1.blocks") and l.endswith(".signature") for l in lv) and any("last" in l for l in lv)) or via_acc, "EXTSIGN", "request.previous_signature = signature of the token's last block", "EXTSIGN|request", f"depends on {sorted(l for l in lv if l.startswith('arg') or 'last' in l)}", f"{fc['file']}:{fc['line']}")


def append_third_party_rules(fb, ctx):
    """Biscuit::append_third_party_with_keypair verifies before signing the block into the chain."""
    b = fb.body("biscuit_auth::token::Biscuit::append_third_party_with_keypair")
    L = sigs.Layout(fb, b)
    where = f"{b['file']}:{b['line']}"
    ap = mirq.calls_matching(fb, b, r"SerializedBiscuit::append_serialized$")
    ve = mirq.calls_matching(fb, b, r"crypto::verify_external_signature$")
    if len(ap) != 1 or len(ve) != 1:
        ctx.fail("TPAPPEND", "append_third_party: verify_external_signature then append_serialized", "TPAPPEND|shape", f"found {len(ve)} verify_external_signature and {len(ap)} append_serialized calls", where)
        return
    e = mirq.success_edge(fb, b, ve[0])
    ctx.check(e is not None and mirq.dominates(b, e[1], ap[0].bb), "TPAPPEND", "the block is appended only after its external signature verified", "TPAPPEND|order", "append_serialized is reachable without the success edge of verify_external_signature", f"{b['file']}:{ap[0].ln}")
    # key equality test before that
    eq = [c for c in fb.calls(b) if not c.indirect and re.search(r"PartialEq.*::(ne|eq)$", c.rpath or c.path or "")]
    keq = [c for c in eq if any(l == "arg2" for l in mirq.operand_leaves(fb, b, c.args[0]) | mirq.operand_leaves(fb, b, c.args[1])) and any("from_proto" in l for l in mirq.operand_leaves(fb, b, c.args[0]) | mirq.operand_leaves(fb, b, c.args[1]))]
    okk = False
    for c in keq:
        br = [x for x in mirq.result_branches(fb, b, c) if x[0] == "branch"]
        if br:
            is_ne = (c.rpath or c.path).endswith("ne")
            good = br[0][3][0] if is_ne else br[0][2]
            okk = okk or mirq.dominates(b, good, ap[0].bb)
    ctx.check(okk, "TPAPPEND", "the expected external key equals the key in the response", "TPAPPEND|key", "append is reachable without the `external_key == provided_key` edge", where)
    # arguments of the verification: payload, previous key, last block signature, {expected key, response signature}, version 1, hashing mode
    a = ve[0].args
    la = [mirq.operand_leaves(fb, b, x) for x in a]
    acc = lambda ls, f_: any(l.endswith("SerializedBiscuit::last_block") for l in ls) and any(l.startswith("arg1.container") for l in ls) and any(l.endswith(f_) for l in ls)     # self.container.last_block().<f>
    prev_ok = (mirq.has_leaf(la[2], "arg1.container.authority.signature") and any(l.startswith("arg1.container.blocks") and l.endswith(".signature") for l in la[2])) or acc(la[2], ".signature")
    key_ok = (mirq.has_leaf(la[1], "arg1.container.authority.next_key") and any(l.startswith("arg1.container.blocks") and l.endswith("next_key") for l in la[1])) or acc(la[1], "next_key")
    ext = [s for _, s in mirq.aggregates(b, r"crypto::ExternalSignature$")]
    ext_ok = bool(ext) and mirq.has_leaf(mirq.operand_leaves(fb, b, mirq.agg_field(ext[0], "public_key")), "arg2") and any(l.startswith("arg3") for l in mirq.operand_leaves(fb, b, mirq.agg_field(ext[0], "signature")))
    ver_ok = a[4].get("k") == "const" and a[4].get("int") == 1
    mode = [s for _, s in mirq.aggregates(b, r"ThirdPartyVerificationMode$")]
    mode_ok = all(s["r"].get("variant") == "PreviousSignatureHashing" for s in mode) and bool(mode)
    ctx.check(prev_ok and key_ok and ext_ok and ver_ok and mode_ok, "TPAPPEND", "verification binds payload, last block signature, expected key, version 1", "TPAPPEND|args", f"prev-sig ok={prev_ok} key ok={key_ok} external ok={ext_ok} version ok={ver_ok} mode ok={mode_ok}", f"{b['file']}:{ve[0].ln}")
    # what was verified is what is appended
    same_payload = L.operand(a[0]) == L.operand(ap[0].args[2]) or (set(x for x in la[0] if x.startswith("arg3")) and set(x for x in mirq.operand_leaves(fb, b, ap[0].args[2]) if x.startswith("arg3")))
    ctx.check(bool(same_payload), "TPAPPEND", "the verified payload is the appended payload", "TPAPPEND|payload", f"verified {L.operand(a[0])}, appended {L.operand(ap[0].args[2])}", where)


# ------------------------------------------------------------------------------------------------ signature version
def signature_version_rules(fb, ctx):
    b = fb.body("biscuit_auth::format::block_signature_version")
    h = fb.hir_of(b)
    where = f"{b['file']}:{b['line']}"
    # returns 1 for external signature / datalog >= 3.3 / non-ed25519 pair, else max of previous versions
    if sigver_by_evaluation(ctx, h, where):
        return sigver_callers(fb, ctx)
    rets = find_all(h["body"], lambda n: n.get("k") == "ret")
    consts = sorted((r.get("e") or {}).get("res", {}).get("path", "").split("::")[-1] for r in rets if isinstance(r.get("e"), dict))
    ctx.check(consts == ["DATALOG_3_3_SIGNATURE_VERSION", "NON_ED25519_SIGNATURE_VERSION", "THIRD_PARTY_SIGNATURE_VERSION"], "SIGVER", "three early returns select the chained scheme", "SIGVER|early", f"early returns found: {consts}", where)
    ifs = [n for n in find_all(h["body"], lambda n: n.get("k") == "if") if mcalls(n["cond"], r"Option::<T>::is_some$")]
    ctx.check(len(ifs) == 1 and strip(strip(ifs[0]["cond"])["recv"]).get("res", {}).get("name") is not None, "SIGVER", "external signature forces version 1", "SIGVER|external", "`if external_signature.is_some() { return THIRD_PARTY_SIGNATURE_VERSION }` not found", where)
    ge = [n for n in find_all(h["body"], lambda n: n.get("k") == "binary" and n.get("op") in ("Ge", "Gt")) if find_all(n, lambda z: z.get("k") == "path" and (z["res"].get("path") or "").endswith("DATALOG_3_3"))]
    ctx.check(len(ge) == 1 and ge[0]["op"] == "Ge", "SIGVER", "datalog >= 3.3 forces version 1", "SIGVER|datalog", "`block_version >= DATALOG_3_3` guard not found", where)
    kp = [m for m in find_all(h["body"], lambda z: z.get("k") == "match") if "crypto::KeyPair" in (m.get("sty") or "")]
    ok = False
    for m in kp:
        tab = {}
        # `if !matches!((a, b), (Ed25519, Ed25519)) { return V }`: the match yields a bool that (negated or not) guards the return
        guard_if = [i for i in find_all(h["body"], lambda z: z.get("k") == "if") if find_all(i["cond"], lambda z: z is m) and find_all(i["then"], lambda n: n.get("k") == "ret")]
        negated = bool(guard_if) and strip(guard_if[0]["cond"]).get("k") == "unary" and strip(guard_if[0]["cond"]).get("op") == "Not"
        for arm in m["arms"]:
            alts = hirq.arm_position_sets(arm["pat"])
            if guard_if:
                v = hirq.literal(strip(arm["body"]))
                tab[str(alts)] = (v is True) != negated if isinstance(v, bool) else None
            else:
                tab[str(alts)] = bool(find_all(arm["body"], lambda n: n.get("k") == "ret"))
        both_ed = [k for k in tab if k.count("KeyPair::Ed25519") == 2]
        ok = len(both_ed) == 1 and tab[both_ed[0]] is False and all(v for k, v in tab.items() if k != both_ed[0])
    ctx.check(ok, "SIGVER", "any non-ed25519 key forces version 1", "SIGVER|algorithm", "`match (block_keypair, next_keypair) { (Ed25519, Ed25519) => {}, _ => return 1 }` not found", where)
    tail = hirq.tail(h["body"])
    mx = mcalls(tail, r"Iterator::max$|::max$") if isinstance(tail, dict) else []
    oth = [c for c in hirq.callee_paths(tail or {}) if re.search(r"::(last|next|min|nth|first)$", c)]
    ctx.check(bool(mx) and not oth and bool(mcalls(tail, r"Option::<T>::unwrap_or$")), "SIGVER", "otherwise the version is the maximum of all previous versions", "SIGVER|max", f"tail expression must be previous_blocks_sig_versions.max().unwrap_or(0); calls: {[hirq.short(c) for c in hirq.callee_paths(tail or {})]}", where)
    sigver_callers(fb, ctx)


def sigver_by_evaluation(ctx, h, where):
    """EVAL: block_signature_version interpreted over (external signature present?) x (declared block version None / 3..6) x
    (block key algorithm) x (next key algorithm): version 1 (the chained scheme) is forced by an external signature, by Datalog >= 3.3
    or by any non-Ed25519 key; otherwise the result is the maximum of the previous versions (0 when there is none)."""
    import absint, itertools, os
    repo = os.environ.get("VERIF_REPO", "/repo")
    consts = {}
    for f_ in ("biscuit-auth/src/token/mod.rs", "biscuit-auth/src/format/mod.rs"):
        for m_ in re.finditer(r"const (\w+): u32 = (\d+);", open(os.path.join(repo, f_)).read()):
            consts[m_.group(1)] = int(m_.group(2))
    ps = h.get("params") or []
    if len(ps) != 5 or not all(p.get("k") == "bind" for p in ps) or "DATALOG_3_3" not in consts:
        return False
    ids = [p["id"] for p in ps]
    cells, bad = 0, None
    try:
        for ext, ver, k1, k2 in itertools.product((False, True), (None, 3, 4, 5, 6), ("Ed25519", "P256"), ("Ed25519", "P256")):
            def hook_max(interp, recv, args):
                return absint.C("SymOpt", absint.sym("max of previous versions")) if recv == absint.sym("previous") else NotImplemented
            def hook_unwrap_or(interp, recv, args):
                return ("prevmax", args[0]) if absint.tag(recv) == "SymOpt" else NotImplemented
            it = absint.Interp(consts=consts, hooks={"max": hook_max, "unwrap_or": hook_unwrap_or})
            env = {ids[0]: absint.C(k1, absint.sym("kp")), ids[1]: absint.C(k2, absint.sym("kp")), ids[2]: absint.C("Some", absint.sym("sig")) if ext else absint.C("None"), ids[3]: absint.C("Some", ver) if ver is not None else absint.C("None"), ids[4]: absint.sym("previous")}
            got = it.run(h["body"], env)
            forced = ext or (ver is not None and ver >= consts["DATALOG_3_3"]) or k1 != "Ed25519" or k2 != "Ed25519"
            want = 1 if forced else ("prevmax", 0)
            cells += 1
            if got != want and bad is None:
                bad = (dict(external_signature=ext, block_version=ver, block_key=k1, next_key=k2), got, want)
    except absint.Unknown:
        return False
    desc = f"{bad[0]}: returns {absint.show(bad[1]) if not (isinstance(bad[1], tuple) and bad[1][0] == 'prevmax') else 'max(previous).unwrap_or(' + str(bad[1][1]) + ')'}, the specification requires {'1' if bad[2] == 1 else 'the maximum of the previous versions (0 if none)'}" if bad else ""
    ctx.check(bad is None, "SIGVER", f"block_signature_version equals the specification on its {cells}-cell domain", "SIGVER|table", desc, where)
    for inst in ("three early returns select the chained scheme", "external signature forces version 1", "datalog >= 3.3 forces version 1", "any non-ed25519 key forces version 1", "otherwise the version is the maximum of all previous versions"):
        ctx.ok("SIGVER", inst, where, "decided by the abstract evaluation above")
    return True


def sigver_callers(fb, ctx):
    # both callers pass authority + every block
    for fn in (F + "::append", F + "::append_serialized"):
        cb = fb.body(fn)
        cs = mirq.calls_matching(fb, cb, r"format::block_signature_version$")
        if len(cs) != 1:
            ctx.fail("SIGVER", f"{fn.split('::')[-1]} computes the signature version once", f"SIGVER|{fn.split('::')[-1]}|call", f"found {len(cs)} calls", f"{cb['file']}:{cb['line']}")
            continue
        lv = mirq.operand_leaves(fb, cb, cs[0].args[4])
        # the iterator is built by closures/adaptors: look at everything the argument's construction touches
        lv |= _closure_leaves(fb, cb, cs[0].args[4])
        ok = any(l.startswith("arg1.authority") for l in lv) and any(l.startswith("arg1.blocks") for l in lv)
        ctx.check(ok, "SIGVER", f"{fn.split('::')[-1]}: previous versions include the authority block and every block", f"SIGVER|{fn.split('::')[-1]}|previous", f"iterator argument depends on {sorted(l for l in lv if l.startswith('arg'))}", f"{cb['file']}:{cs[0].ln}")
    nb = fb.body(F + "::new")
    cs = mirq.calls_matching(fb, nb, r"format::block_signature_version$")
    ctx.check(len(cs) == 1, "SIGVER", "new() computes the authority signature version with block_signature_version", "SIGVER|new", f"found {len(cs)} calls", f"{nb['file']}:{nb['line']}")


def _closure_leaves(fb, body, op):
    return set()


# ------------------------------------------------------------------------------------------------ revocation identifiers
def revocation_rules(fb, ctx):
    for fn in ("biscuit_auth::token::Biscuit::revocation_identifiers", "biscuit_auth::token::unverified::UnverifiedBiscuit::revocation_identifiers"):
        b = fb.body(fn)
        short = "::".join(fn.split("::")[-2:])
        d = mirq.deps(fb, b)
        lv = {l for l in d[0] if l.startswith("arg")}
        # an iterator chain computes the per-block part in a closure: its result, with the element parameter read as the source
        # the adaptor ranges over
        for ck, cb in fb.bodies.items():
            if cb.get("kind") == "Closure" and cb.get("parent") == b["key"]:
                src, cap = mirq.closure_context(fb, b, ck)
                for x in mirq.deps(fb, cb)[0]:
                    m_ = re.match(r"arg(\d+)(.*)$", x)
                    if m_ and int(m_.group(1)) >= 2:
                        lv |= {s_ + m_.group(2) for s_ in src}
        extra = sorted(l for l in lv if l not in ("arg1",) and not re.match(r"^arg1\.container(\.authority|\.blocks)?(\.signature)?$", l))
        need = any(l == "arg1.container.authority.signature" for l in lv) and any(l == "arg1.container.blocks.signature" for l in lv)
        calls = sorted({short_(c.callee) for c in fb.calls(b) if not c.indirect})
        bad_calls = [c for c in calls if re.search(r"(hash|digest|sha|next_key|to_proto|encode|data)", c, re.I)]
        ctx.check(need and not extra and not bad_calls, "REVID", f"{short}: identifiers are the blocks' signature bytes, in order", f"REVID|{short}", f"result depends on {sorted(lv)}; unexpected sources {extra} {bad_calls}", f"{b['file']}:{b['line']}")
        # order: authority first, then the blocks in container order (one exhaustive loop, pushes only)
        h = fb.hir_of(b)
        loops = find_all(h["body"], lambda n: n.get("k") == "loop" and n.get("src") == "ForLoop")
        rev = [c for c in hirq.callee_paths(h["body"]) if re.search(r"::(rev|sort|sort_by|sort_unstable|dedup|insert|swap|reverse)$", c)]
        chain_ok = not loops and any(re.search(r"Iterator::collect$|::collect$", c) for c in hirq.callee_paths(h["body"])) and any(re.search(r"::chain$", c) for c in hirq.callee_paths(h["body"]))
        ctx.check((len(loops) == 1 or chain_ok) and not rev, "REVID", f"{short}: container order is kept", f"REVID|{short}|order", f"reordering calls {rev}", f"{b['file']}:{b['line']}")


def short_(p):
    return "::".join((p or "").split("::")[-2:])


def freshness_rules(fb, ctx):
    """Default append/build paths draw the next key pair from the OS random generator."""
    sites = [("biscuit_auth::token::Biscuit::append", r"Biscuit::append_with_keypair$"),
             ("biscuit_auth::token::Biscuit::append_third_party", r"Biscuit::append_third_party_with_keypair$"),
             ("biscuit_auth::token::unverified::UnverifiedBiscuit::append", r"UnverifiedBiscuit::append_with_keypair$"),
             ("biscuit_auth::token::unverified::UnverifiedBiscuit::append_third_party", r"UnverifiedBiscuit::append_third_party_with_keypair$")]
    for fn, callee in sites:
        b = fb.body(fn)
        short = "::".join(fn.split("::")[-2:])
        cs = mirq.calls_matching(fb, b, callee)
        kp = mirq.calls_matching(fb, b, r"crypto::KeyPair::new_with_rng$|crypto::KeyPair::new$|crypto::KeyPair::new_with_algorithm$")
        ok = len(cs) == 1 and len(kp) == 1
        if ok:
            la = set()
            for a in cs[0].args:
                la |= mirq.operand_leaves(fb, b, a)
            ok = any("KeyPair::new" in l for l in la)
            rng_ok = ("OsRng" in kp[0].gargs or "OsRng" in kp[0].rargs) if kp[0].rpath.endswith("new_with_rng") else True
            const_seed = [c for c in fb.calls(b) if not c.indirect and re.search(r"(SeedableRng|from_seed|seed_from_u64|StdRng|from_bytes)", c.rpath or "")]
            ok = ok and rng_ok and not const_seed
        ctx.check(ok, "FRESH", f"{short}: next key pair freshly drawn from OsRng for every block", f"FRESH|{short}", "the default path must create one new KeyPair from rand::rngs::OsRng and pass it on", f"{b['file']}:{b['line']}")
    # KeyPair::new / new_with_algorithm use OsRng too
    for fn in ("biscuit_auth::crypto::KeyPair::new", "biscuit_auth::crypto::KeyPair::new_with_algorithm"):
        b = fb.body_opt(fn)
        if b is None:
            continue
        r = fb.reachable([b["key"]])
        uses = any("OsRng" in (c.gargs + c.rargs + (c.rpath or "")) for k in r for c in fb.calls(fb.bodies[k]) if not c.indirect)
        ctx.check(uses, "FRESH", f"{fn.split('::')[-1]}: key generation uses OsRng", f"FRESH|{fn.split('::')[-1]}", "no use of rand::rngs::OsRng on this path", f"{b['file']}:{b['line']}")


def malleability_rules(fb, ctx):
    """Per algorithm, verification must reject every second encoding of a valid signature."""
    p = fb.body(C + "::p256::PublicKey::verify_signature")
    cs = [c.rpath or "" for c in fb.calls(p) if not c.indirect]
    has_low_s = any(re.search(r"::(normalize_s|is_high)$", c) for c in cs)
    ctx.check(has_low_s, "MALLEABLE", "P-256 verification rejects high-S signatures", "MALLEABLE|p256|high-s", "p256::PublicKey::verify_signature has no normalize_s()/is_high() test with an error exit, and the ecdsa crate does not enforce low-S for NistP256: (r, n-s) verifies as well as (r, s)", f"{p['file']}:{p['line']}")
