"""C04 — authorization decisions follow the scoped-Datalog semantics (structural necessary conditions)."""
from props import authz, c05


def check(fb, ctx):
    ctx.explanation = (
        "CHECKKIND: the three check loops of authorize_inner (authorizer, authority, later blocks) dispatch One -> query_match, "
        "All -> query_match_all, Reject -> !query_match identically, with `?`. BLOCKID: within each loop the block id used to "
        "compute trust, to evaluate and to report a failed check is one and the same expression (usize::MAX, 0, i + 1 over "
        "blocks[1..]). SCOPECHAIN: an unscoped query inherits its block's trusted origins. DECISION: the final match maps "
        "(first matching policy, no failed check) to Ok(i) / NoMatchingPolicy / Unauthorized{Allow|Deny} as specified, always "
        "with the failed checks; policies are tried in order and the first match stops. FIND/ALL: find_match and check_match_all "
        "implement exists / exists-and-forall. QUERYSCOPE: queries use the documented scopes. TRUST/VISIBLE/LOAD: shared with C03."
    )
    authz.checkkind_rules(fb, ctx)
    authz.scope_arg_rules(fb, ctx)
    authz.decision_rules(fb, ctx)
    authz.used_rules(fb, ctx)
    authz.query_scope_rules(fb, ctx)
    authz.trust_rules(fb, ctx)
    authz.loading_rules(fb, ctx)
    match_semantics(fb, ctx)
    ctx.not_decided = ["equality with the specification on all programs (needs an executable reference semantics)", "order dependence of find_match when matches and errors coexist (C11)"]
    ctx.trusted = ["rustc HIR/typeck resolution"]


def match_semantics(fb, ctx):
    import hirq
    from facts import find_all
    from props.c05 import strip, is_local, mcalls
    D = "biscuit_auth::datalog"
    fm = fb.body(D + "::Rule::find_match")
    h = fb.hir_of(fm)
    ms = [m for m in hirq.matches_in(h["body"]) if "std::option::Option<std::result::Result<" in (m.get("sty") or "")]
    tab = {}
    # EVAL first: find_match interpreted for the three shapes of the first item of the rule's result iterator
    import absint
    ev_tab = {}
    try:
        for key_, first_ in (("None", absint.C("None")), ("Some(Ok)", absint.C("Some", absint.C("Ok", absint.sym("fact")))), ("Some(Err)", absint.C("Some", absint.C("Err", absint.sym("e"))))):
            it_ = absint.Interp(hooks={"next": lambda interp, recv, args, f_=first_: f_})
            env_ = {p_["id"]: absint.sym(p_.get("name") or "p") for p_ in (h.get("params") or []) if p_.get("k") == "bind"}
            r_ = it_.run(h["body"], env_)
            ev_tab[key_] = ("Ok", r_[2][0]) if absint.tag(r_) == "Ok" and r_[2] and isinstance(r_[2][0], bool) else (("Err",) if absint.tag(r_) == "Err" and "<e>" in absint.show(r_) else ("?", absint.show(r_)))
    except absint.Unknown:
        ev_tab = None
    if ev_tab is not None:
        ctx.check(ev_tab == {"None": ("Ok", False), "Some(Ok)": ("Ok", True), "Some(Err)": ("Err",)}, "FIND", "find_match: no result -> false, a result -> true, an evaluation error -> Err", "FIND|table", f"abstract evaluation of find_match gives {ev_tab}", f"{fm['file']}:{fm['line']}")
        ms = []
    for m in ms[:1]:
        for arm in m["arms"]:
            p = arm["pat"]
            vs = hirq.pat_variants(p)
            sub = hirq.subpatterns(p)
            key = "None" if any((v or "").endswith("None") for v in vs) else ("Some(" + ",".join(sorted((v or "").split("::")[-1] for v in hirq.pat_variants(sub[0]))) + ")" if sub else "?")
            b = strip(arm["body"])
            ok_val = None
            if (hirq.ctor_name(b) or "").endswith("::Ok"):
                ok_val = hirq.literal(b["args"][0])
            tab[key] = ("Ok", ok_val) if ok_val is not None else ("Err",) if hirq.err_variant(arm["body"]) else ("?",)
            # `Some(res) => { res.map_err(..)?; Ok(true) }`: the Err case leaves through `?` on the bound result, the rest is Ok(true)
            if key == "Some(_)" and isinstance(arm["body"], dict) and arm["body"].get("k") == "block":
                bid = {q["id"] for q in find_all(p, lambda z: z.get("k") == "bind")}
                tries = [t_ for t_ in find_all(arm["body"], lambda z: z.get("k") == "match" and str(z.get("src", "")).startswith("TryDesugar")) if find_all(t_["scrut"], lambda y: hirq.is_lid(y, bid))]
                tl = strip(hirq.tail(arm["body"]))
                if tries and (hirq.ctor_name(tl) or "").endswith("::Ok") and hirq.literal(tl["args"][0]) is True:
                    del tab[key]
                    tab["Some(Ok)"], tab["Some(Err)"] = ("Ok", True), ("Err",)
    if ev_tab is None:
      ctx.check(tab == {"None": ("Ok", False), "Some(Ok)": ("Ok", True), "Some(Err)": ("Err",)}, "FIND", "find_match: no result -> false, a result -> true, an evaluation error -> Err", "FIND|table", f"found {tab}", f"{fm['file']}:{fm['line']}")
    cm = fb.body(D + "::Rule::check_match_all")
    ch = fb.hir_of(cm)
    # `found` is set on every combination and returned after the loop; a false expression returns Ok(false)
    lets = [s for s in find_all(ch["body"], lambda z: z.get("k") == "let" and hirq.literal(z.get("init")) is False and z["pat"].get("k") == "bind")]
    flag = lets[0]["pat"]["name"] if lets else None
    loop = [l for l in find_all(ch["body"], lambda z: z.get("k") == "loop" and z.get("src") == "ForLoop")]
    sets = [a for a in find_all(loop[0] if loop else {}, lambda z: z.get("k") == "assign" and is_local(strip(z["lhs"]), flag) and hirq.literal(z["rhs"]) is True)] if flag else []
    first_stmt_sets = bool(sets) and bool(loop)
    t = strip(hirq.tail(ch["body"]))
    tail_ok = (hirq.ctor_name(t) or "").endswith("::Ok") and is_local(strip(t["args"][0]), flag)
    em = [m for m in hirq.matches_in(ch["body"]) if "Result<datalog::Term" in (m.get("sty") or "")]
    etab = {}
    for m in em[:1]:
        for arm in m["arms"]:
            p = arm["pat"]
            vs = {(v or "").split("::")[-1] for v in hirq.pat_variants(p)}
            sub = hirq.subpatterns(p)
            inner = None
            if sub and sub[0].get("k") == "tstruct":
                lit = [z for z in find_all(sub[0], lambda z: z.get("k") == "lit")]
                inner = lit[0]["v"] if lit else "_"
            rets = find_all(arm["body"], lambda z: z.get("k") == "ret")
            val = None
            if rets:
                e = strip(rets[0]["e"])
                val = ("Ok", hirq.literal(e["args"][0])) if (hirq.ctor_name(e) or "").endswith("::Ok") else ("Err",)
            etab[(",".join(sorted(vs)), inner)] = val
    want = {("Ok", True): None, ("Ok", False): ("Ok", False), ("Ok", None): ("Err",), ("Err", None): ("Err",)}
    if not (first_stmt_sets and tail_ok and etab == want):
        # shape-independent reading: the function is interpreted with every loop run zero times / once, and `evaluate` answering
        # each of its four kinds of result (helpers such as an extracted `expressions_hold` are inlined; their returns stay theirs)
        import absint
        outcome = {}
        try:
            pids = {i_: absint.sym(f"p{n_}") for n_ in range(8) for i_ in hirq.param_ids(ch, n_)}
            for name_, val_, loops_ in (("no binding", None, "zero"), ("true", absint.C("Ok", absint.C("Bool", True)), "once"), ("false", absint.C("Ok", absint.C("Bool", False)), "once"),
                                        ("other", absint.C("Ok", absint.C("Integer", absint.sym("n"))), "once"), ("error", absint.C("Err", absint.sym("e")), "once")):
                it_ = absint.Interp(hooks={"evaluate": lambda interp, recv, args, v_=val_: v_}, loops=loops_)
                r_ = it_.run(ch["body"], dict(pids))
                outcome[name_] = (absint.tag(r_), (r_[2][0] if r_[2] and isinstance(r_[2][0], bool) else None)) if absint.tag(r_) in ("Ok", "Err") else absint.show(r_)
        except absint.Unknown as e_:
            outcome = {"not evaluated": str(e_)}
        want_ = {"no binding": ("Ok", False), "true": ("Ok", True), "false": ("Ok", False), "other": ("Err", None), "error": ("Err", None)}
        ctx.check(outcome == want_, "ALL", "check_match_all: false if some binding fails an expression, otherwise whether any binding matched", "ALL|table", f"flag set in loop: {first_stmt_sets}, returns Ok(flag): {tail_ok}, expression table {etab}; interpreted outcomes {outcome}, the semantics requires {want_}", f"{cm['file']}:{cm['line']}")
    else:
      ctx.check(first_stmt_sets and tail_ok and etab == want, "ALL", "check_match_all: false if some binding fails an expression, otherwise whether any binding matched", "ALL|table", f"flag set in loop: {first_stmt_sets}, returns Ok(flag): {tail_ok}, expression table {etab}", f"{cm['file']}:{cm['line']}")
