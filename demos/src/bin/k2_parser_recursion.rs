// K2 (C09): deeply nested Datalog source must be refused, not overflow the stack (which aborts the process).
use biscuit_auth::builder::*;
fn main() {
    let args: Vec<String> = std::env::args().collect();
    if args.len() == 3 {
        let n: usize = args[2].parse().unwrap();
        let src = if args[1] == "parens" { format!("check if {}1{} == 1", "(".repeat(n), ")".repeat(n)) } else { format!("a({}1{})", "[".repeat(n), "]".repeat(n)) };
        let r = BlockBuilder::new().code(&src).map(|_| ());
        println!("parsed: {:?}", r.is_ok());
        return;
    }
    let me = std::env::current_exe().unwrap();
    let mut defect = false;
    for (kind, n) in [("parens", 100), ("parens", 20000), ("arrays", 100), ("arrays", 20000)] {
        let st = std::process::Command::new(&me).arg(kind).arg(n.to_string()).output().unwrap();
        let crashed = !st.status.success();
        println!("{:7} depth {:6}: {}", kind, n, if crashed { format!("child died ({:?}) {}", st.status, String::from_utf8_lossy(&st.stderr).lines().last().unwrap_or("").to_string()) } else { String::from_utf8_lossy(&st.stdout).trim().to_string() });
        defect |= crashed;
    }
    if defect { println!("DEFECT nested source overflows the stack") } else { println!("OK"); std::process::exit(1) }
}
