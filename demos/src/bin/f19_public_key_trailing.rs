// C17: malformed `algorithm/hex` key strings are refused. A valid key followed by anything else is not a key.
use biscuit_auth::*;
fn main() {
    let k = KeyPair::new().public();
    let good = k.to_string();
    let mut defect = false;
    for suffix in ["zz", " trailing words", "/ed25519/00", "\n", "g0"] {
        let s = format!("{good}{suffix}");
        match s.parse::<PublicKey>() {
            Ok(p) => { println!("{:?} suffix accepted -> {} (same key: {})", suffix, p, p == k); defect = true }
            Err(e) => println!("{:?} suffix refused: {}", suffix, e),
        }
    }
    assert!(good.parse::<PublicKey>().unwrap() == k);
    if defect { println!("DEFECT PublicKey::from_str ignores what follows the key") } else { println!("OK"); std::process::exit(1) }
}
