// K1 (C09): Datalog source naming a malformed public key must be refused with an error, not panic.
use biscuit_auth::builder::*;
fn main() {
    let mut defect = false;
    for src in ["check if true trusting ed25519/00", "r(1) <- a(1) trusting ed25519/00", "trusting secp256r1/0000; a(1);"] {
        let s = src.to_string();
        let r = std::panic::catch_unwind(move || BlockBuilder::new().code(&s).map(|_| ()));
        match r { Err(_) => { println!("{:44} PANIC", src); defect = true } Ok(r) => println!("{:44} {:?}", src, r.map_err(|e| e.to_string())) }
    }
    if defect { println!("DEFECT invalid public key in source panics") } else { println!("OK"); std::process::exit(1) }
}
