"""C02 — every token the API builds verifies and round-trips (structural necessary conditions)."""
from props import chain, tablesym


def check(fb, ctx):
    ctx.explanation = (
        "SIGN: in new_inner/append/append_serialized the stored crypto::Block{data,next_key,signature,external_signature,version} "
        "carries exactly the values handed to sign_authority_block/sign_block (same payload bytes, public part of the same next "
        "key pair, same version, same external signature), the previous signature is last_block().signature, the signing key is "
        "the carried secret and the new proof is the next secret. SEAL: seal signs generate_seal_signature_payload_v0(last "
        "block) - the generator verify_inner uses. LAYOUT/DISPATCH/ARGS: signer and verifier select the same generator per "
        "version and the generators equal the specification layout (an independent statement of the byte layout). WIRE: to_proto "
        "writes every field from the matching piece of state and deserialize reads it back into that piece. EXTSIGN: the "
        "third-party signer signs payload ++ request.previous_signature ++ version 1."
    )
    chain.signer_rules(fb, ctx)
    chain.seal_rules(fb, ctx)
    chain.last_block_rules(fb, ctx)
    n = chain.layout_rules(fb, ctx)
    ctx.floor("payload generators", n, 7)
    chain.dispatch_rules(fb, ctx)
    chain.external_rules(fb, ctx)
    chain.wire_rules(fb, ctx)
    chain.third_party_signer_rules(fb, ctx)
    chain.signature_version_rules(fb, ctx)
    chain.decode_gates(fb, ctx)
    # a token whose in-memory symbol / key tables disagree with what its blocks declare does not reload (PublicKeyTableOverlap,
    # unknown ids): the table threading of the append paths is part of 'every token the API builds deserializes'
    tablesym.first_party_append_rules(fb, ctx)
    ctx.not_decided = ["byte-exact equality of to_vec(from(bytes)) (depends on prost's encoder)", "that dependency crates produce valid signatures"]
    ctx.trusted = ["oracle/signature_layout.json", "prost encode/decode", "rustc MIR"]
