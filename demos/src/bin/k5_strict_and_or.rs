// K5 (C14): the non-lazy boolean operators print as `&&!` / `||!`, which the parser does not accept.
use biscuit_auth::{builder::*, *};
fn main() {
    let mut defect = false;
    for (name, op) in [("And", Binary::And), ("Or", Binary::Or)] {
        let e = Expression { ops: vec![Op::Value(Term::Bool(true)), Op::Value(Term::Bool(false)), Op::Binary(op)] };
        let check = Check { queries: vec![Rule::new(Predicate::new("query".to_string(), Vec::<Term>::new()), vec![], vec![e], vec![])], kind: CheckKind::One };
        let root = KeyPair::new();
        let token = Biscuit::builder().check(check.clone()).unwrap().build(&root).unwrap();
        let src = token.print_block_source(0).unwrap();
        let back = BlockBuilder::new().code(&src);
        let same = match &back { Ok(b) => b.checks.len() == 1 && b.checks[0] == check, Err(_) => false };
        // meaning: authorize the original token and a token rebuilt from its own printed source
        let auth = |t: &Biscuit| AuthorizerBuilder::new().policy("allow if true").unwrap().build(t).unwrap().authorize().is_ok();
        let rebuilt = back.ok().map(|b| Biscuit::builder().merge(b).build(&root).unwrap());
        println!("Binary::{:3} prints `{}` -> reparses to the same check: {}; original authorizes: {}, rebuilt from printed source authorizes: {:?}", name, src.trim(), same, auth(&token), rebuilt.as_ref().map(auth));
        defect |= !same;
    }
    if defect { println!("DEFECT printed operator parses back as different code") } else { println!("OK"); std::process::exit(1) }
}
