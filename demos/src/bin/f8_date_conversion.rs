// F8 (C09): converting a date term taken from token data into SystemTime must not panic.
use biscuit_auth::{builder::*, *};
use std::time::SystemTime;
fn main() {
    let root = KeyPair::new();
    let b = Biscuit::builder().fact(Fact::new("d".to_string(), vec![Term::Date(u64::MAX)])).unwrap().build(&root).unwrap();
    let b = Biscuit::from(&b.to_vec().unwrap(), root.public()).unwrap();
    let r = std::panic::catch_unwind(std::panic::AssertUnwindSafe(move || {
        let mut a = AuthorizerBuilder::new().build(&b).unwrap();
        let res: Result<Vec<(SystemTime,)>, _> = a.query("data($d) <- d($d)");
        format!("{:?}", res.map(|v| v.len()))
    }));
    match r { Err(_) => println!("DEFECT query() converting a token date to SystemTime panicked"), Ok(s) => { println!("OK {}", s); std::process::exit(1) } }
}
