// K7/F10.. (C19): C entry points called with valid handles and buffers of the announced size must not abort.
// Each case runs in a child process (a panic inside extern "C" aborts).
use biscuit_capi::*;
use std::ffi::CString;
unsafe fn mk_token(alg: SignatureAlgorithm) -> (Box<KeyPair>, Box<Biscuit>) {
    let seed = [7u8; 32];
    let kp = key_pair_new(seed.as_ptr(), 32, alg).unwrap();
    let mut b = biscuit_builder().unwrap();
    let f = CString::new("right(\"read\")").unwrap();
    assert!(biscuit_builder_add_fact(Some(&mut b), f.as_ptr()));
    let t = biscuit_builder_build(Some(&b), Some(&kp), seed.as_ptr(), 32).unwrap();
    (kp, t)
}
fn case(name: &str) {
    unsafe {
        match name {
            "sealed" => {
                let (_kp, t) = mk_token(SignatureAlgorithm::Ed25519);
                let n = biscuit_sealed_size(Some(&t));
                let mut buf = vec![0u8; n];
                let w = biscuit_serialize_sealed(Some(&t), buf.as_mut_ptr());
                println!("announced {} wrote {}", n, w);
                assert_eq!(n, w);
            }
            "p256_public_key" => {
                let seed = [7u8; 32];
                let kp = key_pair_new(seed.as_ptr(), 32, SignatureAlgorithm::Secp256r1).unwrap();
                let pk = key_pair_public(Some(&kp)).unwrap();
                let mut buf = [0u8; 32];
                let w = public_key_serialize(Some(&pk), buf.as_mut_ptr());
                println!("wrote {}", w);
            }
            "null_authorizer_builder" => {
                let r = authorizer_builder_build_unauthenticated(None);
                println!("returned null: {}", r.is_none());
            }
            "builder_after_parse_error" => {
                let mut b = biscuit_builder().unwrap();
                let bad = CString::new("this is not datalog(").unwrap();
                let ok = CString::new("a(1)").unwrap();
                let r1 = biscuit_builder_add_fact(Some(&mut b), bad.as_ptr());
                let r2 = biscuit_builder_add_fact(Some(&mut b), ok.as_ptr());
                println!("first add (invalid) = {}, second add (valid) = {}", r1, r2);
                assert!(!r1 && r2);
            }
            _ => unreachable!(),
        }
    }
}
fn main() {
    let args: Vec<String> = std::env::args().collect();
    if args.len() == 2 { case(&args[1]); return; }
    let me = std::env::current_exe().unwrap();
    let mut defect = false;
    for c in ["sealed", "p256_public_key", "null_authorizer_builder", "builder_after_parse_error"] {
        let o = std::process::Command::new(&me).arg(c).output().unwrap();
        let died = !o.status.success();
        println!("{:28} {}", c, if died { format!("ABORTED ({:?}): {}", o.status, String::from_utf8_lossy(&o.stderr).lines().filter(|l| l.contains("panicked") || l.contains("left") || l.contains("source slice")).next().unwrap_or("").to_string()) } else { format!("ok: {}", String::from_utf8_lossy(&o.stdout).trim()) });
        defect |= died;
    }
    if defect { println!("DEFECT a C entry point aborted the process") } else { println!("OK"); std::process::exit(1) }
}
