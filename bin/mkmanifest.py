#!/usr/bin/env python3
import json, os, sys
V = os.path.dirname(os.path.dirname(os.path.abspath(__file__)))
sys.path.insert(0, os.path.join(V, "rules"))
from props.meta import META, NOT_APPLICABLE, THOROUGH, ADDED
m = json.load(open(os.path.join(V, "MANIFEST.json")))
m["checks"] = []
ids = [json.loads(l)["id"] for l in open(os.path.join(V, "properties.jsonl"))]
served = []
for pid in ids:
    if pid in META and os.path.exists(os.path.join(V, "rules", "props", pid.lower() + ".py")):
        e = META[pid]
        served.append(pid)
        m["checks"].append({
            "property_id": pid,
            "quick_cmd": f"./check {pid}",
            "thorough_cmd": f"./check {pid} --tier thorough",
            "evidence_file": f"evidence/{pid}.json",
            "replay_cmd_template": f"./check {pid} --replay {{path}}",
            "engine": "mirfacts+rules",
            "level_claimed": {"category": "other", "text": e["text"], "design_ref": e.get("design_ref", "DESIGN.md §3")},
            "level_note": e["note"] + THOROUGH.get(pid, {}).get("note", " Quick and thorough tiers evaluate the same rule instances."),
            "technique": e["technique"] + ADDED.get(pid, "") + THOROUGH.get(pid, {}).get("technique", ""),
        })
m["not_applicable"] = [{"property_id": p, "reason": NOT_APPLICABLE.get(p, "no static rule built yet for this property (work in progress); not claimed")} for p in ids if p not in served]
for eng in m.get("engines", []):
    eng["serves_properties"] = served
json.dump(m, open(os.path.join(V, "MANIFEST.json"), "w"), indent=1)
print("claimed:", served)
