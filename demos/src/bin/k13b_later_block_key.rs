// C13: a rule in block 1 that trusts the key of a LATER third-party block must behave the same after a snapshot restore.
use biscuit_auth::{builder::*, *};
use std::time::Duration;
fn main() {
    let root = KeyPair::new();
    let ext = KeyPair::new();
    let token = Biscuit::builder().fact("user(\"alice\")").unwrap().build(&root).unwrap();
    // block 1: a rule whose scope names the key that will sign block 2
    let token = token.append(BlockBuilder::new().rule(format!("seen($g) <- group($g) trusting {}", ext.public()).as_str()).unwrap()
        .check(format!("check if seen(\"admin\") trusting {}", ext.public()).as_str()).unwrap()).unwrap();
    // block 2: third-party block signed by that key
    let req = token.third_party_request().unwrap();
    let tp = req.create_block(&ext.private(), BlockBuilder::new().fact("group(\"admin\")").unwrap()).unwrap();
    let token = token.append_third_party(ext.public(), tp).unwrap();
    let lim = AuthorizerLimits { max_facts: 1000, max_iterations: 100, max_time: Duration::from_secs(10) };
    let mut a = AuthorizerBuilder::new().policy("allow if true").unwrap().limits(lim).build(&token).unwrap();
    let before = a.to_raw_snapshot().unwrap();
    let orig = format!("{:?}", a.authorize().map_err(|e| e.to_string()));
    let restored = Authorizer::from_raw_snapshot(&before).map(|mut b| format!("{:?}", b.authorize().map_err(|e| e.to_string())));
    println!("original authorize         : {}", orig);
    println!("restored (snapshot before) : {:?}", restored.as_ref().map_err(|e| e.to_string()));
    if matches!(&restored, Ok(x) if *x == orig) { println!("OK"); std::process::exit(1) } else { println!("DEFECT the restored authorizer decides differently: block 1's rule no longer trusts the later block's key") }
}
