"""C08 — sealed tokens are final (structural necessary conditions)."""
import mirq, sigs
from props import chain


def check(fb, ctx):
    ctx.explanation = (
        "SEALED: every operation that extends a token needs the carried secret: TokenNext::keypair returns Err(AlreadySealed) "
        "for a seal, SerializedBiscuit::{append, append_serialized, seal} construct their result only after keypair()? "
        "succeeded, ThirdPartyRequest::from_container refuses sealed containers, and each public append/seal/request path of "
        "Biscuit and UnverifiedBiscuit reaches one of them. SEAL: seal signs the specified payload of the last block with the "
        "carried secret, stores TokenNext::Seal and keeps root key id, authority and blocks; Biscuit::seal / "
        "UnverifiedBiscuit::seal replace only the container. PROOF/PASS: verification of a sealed token checks the seal over the "
        "last block under the last next key and still verifies every block."
    )
    chain.needs_secret_rules(fb, ctx)
    chain.seal_rules(fb, ctx)
    chain.last_block_rules(fb, ctx)
    chain.layout_rules(fb, ctx, only=("generate_seal_signature_payload_v0",))
    chain.verify_inner_rules(fb, ctx)
    for fn in ("biscuit_auth::token::Biscuit::seal", "biscuit_auth::token::unverified::UnverifiedBiscuit::seal"):
        b = fb.body(fn)
        short = "::".join(fn.split("::")[-2:])
        # the only field assigned after the clone is `container`, from self.container.seal()
        assigned = sorted({"".join(p for p in (s["d"].get("p") or []) if p.startswith(".")) for blk in b["blocks"] for s in blk["s"] if s["d"].get("p") and any(p.startswith(".") for p in s["d"]["p"])})
        sc = mirq.calls_matching(fb, b, r"SerializedBiscuit::seal$")
        cl = [c for c in fb.calls(b) if not c.indirect and (c.rpath or "").endswith("Clone>::clone")]
        clone_form = assigned == [".container"] and len(sc) == 1 and sigs.Layout(fb, b).operand(sc[0].args[0]) == "arg1.container" and bool(cl)
        # equivalent: a struct literal whose container is self.container.seal() and whose other fields are copies of self's
        lit_form = False
        aggs_ = [s_ for _, s_ in mirq.aggregates(b, r"token::(unverified::)?(Biscuit|UnverifiedBiscuit)$")]
        if not clone_form and len(aggs_) == 1 and len(sc) == 1 and sigs.Layout(fb, b).operand(sc[0].args[0]) == "arg1.container":
            lit_form = True
            for f_ in (aggs_[0]["r"].get("fields") or []):
                lv_ = mirq.operand_leaves(fb, b, mirq.agg_field(aggs_[0], f_))
                if f_ == "container":
                    lit_form = lit_form and any(l.endswith("SerializedBiscuit::seal") for l in lv_)
                else:
                    lit_form = lit_form and {l for l in lv_ if l.startswith("arg")} == {f"arg1.{f_}"}
        ctx.check(clone_form or lit_form, "SEAL", f"{short}: a clone of self with only the container replaced by the sealed one", f"SEAL|{short}", f"fields assigned: {assigned}; seal calls: {len(sc)}", f"{b['file']}:{b['line']}")
        mirq.must_pass(fb, ctx, b, r"SerializedBiscuit::seal$", "SEAL", f"{short}: error of container.seal() is propagated", f"SEAL|{short}|used")
    ctx.not_decided = ["`authorizes exactly like the unsealed one` beyond identical blocks", "tamper resistance of sealed bytes beyond C01's rules"]
    ctx.trusted = ["oracle/signature_layout.json", "rustc MIR"]
