//! Minimal JSON value + writer (no external crates are available to a rustc_private driver here).

pub enum V {
    Null,
    Bool(bool),
    Int(i128),
    Str(String),
    Arr(Vec<V>),
    Obj(Vec<(&'static str, V)>),
}

impl V {
    pub fn s<S: Into<String>>(s: S) -> V {
        V::Str(s.into())
    }
    pub fn i<I: Into<i128>>(i: I) -> V {
        V::Int(i.into())
    }
    pub fn u(i: usize) -> V {
        V::Int(i as i128)
    }
    pub fn write(&self, out: &mut String) {
        match self {
            V::Null => out.push_str("null"),
            V::Bool(b) => out.push_str(if *b { "true" } else { "false" }),
            V::Int(i) => out.push_str(&i.to_string()),
            V::Str(s) => write_str(s, out),
            V::Arr(a) => {
                out.push('[');
                for (i, v) in a.iter().enumerate() {
                    if i > 0 {
                        out.push(',');
                    }
                    v.write(out);
                }
                out.push(']');
            }
            V::Obj(o) => {
                out.push('{');
                let mut first = true;
                for (k, v) in o.iter() {
                    if let V::Null = v {
                        continue;
                    }
                    if !first {
                        out.push(',');
                    }
                    first = false;
                    write_str(k, out);
                    out.push(':');
                    v.write(out);
                }
                out.push('}');
            }
        }
    }
}

fn write_str(s: &str, out: &mut String) {
    out.push('"');
    for c in s.chars() {
        match c {
            '"' => out.push_str("\\\""),
            '\\' => out.push_str("\\\\"),
            '\n' => out.push_str("\\n"),
            '\r' => out.push_str("\\r"),
            '\t' => out.push_str("\\t"),
            c if (c as u32) < 0x20 => out.push_str(&format!("\\u{:04x}", c as u32)),
            c => out.push(c),
        }
    }
    out.push('"');
}
