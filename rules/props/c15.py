"""C15 — revocation identifiers are stable, unique and not malleable (structural necessary conditions)."""
from props import chain


def check(fb, ctx):
    ctx.explanation = (
        "REVID: revocation_identifiers (verified and unverified) depends only on container.authority.signature and "
        "container.blocks[*].signature, in container order. SIGN/SEAL preserve: append*/seal keep the authority and existing "
        "blocks. FRESH: the default append/third-party paths create a new KeyPair from OsRng per block. PRIMITIVE/MALLEABLE: per "
        "algorithm, verification must reject every second encoding of a valid signature (ed25519: verify_strict + exact 64 bytes; "
        "P-256: strict DER and a high-S rejection). LAYOUT/SIGVER: v1 payloads and the seal cover the previous signature, and "
        "the chained scheme is never left once entered."
    )
    chain.revocation_rules(fb, ctx)
    chain.signer_rules(fb, ctx)
    chain.seal_rules(fb, ctx)
    chain.freshness_rules(fb, ctx)
    chain.primitive_rules(fb, ctx)
    chain.malleability_rules(fb, ctx)
    chain.layout_rules(fb, ctx, only=("generate_block_signature_payload_v1", "generate_seal_signature_payload_v0", "generate_external_signature_payload_v1"))
    chain.signature_version_rules(fb, ctx)
    ctx.not_decided = ["uniqueness across independently minted tokens (a probabilistic statement about the RNG)", "which blocks a given malleated encoding exposes (only the last block of an unsealed token and v0 blocks are not covered by a later signature)"]
    ctx.trusted = ["ed25519-dalek verify_strict is non-malleable", "the ecdsa crate does not enforce low-S for NistP256 (read in ecdsa-0.16.9 / p256-0.13.2)"]
