// F2 (C16): blocks using arrays, maps or `.get()` must declare datalog 3.3 (block version 6).
use biscuit_auth::{builder::*, *};
fn main() {
    let root = KeyPair::new();
    let mut defect = false;
    for (name, src) in [
        ("array fact", r#"a([1, 2]);"#),
        ("map fact", r#"m({"k": 1});"#),
        ("nested array in array", r#"a([[1]]);"#),
        ("get", r#"check if [1, 2].get(0) === 1;"#),
        ("control: null", r#"n(null);"#),
        ("control: plain", r#"p(1);"#),
    ] {
        let b = Biscuit::builder().code(src).unwrap().build(&root).unwrap();
        let v = b.block_version(0).unwrap();
        let expect = if name == "control: plain" { 3 } else { 6 };
        println!("{:24} declared version {} (expected {})", name, v, expect);
        if v != expect { defect = true }
    }
    if defect { println!("DEFECT under-declared block version") } else { println!("OK"); std::process::exit(1) }
}
