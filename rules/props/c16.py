"""C16 — blocks declare the language version they need; under-declared blocks are refused (structural part)."""
import json, os, re
import hirq, mirq
from facts import CheckerError, find_all
from props import chain
from props.c05 import strip, is_local, mcalls

ORACLE = os.path.join(os.path.dirname(os.path.abspath(__file__)), "..", "..", "oracle", "feature_versions.json")
D = "biscuit_auth::datalog"


def matches_set(node, enum_path):
    """Variants named by a `matches!(x, A | B | ..)` (or an explicit match returning true) over enum_path inside node."""
    out = set()
    for m in hirq.matches_in(node):
        for arm in m["arms"]:
            vs = {v for v in hirq.pat_variants(arm["pat"]) if v and v.startswith(enum_path + "::")}
            lit = hirq.literal(arm["body"])
            rets_true = [r for r in find_all(arm["body"], lambda n: n.get("k") == "ret") if hirq.literal(r.get("e")) is True]
            if vs and (lit is True or rets_true):
                out |= {v.split("::")[-1] for v in vs}
    return out



def kind_gate_rule(fb, ctx, short, b):
    """A serialized check carries an explicit kind from Datalog 3.1 on (declared version >= DATALOG_3_1 = MIN_SCHEMA_VERSION + 1): the
    loader refuses a kind exactly when the declared version is the minimum one. A wider test refuses valid blocks (`check all` in a
    3.1 block), a narrower one admits kinds where old verifiers ignore them."""
    h = fb.hir_of(b)
    def yields_error(n):
        """`if <gate> { Some(<error>) } ..` inside `if let Some(e) = checks.find_map(|c| ..) { return Err(e) }`: the error is produced as a
        value and returned by the statement that consumes it"""
        t = hirq.tail(n["then"])
        if not ((hirq.ctor_name(t) or "").endswith("::Some") and t.get("k") == "call" and t.get("args") and "error::" in (hirq.ctor_name(strip(t["args"][0])) or "")):
            return False
        for outer in find_all(h["body"], lambda z: z.get("k") == "if" and isinstance(z.get("cond"), dict) and strip(z["cond"]).get("k") == "letexpr"):
            le = strip(outer["cond"])
            ids = {b_["id"] for b_ in find_all(le["pat"], lambda z: z.get("k") == "bind")}
            if any((v or "").endswith("::Some") for v in hirq.pat_variants(le["pat"])) and find_all(le["init"], lambda z: z is n) and ids:
                r_ = [x for x in find_all(outer["then"], lambda z: z.get("k") == "ret") if (hirq.ctor_name(strip(x.get("e") or {})) or "").endswith("::Err") and find_all(x, lambda y: hirq.is_lid(y, ids))]
                if r_:
                    return True
        return False
    gates = [n for n in find_all(h["body"], lambda n: n.get("k") == "if" and not (strip(n["cond"]).get("k") == "letexpr" and find_all(n["cond"], lambda z: z.get("k") == "closure"))) if (hirq.err_variant(n["then"]) or yields_error(n)) and find_all(n["cond"], lambda z: z.get("k") == "field" and z.get("name") == "kind") and find_all(n["cond"], lambda z: z.get("k") == "mcall" and z.get("name") == "is_some")]
    ok, found = False, None
    if not gates:
        # the same gate written as a guarded arm: `match c.kind { Some(_) if version < DATALOG_3_1 => return Err(..), .. }`
        for m_ in find_all(h["body"], lambda z: z.get("k") == "match" and find_all(z.get("scrut"), lambda y: y.get("k") == "field" and y.get("name") == "kind")):
            for arm in m_["arms"]:
                if arm.get("guard") is not None and hirq.err_variant(arm["body"]) and any((v or "").endswith("::Some") for v in hirq.pat_variants(arm["pat"])) and not find_all(arm["pat"], lambda y: y.get("k") == "bind") :
                    gates.append({"cond": arm["guard"], "ln": arm.get("ln", m_["ln"])})
    if len(gates) == 1:      # (a per-check gate inside the loop over the checks is fine: no check, no kind)
        for c in find_all(gates[0]["cond"], lambda z: z.get("k") == "binary" and z.get("op") in ("Eq", "Lt", "Le", "Ne", "Gt", "Ge")):
            consts = [(z["res"].get("path") or "").split("::")[-1] for z in find_all(c, lambda z: z.get("k") == "path" and re.search(r"(MIN_SCHEMA_VERSION|DATALOG_3_\d)$", z.get("res", {}).get("path") or ""))]
            if consts:
                found = (c["op"], consts[0])
                ok = found in (("Eq", "MIN_SCHEMA_VERSION"), ("Le", "MIN_SCHEMA_VERSION"), ("Lt", "DATALOG_3_1"))
    ctx.check(ok, "GATE", f"{short}: a check kind is refused exactly below Datalog 3.1", f"GATE|{short}|check-kind", f"expected one `if version == MIN_SCHEMA_VERSION && checks.any(|c| c.kind.is_some()) {{ Err }}`; found {len(gates)} gate(s) with version test {found}", f"{b['file']}:{gates[0]['ln'] if gates else b['line']}")

def check(fb, ctx):
    ctx.explanation = (
        "DETECT: the feature detector used by the builders and by the loader (contains_v3_3_term/_op/_predicate, "
        "contains_v3_1_op, the check-kind loop, the scope test) classifies every variant of Term, Op, Unary, Binary, CheckKind "
        "exactly as the oracle table written from the specification (a new or unclassified variant is a violation); containers "
        "recurse; every position a term/op/scope can occupy is visited. VERSION: flags map to versions 3/4/6 and "
        "check_compatibility refuses each flag under a lower declared version. GATE: both block loaders return Ok only after the "
        "range test, the per-kind tests and check_compatibility(version)?. THIRDPARTY: minimum 3.2. SIGVER: the chained "
        "signature scheme is selected when needed and never left."
    )
    orc = json.load(open(ORACLE))
    # ---- DETECT: terms
    tb = fb.body(D + "::contains_v3_3_term")
    th = fb.hir_of(tb)
    tv = fb.variants(D + "::Term")
    ms = hirq.matches_in(th["body"])
    if len(ms) != 1:
        raise CheckerError("anchor: match in contains_v3_3_term")
    tab = hirq.cell_table(ms[0], [[f"{D}::Term::{v}" for v in tv]])
    for v in tv:
        want = orc["term"].get(v)
        i = tab.get((f"{D}::Term::{v}",))
        arm = ms[0]["arms"][i] if i is not None else None
        if want is None:
            ctx.fail("DETECT", f"Term::{v}", f"DETECT|Term::{v}|unclassified", f"datalog::Term::{v} is not in the feature/version oracle: classify it", f"{tb['file']}:{tb['line']}")
            continue
        lit = hirq.literal(arm["body"]) if arm else None
        rec = bool(arm and hirq.calls(arm["body"], r"datalog::contains_v3_3_term$")) or bool(arm and find_all(arm["body"], lambda n: n.get("k") == "path" and (n["res"].get("path") or "").endswith("contains_v3_3_term")))
        got = "3.3" if lit is True else ("3.0" if lit is False else ("recurse" if rec else "?"))
        ctx.check(got == want, "DETECT", f"Term::{v} -> {want}", f"DETECT|Term::{v}", f"contains_v3_3_term classifies Term::{v} as {got}, the specification says {want}", f"{tb['file']}:{arm['ln'] if arm else tb['line']}")
    # ---- DETECT: ops
    ob = fb.body(D + "::contains_v3_3_op")
    oh = fb.hir_of(ob)
    opm = [m for m in hirq.matches_in(oh["body"]) if "expression::Op" in (m.get("sty") or "")]
    if len(opm) != 1:
        raise CheckerError("anchor: match over Op in contains_v3_3_op")
    E = D + "::expression"
    for v in fb.variants(E + "::Op"):
        want = orc["op"].get(v)
        arms = [a for a in opm[0]["arms"] if f"{E}::Op::{v}" in hirq.pat_variants(a["pat"])]
        if want is None or not arms:
            ctx.fail("DETECT", f"Op::{v}", f"DETECT|Op::{v}", f"Op::{v} is not classified by contains_v3_3_op / the oracle", f"{ob['file']}:{ob['line']}")
            continue
        a = arms[0]
        if want == "term":
            ok = bool(hirq.calls(a["body"], r"datalog::contains_v3_3_term$"))
        elif want == "3.3":
            ok = hirq.literal(a["body"]) is True
        else:
            ok = True
        ctx.check(ok, "DETECT", f"Op::{v} -> {want}", f"DETECT|Op::{v}", f"arm for Op::{v} does not implement `{want}`", f"{ob['file']}:{a['ln']}")
    for enum, key, fn_node, need in (("Unary", "unary", oh["body"], "3.3"), ("Binary", "binary", oh["body"], "3.3")):
        got = matches_set(fn_node, f"{E}::{enum}")
        want = {k for k, v in orc[key].items() if v == need}
        allv = set(fb.variants(f"{E}::{enum}"))
        unknown = allv - set(orc[key])
        ctx.check(not unknown, "DETECT", f"{enum}: every variant is in the oracle", f"DETECT|{enum}|unclassified", f"variants {sorted(unknown)} of {enum} have no version in the oracle", f"{ob['file']}:{ob['line']}")
        ctx.check(got == want, "DETECT", f"{enum} operators needing datalog 3.3", f"DETECT|{enum}|3.3", f"detector lists {sorted(got)}; specification lists {sorted(want)}; missing {sorted(want - got)} extra {sorted(got - want)}", f"{ob['file']}:{ob['line']}")
    b31 = fb.body(D + "::contains_v3_1_op")
    h31 = fb.hir_of(b31)
    got = matches_set(h31["body"], f"{E}::Binary")
    want = {k for k, v in orc["binary"].items() if v == "3.1"}
    ctx.check(got == want, "DETECT", "Binary operators needing datalog 3.1", "DETECT|Binary|3.1", f"detector lists {sorted(got)}; specification lists {sorted(want)}", f"{b31['file']}:{b31['line']}")
    # predicates: every term
    pb = fb.hir_of(D + "::contains_v3_3_predicate")
    ctx.check(bool(find_all(pb["body"], lambda n: n.get("k") == "field" and n.get("name") == "terms")) and bool(find_all(pb["body"], lambda n: n.get("k") == "path" and (n["res"].get("path") or "").endswith("contains_v3_3_term"))) and bool(hirq.calls(pb["body"], r"::any$")), "DETECT", "contains_v3_3_predicate visits every term", "DETECT|predicate", "must be predicate.terms.iter().any(contains_v3_3_term)", "biscuit-auth/src/datalog/mod.rs")
    # ---- positions
    gb = fb.body(D + "::get_schema_version")
    gh0 = fb.hir_of(gb)
    # the scan may be factored into local helpers: look at get_schema_version and every workspace function it reaches,
    # except the per-term / per-op detectors themselves
    base = {D + "::contains_v3_3_term", D + "::contains_v3_3_op", D + "::contains_v3_1_op", D + "::contains_v3_3_predicate"}
    helper_bodies = []
    for k in fb.reachable([gb["key"]]):
        hb_ = fb.bodies[k]
        if hb_["path"] in base or hb_["kind"] == "Closure" or not hb_["path"].startswith(D + "::") or hb_.get("exp"):
            continue
        if hb_["key"] in fb.hir:
            helper_bodies.append(fb.hir[hb_["key"]]["body"])
    gh = {"body": {"k": "block", "stmts": helper_bodies, "expr": None}}

    def arg_fields(call):
        fs = set()
        for a in call.get("args", []):
            for n in find_all(a, lambda z: z.get("k") == "field"):
                fs.add(n["name"])
        return fs

    pos = set()
    for c in find_all(gh["body"], lambda n: n.get("k") == "call" and n.get("f", {}).get("k") == "path"):
        p = c["f"]["res"].get("path") or ""
        if p.endswith("contains_v3_3_predicate"):
            for f in arg_fields(c):
                pos.add(("pred", f))
        if p.endswith("contains_v3_3_op"):
            for f in arg_fields(c):
                pos.add(("op33", f))
        if p.endswith("contains_v3_1_op"):
            for f in arg_fields(c):
                pos.add(("op31", f))
    # `.any(contains_v3_3_predicate)` over a body: the function is passed as a value to any() on `<x>.body.iter()`
    for mc in find_all(gh["body"], lambda n: n.get("k") == "mcall" and n.get("name") == "any"):
        if any(a.get("k") == "path" and (a["res"].get("path") or "").endswith("contains_v3_3_predicate") for a in mc["args"]):
            for n in find_all(mc["recv"], lambda z: z.get("k") == "field"):
                pos.add(("pred", n["name"]))
    # count occurrences per (kind, field) within rules vs checks by the closure parameter they hang off
    def count(kind, field):
        n = 0
        for c in find_all(gh["body"], lambda z: z.get("k") in ("call", "mcall")):
            if c.get("k") == "call" and c.get("f", {}).get("k") == "path":
                p = c["f"]["res"].get("path") or ""
                if (kind == "pred" and p.endswith("contains_v3_3_predicate")) or (kind == "op33" and p.endswith("contains_v3_3_op")) or (kind == "op31" and p.endswith("contains_v3_1_op")):
                    if field in arg_fields(c):
                        n += 1
            if c.get("k") == "mcall" and c.get("name") == "any" and kind == "pred" and any(a.get("k") == "path" and (a["res"].get("path") or "").endswith("contains_v3_3_predicate") for a in c["args"]):
                if any(z["name"] == field for z in find_all(c["recv"], lambda z: z.get("k") == "field")):
                    n += 1
        return n

    need = {("pred", "head"): 1, ("pred", "body"): 2, ("pred", "predicate"): 1, ("op33", "expressions"): 2, ("op31", "expressions"): 2}
    factored = len(helper_bodies) > 1  # scans shared by rules and check queries through a helper count once
    for (kind, field), n in need.items():
        got_n = count(kind, field)
        ctx.check(got_n >= (1 if factored else n), "POSITIONS", f"{ {'pred':'3.3 terms','op33':'3.3 operators','op31':'3.1 operators'}[kind] } scanned in `.{field}` ({n} place(s): rules{' and check queries' if n == 2 else ''})", f"POSITIONS|{kind}|{field}", f"found {got_n} scan(s) of `.{field}`, expected {n}: a position that can hold the feature is not visited", f"{gb['file']}:{gb['line']}")
    p_rules = hirq.param_ids(gh0, 1)     # get_schema_version(facts, rules, checks, scopes): positional
    qs = [n for n in find_all(gh["body"], lambda z: z.get("k") == "mcall" and z.get("name") in ("any", "all", "for_each", "map", "flat_map", "iter")) if find_all(n.get("recv", {}), lambda z: z.get("k") == "field" and z.get("name") == "queries")]
    rl = [n for n in find_all(gh["body"], lambda z: z.get("k") == "mcall" and z.get("name") in ("any", "all")) if find_all(n.get("recv", {}), lambda z: hirq.is_lid(z, p_rules) or (z.get("k") == "field" and z.get("name") == "rules"))]
    ctx.check(len(qs) >= 2 and len(rl) >= 2, "POSITIONS", "both rules and check queries are scanned (3.1 and 3.3)", "POSITIONS|rules-and-queries", f"found {len(rl)} scans over rules and {len(qs)} over check queries", f"{gb['file']}:{gb['line']}")
    # check kinds and scopes
    kinds = {}
    for n in find_all(gh["body"], lambda z: z.get("k") == "binary" and z.get("op") == "Eq"):
        for side in (n["a"], n["b"]):
            c = hirq.ctor_name(strip(side)) or (strip(side).get("res", {}).get("path") if strip(side).get("k") == "path" else None)
            if c and "CheckKind::" in c:
                kinds[c.split("::")[-1]] = True
    ctx.check(kinds.get("All") and kinds.get("Reject"), "POSITIONS", "check kinds All (3.1) and Reject (3.3) are detected", "POSITIONS|check-kind", f"found tests for {sorted(kinds)}", f"{gb['file']}:{gb['line']}")
    ck_unknown = set(fb.variants("biscuit_auth::token::builder::check::CheckKind")) - set(orc["check_kind"])
    ctx.check(not ck_unknown, "DETECT", "every CheckKind variant is in the oracle", "DETECT|CheckKind|unclassified", f"unclassified {sorted(ck_unknown)}", f"{gb['file']}:{gb['line']}")
    sc = [n["name"] for n in find_all(gh["body"], lambda z: z.get("k") == "field" and z.get("name") == "scopes")]
    empt = mcalls(gh["body"], r"::is_empty$")
    ctx.check(len(sc) >= 2 and len(empt) >= 3, "POSITIONS", "scopes detected on the block, on rules and on check queries", "POSITIONS|scopes", f"found {len(empt)} emptiness tests and {len(sc)} reads of `.scopes`", f"{gb['file']}:{gb['line']}")
    # ---- VERSION mapping
    vb = fb.body(D + "::SchemaVersion::version")
    vh = fb.hir_of(vb)
    ifs = find_all(vh["body"], lambda n: n.get("k") == "if")
    first = ifs[0] if ifs else None
    ok = first is not None and strip(first["cond"]).get("name") == "contains_v3_3" and (strip(hirq.tail(first["then"])).get("res", {}).get("path") or "").endswith("DATALOG_3_3")
    second = strip(first["else"]) if ok and first.get("else") else None
    ok2 = False
    if isinstance(second, dict) and second.get("k") == "if":
        names = {n["name"] for n in find_all(second["cond"], lambda z: z.get("k") == "field")}
        ok2 = names == {"contains_scopes", "contains_v3_1", "contains_check_all"} and (strip(hirq.tail(second["then"])).get("res", {}).get("path") or "").endswith("DATALOG_3_1") and (strip(hirq.tail(second["else"])).get("res", {}).get("path") or "").endswith("MIN_SCHEMA_VERSION")
    ctx.check(ok and ok2, "VERSION", "flags -> declared version (3.3 first, then 3.1, else minimum)", "VERSION|version", "SchemaVersion::version must return DATALOG_3_3 for contains_v3_3, DATALOG_3_1 for scopes|v3_1|check_all, MIN otherwise", f"{vb['file']}:{vb['line']}")
    cb = fb.body(D + "::SchemaVersion::check_compatibility")
    ch = fb.hir_of(cb)
    p_version = hirq.param_ids(ch, 1)    # check_compatibility(&self, version): positional
    # every flag has a refusing branch guarded by `version < <its version>`
    top = strip(hirq.tail(ch["body"]))
    guards = {}

    def walk_if(n, outer):
        n = strip(n)
        if not isinstance(n, dict) or n.get("k") != "if":
            return
        c = strip(n["cond"])
        lts = [x for x in find_all(c, lambda z: z.get("k") == "binary" and z.get("op") == "Lt" and hirq.is_lid(strip(z["a"]), p_version))]
        bound = [(strip(x["b"]).get("res", {}).get("path") or "").split("::")[-1] for x in lts]
        flags = [z["name"] for z in find_all(c, lambda z: z.get("k") == "field" and z.get("name", "").startswith("contains_"))]
        cur = outer + bound
        if flags and hirq.err_variant(n["then"]):
            for f in flags:
                guards[f] = cur[-1] if cur else None
        walk_if(n["then"], cur)
        if n.get("else"):
            # the else branch is not under this condition's bound
            walk_if(n["else"], outer if flags and not bound else (outer if bound and flags else outer))
            # nested `else if` chains inside a `version < X` block keep the bound of the enclosing block
    # simple two-level walk: top-level chain
    node = top
    while isinstance(node, dict) and node.get("k") == "if":
        c = strip(node["cond"])
        lts = [x for x in find_all(c, lambda z: z.get("k") == "binary" and z.get("op") == "Lt" and hirq.is_lid(strip(z["a"]), p_version))]
        bound = [(strip(x["b"]).get("res", {}).get("path") or "").split("::")[-1] for x in lts]
        flags = [z["name"] for z in find_all(c, lambda z: z.get("k") == "field" and z.get("name", "").startswith("contains_"))]
        if flags and hirq.err_variant(node["then"]) and bound:
            for f in flags:
                guards[f] = bound[0]
        elif bound and not flags:
            inner = strip(hirq.tail(node["then"]))
            while isinstance(inner, dict) and inner.get("k") == "if":
                fl = [z["name"] for z in find_all(inner["cond"], lambda z: z.get("k") == "field" and z.get("name", "").startswith("contains_"))]
                if fl and hirq.err_variant(inner["then"]):
                    for f in fl:
                        guards[f] = bound[0]
                inner = strip(inner.get("else")) if inner.get("else") else None
        node = strip(node.get("else")) if node.get("else") else None
    want = {"contains_v3_3": "DATALOG_3_3", "contains_scopes": "DATALOG_3_1", "contains_v3_1": "DATALOG_3_1", "contains_check_all": "DATALOG_3_1"}
    # shape-independent decision: abstract evaluation of check_compatibility over the whole finite domain (4 declared versions x 16
    # flag combinations) against the specification - Err iff (3.3 content and version < 3.3) or (3.1 content and version < 3.1)
    consts = {}
    for m_ in re.finditer(r"pub const (MIN_SCHEMA_VERSION|MAX_SCHEMA_VERSION|DATALOG_3_[123]): u32 = (\d+);", open(os.path.join(os.environ.get("VERIF_REPO", "/repo"), "biscuit-auth/src/token/mod.rs")).read()):
        consts[m_.group(1)] = int(m_.group(2))
    table_ok, bad_cell, unknown = None, None, None
    if len(consts) == 5 and p_version:
        import itertools
        table_ok = True
        flags_ = ["contains_scopes", "contains_v3_1", "contains_check_all", "contains_v3_3"]
        for ver in range(consts["MIN_SCHEMA_VERSION"], consts["MAX_SCHEMA_VERSION"] + 1):
            for bits in itertools.product([False, True], repeat=4):
                env = {list(p_version)[0]: ver}
                env.update({"self." + f_: b_ for f_, b_ in zip(flags_, bits)})
                try:
                    got_ = hirq.eval_pure(ch["body"], env, consts)
                except hirq.Unknown as e_:
                    # second evaluator (patterns, closures, Option combinators, literal tables searched with find / any)
                    import absint
                    try:
                        self_ids = hirq.param_ids(ch, 0)
                        it_ = absint.Interp(consts=consts, fields={("self", f_): b_ for f_, b_ in zip(flags_, bits)})
                        v_ = it_.run(ch["body"], {list(p_version)[0]: ver, **{i_: absint.sym("self") for i_ in self_ids}})
                        got_ = absint.tag(v_) if absint.tag(v_) in ("Ok", "Err") else None
                        if got_ is None:
                            raise absint.Unknown("result " + absint.show(v_))
                    except absint.Unknown as e2_:
                        table_ok, unknown = None, f"{e_} / {e2_}"
                        break
                fl_ = dict(zip(flags_, bits))
                want_ = "Err" if (fl_["contains_v3_3"] and ver < consts["DATALOG_3_3"]) or ((fl_["contains_scopes"] or fl_["contains_v3_1"] or fl_["contains_check_all"]) and ver < consts["DATALOG_3_1"]) else "Ok"
                if got_ != want_:
                    table_ok, bad_cell = False, (ver, {k_: v_ for k_, v_ in fl_.items() if v_}, got_, want_)
                    break
            if table_ok is not True:
                break
    if table_ok is None:      # a construct the evaluator does not know: fall back to the structural reading of the if-chain
        ctx.check(guards == want, "VERSION", "each feature flag is refused under every lower declared version", "VERSION|check_compatibility", f"refusing guards found: {guards}; expected {want} (abstract evaluation gave up on `{unknown}`)", f"{cb['file']}:{cb['line']}")
    else:
        ctx.check(table_ok, "VERSION", "each feature flag is refused under every lower declared version (64 cells)", "VERSION|check_compatibility", f"declared version {bad_cell[0] if bad_cell else '?'} with content {bad_cell[1] if bad_cell else '?'}: check_compatibility returns {bad_cell[2] if bad_cell else '?'}, the specification requires {bad_cell[3] if bad_cell else '?'}", f"{cb['file']}:{cb['line']}")
    # the 3.3 guard must not be nested under `version >= 3.1` (i.e. it is the first test or independent)
    c0 = strip(top["cond"]) if isinstance(top, dict) and top.get("k") == "if" else {}
    first_flags = [z["name"] for z in find_all(c0, lambda z: z.get("k") == "field")]
    ctx.check(table_ok is True or "contains_v3_3" in first_flags, "VERSION", "3.3 content is tested for every declared version below 3.3", "VERSION|v3_3-first", "the contains_v3_3 test is only reached for some declared versions", f"{cb['file']}:{cb['line']}")
    # ---- GATE
    for fn in ("biscuit_auth::format::convert::proto_block_to_token_block", "biscuit_auth::format::convert::proto_snapshot_block_to_token_block"):
        b = fb.body(fn)
        short = fn.split("::")[-1]
        mirq.must_pass(fb, ctx, b, r"datalog::SchemaVersion::check_compatibility$", "GATE", f"{short}: Ok only after check_compatibility(version)?", f"GATE|{short}|compat")
        cc = mirq.calls_matching(fb, b, r"datalog::SchemaVersion::check_compatibility$")
        gs = mirq.calls_matching(fb, b, r"datalog::get_schema_version$")
        if cc and gs:
            lv = mirq.operand_leaves(fb, b, cc[0].args[0])
            lver = mirq.operand_leaves(fb, b, cc[0].args[1])
            ctx.check(any("get_schema_version" in l for l in lv) and any(l.endswith(".version") for l in lver), "GATE", f"{short}: detected features are compared with the declared version", f"GATE|{short}|args", f"check_compatibility(self<-{sorted(l for l in lv if 'call' in l)[:3]}, version<-{sorted(l for l in lver if l.startswith('arg'))})", f"{b['file']}:{cc[0].ln}")
            la = set()
            for a in gs[0].args:
                la |= mirq.operand_leaves(fb, b, a)
        # range test
        h = fb.hir_of(b)
        rng = [n for n in find_all(h["body"], lambda n: n.get("k") == "if") if hirq.err_variant(n["then"]) and find_all(n["cond"], lambda z: z.get("k") == "path" and (z["res"].get("path") or "").endswith("MIN_SCHEMA_VERSION")) and find_all(n["cond"], lambda z: z.get("k") == "path" and (z["res"].get("path") or "").endswith("MAX_SCHEMA_VERSION"))]
        ctx.check(len(rng) == 1 and not hirq.inside_loop(h, rng[0]), "GATE", f"{short}: declared version outside MIN..=MAX is refused", f"GATE|{short}|range", "range test on the declared version not found", f"{b['file']}:{b['line']}")
        kind_gate_rule(fb, ctx, short, b)
        # `external_key.is_some()` may be computed into a variable first (e.g. passed to a helper as `third_party: bool`)
        some_ids = hirq.let_ids(h["body"], lambda i: bool(mcalls(i, r"Option::<T>::is_some$")))
        tp = [n for n in find_all(h["body"], lambda n: n.get("k") == "if") if hirq.err_variant(n["then"]) and find_all(n["cond"], lambda z: z.get("k") == "path" and (z["res"].get("path") or "").endswith("DATALOG_3_2")) and (mcalls(n["cond"], r"Option::<T>::is_some$") or find_all(n["cond"], lambda z: hirq.is_lid(z, some_ids)))]
        if short == "proto_block_to_token_block":  # snapshot blocks were already admitted by this gate when the token was loaded
            ctx.check(len(tp) == 1 and not hirq.inside_loop(h, tp[0]), "THIRDPARTY", f"{short}: a block with an external key below 3.2 is refused", f"THIRDPARTY|{short}", "`if version < DATALOG_3_2 && external_key.is_some() { Err }` not found as an unconditional statement of the loader (inside a loop over the block's content it is skipped when that content is empty)", f"{b['file']}:{b['line']}")
    cb2 = fb.body("biscuit_auth::token::third_party::ThirdPartyRequest::create_block")
    mx = [c for c in fb.calls(cb2) if not c.indirect and (c.rpath or "").endswith("cmp::max")]
    okm = len(mx) == 1 and any(a.get("k") == "const" and a.get("int") == 5 for a in mx[0].args)
    ctx.check(okm, "THIRDPARTY", "third-party blocks declare at least 3.2", "THIRDPARTY|create_block", "create_block must set block.version = max(DATALOG_3_2, block.version)", f"{cb2['file']}:{cb2['line']}")
    # every path from token bytes to evaluation goes through the loader
    bl = fb.body("biscuit_auth::token::Biscuit::block")
    ctx.check(len(mirq.calls_matching(fb, bl, r"convert::proto_block_to_token_block$")) >= 1 and not mirq.aggregates(bl, r"token::block::Block$"), "GATE", "Biscuit::block converts through proto_block_to_token_block", "GATE|Biscuit::block", "block accessor does not go through the gated loader", f"{bl['file']}:{bl['line']}")
    # ---- SIGVER (shared)
    chain.signature_version_rules(fb, ctx)
    # builders declare the detected version
    bb = fb.body("biscuit_auth::token::builder::block::BlockBuilder::build")
    blk = [s for _, s in mirq.aggregates(bb, r"token::block::Block$")]
    okb = bool(blk) and any("SchemaVersion::version" in l for l in mirq.operand_leaves(fb, bb, mirq.agg_field(blk[0], "version"))) and any("get_schema_version" in l for l in mirq.operand_leaves(fb, bb, mirq.agg_field(blk[0], "version")))
    ctx.check(okb, "VERSION", "BlockBuilder::build declares get_schema_version(..).version()", "VERSION|build", "the built block's version is not the detected one", f"{bb['file']}:{bb['line']}")
    ctx.not_decided = ["that older verifiers mis-handle under-declared blocks (external behaviour)"]
    ctx.trusted = ["oracle/feature_versions.json (from the specification)", "rustc pattern resolution"]
