"""MIR queries used by the rule instances: success edges of fallible calls (PASS/USED), value-return blocks,
may-depend sets (WIRE), aggregates, loops."""
import re
from collections import defaultdict
from facts import CheckerError
from reach import def_index, short, origin, place_origin
from zones import cfg, Resolver


# ----------------------------------------------------------------------------------------------- basics
def term(body, bb):
    return body["blocks"][bb].get("t") or {}


def calls_matching(fb, body, regex):
    r = re.compile(regex)
    return [c for c in fb.calls(body) if not c.indirect and (r.search(c.rpath or "") or r.search(c.path or ""))]


def created_closures(fb, body, depth=0):
    """bodies of the closures created in `body` (also in code inlined from a new helper), transitively"""
    out = []
    for blk in body.get("blocks") or []:
        for st in blk["s"]:
            r = st["r"]
            if r.get("k") == "agg" and r.get("ak") == "closure" and r.get("closure") in fb.bodies:
                cb = fb.bodies[r["closure"]]
                if all(cb is not x for x in out):
                    out.append(cb)
                    if depth < 3:
                        out += [x for x in created_closures(fb, cb, depth + 1) if all(x is not y for y in out)]
    return out


def deep_calls_matching(fb, body, regex):
    """calls_matching over the body and the closures it creates (a loop body that became the closure of an iterator adaptor)"""
    out = list(calls_matching(fb, body, regex))
    for cb in created_closures(fb, body):
        out += calls_matching(fb, cb, regex)
    return out


def one_call(fb, body, regex, what=None):
    cs = calls_matching(fb, body, regex)
    if len(cs) != 1:
        raise CheckerError(f"anchor: expected exactly one call matching /{regex}/ in {body['path']}, found {len(cs)}")
    return cs[0]


def dominates(body, a, b):
    g = cfg(body)
    return b in g["dom"] and a in g["dom"][b]


def reachable_from(body, start, avoid=()):
    g = cfg(body)
    seen = set()
    st = [start]
    while st:
        x = st.pop()
        if x in seen or x in avoid:
            continue
        seen.add(x)
        st.extend(g["succ"][x])
    return seen


def uses_of_local(body, l):
    """[(bb, kind, item)] places where local l is read (as operand or through a place)."""
    out = []

    def op_uses(op):
        return op.get("k") in ("copy", "move") and op["pl"]["l"] == l

    for i, blk in enumerate(body["blocks"]):
        for s in blk["s"]:
            r = s["r"]
            k = r.get("k")
            ops = []
            if k in ("use", "cast", "repeat"):
                ops = [r["op"]]
            elif k == "binop":
                ops = [r["a"], r["b"]]
            elif k == "unop":
                ops = [r["a"]]
            elif k == "agg":
                ops = r["ops"]
            if any(op_uses(o) for o in ops):
                out.append((i, "stmt", s))
            if k in ("ref", "rawptr", "discr") and r["pl"]["l"] == l:
                out.append((i, "stmt", s))
        t = blk.get("t") or {}
        if t.get("k") == "call":
            if any(op_uses(a) for a in t["a"]):
                out.append((i, "call", t))
        elif t.get("k") == "switch":
            if op_uses(t["d"]):
                out.append((i, "switch", t))
        elif t.get("k") == "assert":
            if op_uses(t["c"]):
                out.append((i, "assert", t))
    return out


# ----------------------------------------------------------------------------------------------- PASS / USED
PASS_THROUGH = re.compile(r"(Result::<T, E>::(map_err|map|or_else|and_then)|Option::<T>::(ok_or|ok_or_else|map))$")


def _follow_result(fb, body, local, depth=0):
    """Follow a Result/Option/bool value from `local` to the branch that inspects it.
    Returns list of ('branch', D, ok_target, err_targets) or ('returned',) / ('dropped',) / ('passed', call)."""
    out = []
    if depth > 8:
        return out
    for (bb, kind, item) in uses_of_local(body, local):
        if kind == "call":
            f = item["f"]
            p = f["fn"].get("rpath", f["fn"]["path"]) if f.get("k") == "fn" else ""
            d = item.get("d")
            if p.endswith("Try>::branch") or p.endswith("Try::branch"):
                # _b = branch(x); discr(_b) ; switch 0 -> Continue, 1 -> Break
                out.extend(_follow_discr(fb, body, d["l"], ok_value=0))
            elif PASS_THROUGH.search(p) and item["a"] and item["a"][0].get("k") in ("copy", "move") and item["a"][0]["pl"]["l"] == local:
                if d["l"] == 0 and not d.get("p"):
                    out.append(("returned", bb))
                else:
                    out.extend(_follow_result(fb, body, d["l"], depth + 1))
            elif re.search(r"(Result::<T, E>::(is_ok|is_err)|Option::<T>::(is_some|is_none))$", p):
                pos = p.endswith("is_ok") or p.endswith("is_some")
                out.extend(_follow_bool(fb, body, d["l"], positive=pos))
            elif re.search(r"(Result::<T, E>::(unwrap|expect)|Option::<T>::(unwrap|expect))$", p):
                out.append(("unwrapped", bb))
            else:
                out.append(("passed", bb, p))
        elif kind == "stmt":
            r = item["r"]
            d = item["d"]
            if r.get("k") == "discr":
                # the success variant: Ok / Continue have discriminant 0, but Some has 1 (None = 0)
                ty = str((body.get("locals") or [])[local] if local < len(body.get("locals") or []) else "")
                out.extend(_follow_discr_local(fb, body, d["l"], ok_value=1 if re.match(r"(&(mut )?)?(std|core)::option::Option<", ty) else 0))
            elif r.get("k") in ("use", "ref", "cast") and not d.get("p"):
                if d["l"] == 0:
                    out.append(("returned", bb))
                else:
                    out.extend(_follow_result(fb, body, d["l"], depth + 1))
            elif r.get("k") == "unop" and r["op"] == "Not":
                for x in _follow_bool(fb, body, d["l"], positive=False):
                    out.append(x)
            else:
                out.append(("stored", bb))
        elif kind == "switch":
            # bool switch directly on the value
            t = item
            tv = [b for v, b in t["ts"] if v == 0]
            out.append(("branch", bb, t["o"], tv))
    return out


def _follow_discr(fb, body, local, ok_value):
    out = []
    for (bb, kind, item) in uses_of_local(body, local):
        if kind == "stmt" and item["r"].get("k") == "discr":
            out.extend(_follow_discr_local(fb, body, item["d"]["l"], ok_value))
    return out


def _follow_discr_local(fb, body, dl, ok_value):
    out = []
    for (bb, kind, item) in uses_of_local(body, dl):
        if kind == "switch":
            oks = [b for v, b in item["ts"] if v == ok_value]
            errs = [b for v, b in item["ts"] if v != ok_value]
            if not oks:
                oks = [item["o"]]
            else:
                errs.append(item["o"])
            out.append(("branch", bb, oks[0], errs))
    return out


def _follow_bool(fb, body, local, positive=True):
    out = []
    for (bb, kind, item) in uses_of_local(body, local):
        if kind == "switch":
            f = [b for v, b in item["ts"] if v == 0]
            tr = item["o"]
            if positive:
                out.append(("branch", bb, tr, f))
            else:
                out.append(("branch", bb, f[0] if f else None, [tr]))
        elif kind == "stmt" and item["r"].get("k") == "unop" and item["r"]["op"] == "Not":
            out.extend(_follow_bool(fb, body, item["d"]["l"], not positive))
        elif kind == "stmt" and item["r"].get("k") == "use" and not item["d"].get("p"):
            out.extend(_follow_bool(fb, body, item["d"]["l"], positive))
    return out


def result_branches(fb, body, call):
    """How the value returned by `call` is consumed."""
    d = call.dest
    if d is None or d.get("p"):
        return []
    return _follow_result(fb, body, d["l"])


def success_edge(fb, body, call):
    """(D, S): the branch block and the successor taken when the fallible call succeeded; None when the result
    is not checked by a branch."""
    br = [b for b in result_branches(fb, body, call) if b[0] == "branch"]
    if len(br) >= 1:
        return (br[0][1], br[0][2], br[0][3])
    return None


def value_return_blocks(body):
    """Blocks that put a non-error value in the return place: `_0 = Ok(..)`, `_0 = Some(..)`, `_0 = <call>` that is
    not the `?` residual conversion, `_0 = move x`. Used as the 'success returns' of a function."""
    out = []
    for i, blk in enumerate(body["blocks"]):
        if blk.get("cleanup"):
            continue
        for s in blk["s"]:
            d = s["d"]
            if d["l"] == 0 and not d.get("p"):
                r = s["r"]
                if r.get("k") == "agg" and r.get("ak") == "adt" and r.get("variant") in ("Err", "None"):
                    continue
                out.append((i, "assign", s))
        t = blk.get("t") or {}
        if t.get("k") == "call" and t.get("d") and t["d"]["l"] == 0 and not t["d"].get("p"):
            f = t["f"]
            p = f["fn"].get("rpath", f["fn"]["path"]) if f.get("k") == "fn" else ""
            if "FromResidual" in p or p.endswith("from_residual"):
                continue
            out.append((i, "call", t))
    return out


def err_return_desc(fb, body, bb):
    """Does block bb (or its straight-line successors) lead to an early error return? (`?` residual or `return Err`)"""
    seen = set()
    st = [bb]
    g = cfg(body)
    while st:
        x = st.pop()
        if x in seen or len(seen) > 12:
            continue
        seen.add(x)
        blk = body["blocks"][x]
        for s in blk["s"]:
            if s["d"]["l"] == 0 and s["r"].get("k") == "agg" and s["r"].get("variant") in ("Err", "None"):
                return True
        t = blk.get("t") or {}
        if t.get("k") == "call" and t["f"].get("k") == "fn":
            p = t["f"]["fn"].get("rpath", t["f"]["fn"]["path"])
            if "FromResidual" in p and t.get("d") and t["d"]["l"] == 0:
                return True
        if t.get("k") in ("goto", "call", "drop"):
            st.extend(g["succ"][x])
    return False


def must_pass(fb, ctx, body, call_regex, rule, instance, key, sinks=None, what="success return"):
    """PASS: every success return of `body` (or every block in `sinks`) is dominated by the success edge of a call
    matching call_regex."""
    cs = calls_matching(fb, body, call_regex)
    where = f"{body['file']}:{body['line']}"
    if not cs:
        ctx.fail(rule, instance, key, f"`{body['path']}` no longer calls /{call_regex}/", where)
        return False
    edges = []
    returned_blocks = set()
    for c in cs:
        e = success_edge(fb, body, c)
        if e:
            edges.append((c, e))
        # `f(..)` / `f(..).map_err(..)` as the tail expression: the callee's Result *is* this function's result
        for u in result_branches(fb, body, c):
            if u[0] == "returned":
                returned_blocks.add(u[1])
        if c.dest is not None and c.dest["l"] == 0 and not c.dest.get("p"):
            returned_blocks.add(c.bb)
    if not edges and not returned_blocks:
        c = cs[0]
        ctx.fail(rule, instance, key, f"result of `{c.callee}` is not checked by a branch in `{body['path']}`", f"{body['file']}:{c.ln}")
        return False
    targets = sinks if sinks is not None else [b for b, _, _ in value_return_blocks(body)]
    if not targets:
        raise CheckerError(f"no {what} found in {body['path']}")
    bad = []
    for t in targets:
        if t in returned_blocks:
            continue
        if not any(S is not None and dominates(body, S, t) and _edge_only(body, D, S) for (_, (D, S, errs)) in edges):
            bad.append(t)
    if bad:
        ln = term(body, bad[0]).get("ln") or body["line"]
        ctx.fail(rule, instance, key, f"a {what} of `{body['path']}` (bb{bad[0]}) is reachable without passing the success edge of `{short(cs[0].callee)}`", f"{body['file']}:{ln}")
        return False
    ctx.ok(rule, instance, f"{body['file']}:{cs[0].ln}", f"{len(targets)} {what}(s) dominated by the success edge of {short(cs[0].callee)}" + (" / its Result is returned as is" if returned_blocks else ""))
    return True


def _edge_only(body, D, S):
    g = cfg(body)
    others = [p for p in g["pred"][S] if p != D and p in g["reach"]]
    return all(S in g["dom"].get(p, ()) for p in others)


def returned_directly(body, call):
    """the call's value is the function's own result: its destination is `_0`, or is moved into `_0` through plain moves.
    Returns the set of blocks that put the value into `_0` (empty = not returned directly)."""
    if call.dest is None or call.dest.get("p"):
        return set()
    cur, hops = call.dest["l"], 0
    if cur == 0:
        return {call.bb}
    while hops < 6:
        hops += 1
        nxt = [(i, s["d"]["l"]) for i, blk in enumerate(body["blocks"]) for s in blk["s"] if s["r"].get("k") == "use" and s["r"]["op"].get("k") in ("move", "copy") and s["r"]["op"]["pl"]["l"] == cur and not s["r"]["op"]["pl"].get("p") and not s["d"].get("p")]
        if len(nxt) != 1:
            return set()
        if nxt[0][1] == 0:
            return {nxt[0][0]}
        cur = nxt[0][1]
    return set()


def result_used(fb, ctx, body, call, rule, instance, key):
    """USED: the Result/bool of this call is consumed by a branch (directly or through `?`) or returned to the caller."""
    uses = result_branches(fb, body, call)
    kinds = {u[0] for u in uses}
    if call.dest is not None and call.dest["l"] == 0 and not call.dest.get("p"):
        kinds.add("returned")      # the call's value is the function's (closure's) own result
    where = f"{body['file']}:{call.ln}"
    if "branch" in kinds or "returned" in kinds:
        ctx.ok(rule, instance, where, f"result of {short(call.callee)} consumed by {sorted(kinds)}")
        return True
    ctx.fail(rule, instance, key, f"result of `{short(call.callee)}` is not checked in `{body['path']}` (uses: {sorted(kinds) or 'none'})", where)
    return False


# ----------------------------------------------------------------------------------------------- WIRE (may-depend)
def _named_proj(pl):
    """Only named struct fields extend an access path; tuple positions, enum downcasts, derefs and indexing are collection /
    wrapper element accesses and are elided (`self.blocks[*].next_key` reads as `arg1.blocks.next_key`)."""
    return "".join(p for p in (pl.get("p") or []) if p.startswith(".") and not p[1:].isdigit())


def _enum_mapping_switch(body, t):
    """switch on the discriminant of a plain (non Option/Result/ControlFlow) enum value: `match alg { A => X, B => Y }`"""
    d = t["d"]
    if d.get("k") not in ("copy", "move") or d["pl"].get("p"):
        return False
    for blk in body["blocks"]:
        for st in blk["s"]:
            if st["d"]["l"] == d["pl"]["l"] and not st["d"].get("p") and st["r"].get("k") == "discr":
                pl = st["r"]["pl"]
                ty = body["locals"][pl["l"]]
                if any(x != "*" for x in (pl.get("p") or [])):
                    return False
                ty = ty.lstrip("&").replace("mut ", "")
                return not ty.startswith(("std::option::Option<", "std::result::Result<", "std::ops::ControlFlow<"))
    return False


def deps(fb, body):
    """Flow-insensitive may-depend sets: local -> set of leaves. Leaves: `arg<i>.path`, `const:<v>`, `call:<callee>`.
    A call makes its destination depend on all arguments and the callee; arguments passed as `&mut x` make x depend on the
    other arguments (how `extend(&mut buf, v)` adds v to buf)."""
    if "_deps" in body:
        return body["_deps"]
    dep = defaultdict(set)
    for i in range(1, body["argc"] + 1):
        dep[i].add(f"arg{i}")  # positional names: renaming a parameter must not matter
    res = Resolver(body)

    def place_deps(pl):
        l = pl["l"]
        proj = _named_proj(pl)
        out = set()
        for leaf in dep[l]:
            if proj and not leaf.startswith(("const:", "call:")) and leaf.count(".") < 5 and not leaf.endswith(proj):
                out.add(leaf + proj)
            else:
                out.add(leaf)
        return out

    def op_deps(op):
        k = op.get("k")
        if k in ("copy", "move"):
            return place_deps(op["pl"])
        if k == "const":
            v = op.get("v", "")
            if v.startswith('b"') or v.startswith('"'):
                return {"const:" + v}
            return set()
        if k == "fn":
            return set()
        return set()

    # referents of &mut temporaries
    mutref = {}
    for blk in body["blocks"]:
        for s in blk["s"]:
            r = s["r"]
            if r.get("k") == "ref" and r.get("mut") and not s["d"].get("p"):
                mutref[s["d"]["l"]] = r["pl"]["l"]
    # pointer provenance: `p2 = p1 as *T` / `p2 = copy p1.field` - a store through *p2 also changes what p1 points to
    alias_of = defaultdict(set)
    for blk in body["blocks"]:
        for s in blk["s"]:
            r = s["r"]
            if s["d"].get("p"):
                continue
            src = None
            if r.get("k") in ("cast", "use") and r["op"].get("k") in ("copy", "move"):
                src = r["op"]["pl"]["l"]
            elif r.get("k") in ("ref", "rawptr") and "*" in (r["pl"].get("p") or []):
                src = r["pl"]["l"]
            if src is not None and ("*" in body["locals"][s["d"]["l"]] or body["locals"][s["d"]["l"]].startswith(("&", "std::boxed::Box", "std::ptr::"))):
                alias_of[s["d"]["l"]].add(src)

    def ancestors(l):
        out, st = set(), [l]
        while st:
            x = st.pop()
            for a in alias_of.get(x, ()):
                if a not in out:
                    out.add(a)
                    st.append(a)
        return out

    changed = True
    rounds = 0
    while changed and rounds < 30:
        changed = False
        rounds += 1
        for blk in body["blocks"]:
            for s in blk["s"]:
                r = s["r"]
                k = r.get("k")
                new = set()
                if k in ("use", "cast", "repeat"):
                    new = op_deps(r["op"])
                elif k in ("ref", "rawptr", "discr"):
                    new = place_deps(r["pl"])
                elif k == "binop":
                    new = op_deps(r["a"]) | op_deps(r["b"])
                elif k == "unop":
                    new = op_deps(r["a"])
                elif k == "agg":
                    for o in r["ops"]:
                        new |= op_deps(o)
                    if r.get("ak") == "closure" and r.get("closure") in fb.bodies:
                        # what calling the closure may yield: the calls of its body (`sign(.., || generate_payload(..))`)
                        for c_ in fb.calls(fb.bodies[r["closure"]]):
                            if not c_.indirect:
                                new.add("call:" + short(c_.rpath or c_.path))
                d = s["d"]["l"]
                if not new <= dep[d]:
                    dep[d] |= new
                    changed = True
                if "*" in (s["d"].get("p") or []):
                    for a in ancestors(d):
                        if not new <= dep[a]:
                            dep[a] |= new
                            changed = True
            t = blk.get("t") or {}
            if t.get("k") == "switch":
                # implicit flow: values assigned in the arms of a switch depend on what was switched on
                cd = op_deps(t["d"]) if _enum_mapping_switch(body, t) else set()
                if cd:
                    g = cfg(body)
                    me = body["blocks"].index(blk)
                    for sx in set(g["succ"][me]):
                        if g["pred"][sx] != [me]:
                            continue
                        sb = body["blocks"][sx]
                        for st in sb["s"]:
                            dl = st["d"]["l"]
                            if not cd <= dep[dl]:
                                dep[dl] |= cd
                                changed = True
                        tt = sb.get("t") or {}
                        if tt.get("k") == "call" and tt.get("d") is not None:
                            dl = tt["d"]["l"]
                            if not cd <= dep[dl]:
                                dep[dl] |= cd
                                changed = True
            if t.get("k") == "call":
                alld = set()
                per = []
                for a in t["a"]:
                    x = op_deps(a)
                    per.append(x)
                    alld |= x
                f = t["f"]
                cname = "call:" + short(f["fn"].get("rpath", f["fn"]["path"])) if f.get("k") == "fn" else "call:<indirect>"
                d = t.get("d")
                if d is not None:
                    new = alld | {cname}
                    if not new <= dep[d["l"]]:
                        dep[d["l"]] |= new
                        changed = True
                for idx, a in enumerate(t["a"]):
                    if a.get("k") in ("copy", "move") and not a["pl"].get("p") and a["pl"]["l"] in mutref:
                        tgt = mutref[a["pl"]["l"]]
                        others = set()
                        for j, x in enumerate(per):
                            if j != idx:
                                others |= x
                        if not others <= dep[tgt]:
                            dep[tgt] |= others
                            changed = True
    body["_deps"] = dep
    return dep


def operand_leaves(fb, body, op):
    d = deps(fb, body)
    k = op.get("k")
    if k in ("copy", "move"):
        pl = op["pl"]
        proj = _named_proj(pl)
        out = set()
        for leaf in d[pl["l"]]:
            out.add(leaf + proj if proj and not leaf.startswith(("const:", "call:")) and leaf.count(".") < 5 and not leaf.endswith(proj) else leaf)
        return out
    if k == "const":
        v = op.get("v", "")
        return {"const:" + v} if v.startswith(('b"', '"')) else set()
    return set()


def has_leaf(leaves, wanted):
    """wanted is a leaf prefix like `self.authority.signature`; a leaf matches when equal or extends it / is extended by it
    at a field boundary."""
    for l in leaves:
        if l == wanted or l.startswith(wanted + ".") or wanted.startswith(l + "."):
            return True
    return False


def require_leaves(fb, ctx, body, op, wanted, rule, instance, key, where=None):
    leaves = operand_leaves(fb, body, op)
    missing = [w for w in wanted if not has_leaf(leaves, w)]
    where = where or f"{body['file']}:{body['line']}"
    if missing:
        ctx.fail(rule, instance, key, f"value no longer depends on {missing} (depends on {sorted(l for l in leaves if not l.startswith('call:'))[:12]})", where)
        return False
    ctx.ok(rule, instance, where, f"depends on {wanted}")
    return True


# ----------------------------------------------------------------------------------------------- aggregates
def aggregates(body, adt_regex, variant=None):
    r = re.compile(adt_regex)
    out = []
    for i, blk in enumerate(body["blocks"]):
        for s in blk["s"]:
            rv = s["r"]
            if rv.get("k") == "agg" and rv.get("ak") == "adt" and r.search(rv.get("adt", "")):
                if variant is None or rv.get("variant") == variant:
                    out.append((i, s))
    return out


def agg_field(s, name):
    rv = s["r"]
    fs = rv.get("fields") or []
    if name in fs:
        return rv["ops"][fs.index(name)]
    return None


# ----------------------------------------------------------------------------------------------- flow-sensitive variant
def reaching_defs(body, local, bb):
    """Definitions (block, kind, item) of `local` that can reach the *entry* of block bb (or a point inside bb before its
    terminator when the def is in bb itself) without an intervening full redefinition."""
    g = cfg(body)
    defs = []
    for i, blk in enumerate(body["blocks"]):
        for j, st in enumerate(blk["s"]):
            if st["d"]["l"] == local and not st["d"].get("p"):
                defs.append((i, j, "assign", st))
        t = blk.get("t") or {}
        if t.get("k") == "call" and t.get("d") is not None and t["d"]["l"] == local and not t["d"].get("p"):
            defs.append((i, 10 ** 6, "call", t))
    def_blocks = {}
    for d in defs:
        def_blocks.setdefault(d[0], []).append(d)
    out = []
    # last def inside bb itself wins
    if bb in def_blocks:
        inside = [d for d in def_blocks[bb] if d[2] == "assign"]
        if inside:
            return [max(inside, key=lambda d: d[1])]
    # backwards search from bb's predecessors, stopping at blocks that define the local
    seen, st = set(), list(g["pred"][bb])
    while st:
        x = st.pop()
        if x in seen:
            continue
        seen.add(x)
        if x in def_blocks:
            out.append(max(def_blocks[x], key=lambda d: d[1]))
            continue
        st.extend(g["pred"][x])
    return out


def leaves_at(fb, body, op, bb, depth=0):
    """Like operand_leaves but multi-definition locals are resolved to the definitions that reach block bb."""
    k = op.get("k")
    if k == "const":
        v = op.get("v", "")
        return {"const:" + v} if v.startswith(('b"', '"')) else set()
    if k not in ("copy", "move"):
        return set()
    pl = op["pl"]
    l = pl["l"]
    proj = _named_proj(pl)

    def ext(leaves):
        return {x + proj if proj and x.startswith("arg") else x for x in leaves}

    if 1 <= l <= body["argc"]:
        # parameters may be reassigned, but only through explicit assignments
        rd = reaching_defs(body, l, bb)
        if not rd:
            return ext({f"arg{l}"})
    if depth > 12:
        return ext(operand_leaves(fb, body, {"k": "copy", "pl": {"l": l}}))
    rd = reaching_defs(body, l, bb)
    if not rd:
        return ext(operand_leaves(fb, body, {"k": "copy", "pl": {"l": l}}))
    out = set()
    for (i, j, kind, item) in rd:
        if kind == "call":
            f = item["f"]
            out.add("call:" + short(f["fn"].get("rpath", f["fn"]["path"])) if f.get("k") == "fn" else "call:<indirect>")
            for a in item["a"]:
                out |= leaves_at(fb, body, a, i, depth + 1)
        else:
            r = item["r"]
            rk = r.get("k")
            ops = []
            if rk in ("use", "cast", "repeat"):
                ops = [r["op"]]
            elif rk in ("ref", "rawptr", "discr"):
                ops = [{"k": "copy", "pl": r["pl"]}]
            elif rk == "binop":
                ops = [r["a"], r["b"]]
            elif rk == "unop":
                ops = [r["a"]]
            elif rk == "agg":
                ops = r["ops"]
            for o in ops:
                out |= leaves_at(fb, body, o, i, depth + 1)
    return ext(out)


# ----------------------------------------------------------------------------------------------- verbatim copies
def verbatim_source(body, op, depth=0):
    """If operand `op` is, on every path, a plain copy/move of one place of an argument (no call, no constant alternative, no
    second definition), return that place as ('argN', [projections]); otherwise None."""
    if not isinstance(op, dict) or op.get("k") not in ("copy", "move") or depth > 8:
        return None
    pl = op["pl"]
    l = pl["l"]
    proj = [p for p in (pl.get("p") or []) if p != "*"]
    if 1 <= l <= body["argc"]:
        return (f"arg{l}", proj)
    defs = []
    for blk in body["blocks"]:
        for st in blk["s"]:
            if st["d"]["l"] == l:
                defs.append(("assign", st))
        t = blk.get("t") or {}
        if t.get("k") == "call" and t.get("d") and t["d"]["l"] == l:
            defs.append(("call", t))
    if len(defs) != 1 or defs[0][0] != "assign" or defs[0][1]["d"].get("p"):
        return None
    r = defs[0][1]["r"]
    if r.get("k") == "use":
        inner = verbatim_source(body, r["op"], depth + 1)
    elif r.get("k") == "ref":
        inner = verbatim_source(body, {"k": "copy", "pl": r["pl"]}, depth + 1)
    else:
        return None
    if inner is None:
        return None
    return (inner[0], inner[1] + proj)


# ----------------------------------------------------------------------------------------------- closures of iterator chains
def closure_context(fb, parent, closure_key):
    """How a closure created in `parent` is used: ({leaves the closure's element parameter ranges over}, {leaves captured}).
    The element source is the receiver of the adaptor call the closure is handed to (`xs.iter().map(|x| ..)` -> leaves of xs)."""
    src, cap = set(), set()
    for i, blk in enumerate(parent["blocks"]):
        for st in blk["s"]:
            r = st["r"]
            if r.get("k") == "agg" and r.get("ak") == "closure" and r.get("closure") == closure_key:
                for o in r.get("ops", []):
                    cap |= operand_leaves(fb, parent, o)
                cl = st["d"]["l"]
                for c in fb.calls(parent):
                    if any(a.get("k") in ("copy", "move") and a["pl"]["l"] == cl for a in c.args[1:]) and c.args:
                        src |= {x for x in operand_leaves(fb, parent, c.args[0]) if x.startswith("arg")}
    return src, cap


def closure_source_leaves(fb, parent, closure_key):
    """every leaf (calls included) of the receiver of the adaptor call the closure is handed to"""
    out = set()
    for blk in parent["blocks"]:
        for st in blk["s"]:
            r = st["r"]
            if r.get("k") == "agg" and r.get("ak") == "closure" and r.get("closure") == closure_key:
                cl = st["d"]["l"]
                for c in fb.calls(parent):
                    if c.args and any(a.get("k") in ("copy", "move") and a["pl"]["l"] == cl for a in c.args[1:]):
                        out |= operand_leaves(fb, parent, c.args[0])
    return out


def deep_aggregates(fb, body, adt_regex):
    """aggregates of `body` and of the closures it creates (one level): [(owner body, statement)] in source-line order"""
    out = [(body, s) for _, s in aggregates(body, adt_regex)]
    for k, cb in fb.bodies.items():
        if cb.get("kind") == "Closure" and cb.get("parent") == body["key"]:
            out += [(cb, s) for _, s in aggregates(cb, adt_regex)]
    out.sort(key=lambda x: x[1].get("ln") or 0)
    return out


def deep_leaves(fb, body, owner, op):
    """operand_leaves of `op` in `owner`; when owner is a closure of `body`, its element parameter and its captures are rewritten
    to what they stand for in `body` (`arg2.data` of `|block| ..` over `self.blocks.iter()` reads `arg1.blocks.data`)."""
    lv = operand_leaves(fb, owner, op)
    if owner is body:
        return lv
    src, cap = closure_context(fb, body, owner["key"])
    out = set()
    for x in lv:
        m = re.match(r"arg(\d+)(.*)$", x)
        if m and int(m.group(1)) >= 2 and src:
            out |= {s_ + m.group(2) for s_ in src}
        elif m and int(m.group(1)) == 1:
            out |= cap or {x}
        else:
            out.add(x)
    return out
