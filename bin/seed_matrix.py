#!/usr/bin/env python3
"""For every seeded change: apply it to /repo, run all 20 static checks on the changed tree, undo it. Writes
/verif/seeded/MATRIX.json : {seed id: {property: "DETECTED"|"missed"|"checker-error", ...}} plus the first violation line."""
import json, os, subprocess, sys
import concurrent.futures as cf
SRC = sys.argv[1] if len(sys.argv) > 1 else "/verif/seeded_incoming"
props = [f"C{i:02d}" for i in range(1, 21)]
out = {}
mp = "/verif/seeded/MATRIX.json"
os.makedirs("/verif/seeded", exist_ok=True)
if os.path.exists(mp):
    out = json.load(open(mp))
st = subprocess.run(["git", "-C", "/repo", "status", "--porcelain", "--untracked-files=no"], capture_output=True, text=True).stdout.strip()
if st:
    print("refusing: /repo dirty"); sys.exit(2)
for prop in sorted(os.listdir(SRC)):
    pd = os.path.join(SRC, prop)
    if not os.path.isdir(pd):
        continue
    for n in sorted(os.listdir(pd)):
        d = os.path.join(pd, n)
        patch = os.path.join(d, "patch.diff")
        if not os.path.exists(patch):
            continue
        sid = f"{prop.upper()}-{n}" if not prop[0].isupper() else prop
        if sid in out and not os.environ.get("FORCE"):
            continue
        r = subprocess.run(["git", "-C", "/repo", "apply", patch], capture_output=True, text=True)
        if r.returncode != 0:
            subprocess.run(["git", "-C", "/repo", "checkout", "--", "."])
            r = subprocess.run(["patch", "-p1", "-F3", "--no-backup-if-mismatch", "-d", "/repo", "-i", patch], capture_output=True, text=True)
        if r.returncode != 0:
            out[sid] = {"error": "patch does not apply"}
            subprocess.run(["git", "-C", "/repo", "checkout", "--", "."])
            continue
        row = {}
        try:
            def one(p):
                c = subprocess.run(["/verif/check", p], capture_output=True, text=True, cwd="/verif")
                tag = "DETECTED" if (c.returncode == 1 and "VIOLATION property=" in c.stdout) else ("checker-error" if c.returncode != 0 else "missed")
                first = next((l.strip() for l in c.stdout.splitlines() if l.startswith("  rule=")), None) or next((l for l in c.stdout.splitlines() if l.startswith("CHECKER-ERROR")), None)
                return p, {"result": tag, "first": (first or "")[:260]}
            row.update([one(props[0])])          # first check performs the (locked, cached) extraction
            with cf.ThreadPoolExecutor(10) as ex:
                row.update(ex.map(one, props[1:]))
            row = {p: row[p] for p in props}
        finally:
            subprocess.run(["git", "-C", "/repo", "reset", "-q"])
            subprocess.run(["git", "-C", "/repo", "checkout", "--", "."])
        out[sid] = row
        json.dump(out, open(mp, "w"), indent=1)
        own = row.get(sid.split("-")[0], {}).get("result")
        print(sid, "own:", own, "all:", [p for p, v in row.items() if v["result"] == "DETECTED"], flush=True)
# leave evidence files describing the unchanged tree
with cf.ThreadPoolExecutor(10) as ex:
    list(ex.map(lambda p: subprocess.run(["/verif/check", p], capture_output=True, text=True, cwd="/verif"), props))
print("done")
