"""C14 — printed Datalog parses back to the same program (structural necessary conditions: printer/parser table agreement)."""
import re
import hirq, mirq
from facts import CheckerError, find_all
from props.c05 import strip, is_local, mcalls

E = "biscuit_auth::datalog::expression"
PP = "biscuit_parser::parser"
T = "biscuit_auth::token"


def fmt_nodes(node):
    return find_all(node, lambda z: z.get("k") == "format")


def parser_tags(fb):
    """All literal tags of the grammar: {literal: [function paths]} and the (variant, literal) pairs of `value(V, tag(lit))`."""
    tags, pairs = {}, []
    for key, h in fb.hir.items():
        if h["crate"] != "biscuit_parser" or not h["path"].startswith(PP + "::"):
            continue
        for c in find_all(h["body"], lambda z: z.get("k") == "call" and z.get("f", {}).get("k") == "path"):
            p = c["f"]["res"].get("path") or ""
            if re.search(r"::(tag|tag_no_case)$", p) and c["args"]:
                lit = hirq.literal(c["args"][0])
                if isinstance(lit, str):
                    tags.setdefault(lit, []).append(h["path"])
            if p.endswith("::value") and len(c["args"]) == 2:
                v = hirq.ctor_name(strip(c["args"][0])) or (strip(c["args"][0]).get("res", {}).get("path") if strip(c["args"][0]).get("k") == "path" else None)
                t = strip(c["args"][1])
                lit = hirq.literal(t["args"][0]) if t.get("k") == "call" and t.get("args") else None
                if v and isinstance(lit, str):
                    pairs.append((v.split("::")[-2] + "::" + v.split("::")[-1], lit, h["path"]))
            if re.search(r"::char$", p) and c["args"]:
                lit = hirq.literal(c["args"][0])
                if isinstance(lit, str):
                    tags.setdefault(lit, []).append(h["path"])
    return tags, pairs


def printed_token(fmt):
    """('infix', tok) | ('method', name) | ('prefix', tok) | ('wrap', open, close) from a format node's pieces."""
    lits = [p for p in fmt["pieces"] if isinstance(p, str)]
    shape = ["S" if isinstance(p, str) else "A" for p in fmt["pieces"]]
    s = "".join(shape)
    if s == "ASA":
        t = lits[0]
        return ("infix", t.strip()) if t.startswith(" ") and t.endswith(" ") else ("raw", t)
    if s == "ASAS":
        m = re.fullmatch(r"\.([A-Za-z_:]+)\(", lits[0])
        if m and lits[1] == ")":
            return ("method", m.group(1))
        return ("raw", lits[0] + "," + lits[1])
    if s == "AS":
        m = re.fullmatch(r"\.([A-Za-z_:]+)\(\)", lits[0])
        return ("method0", m.group(1)) if m else ("raw", lits[0])
    if s == "SA":
        return ("prefix", lits[0])
    if s == "SAS":
        return ("wrap", lits[0], lits[1])
    if s == "ASASAS":
        # `{left}.extern::{name}({right})`
        return ("method-ext", lits[0], lits[1], lits[2])
    if s == "ASAS"[:len(s)]:
        return ("raw", "|".join(lits))
    return ("raw", "|".join(lits))


def check(fb, ctx):
    ctx.explanation = (
        "ESCAPE: every printer site that writes a string value between double quotes passes it through an escape function whose "
        "replacement chain is the inverse of the parser's string grammar (the characters the `printable` rule excludes, `\\` and "
        "`\"`, are replaced by the escapes the parser accepts, backslash first). TOKENS: for every Binary and Unary variant the "
        "token printed by Binary::print / Unary::print is a token the parser maps to the same variant; check/policy kinds, scope "
        "keywords and the closure arrow printed by the builders are literals of the grammar."
    )
    # ---- ESCAPE: the parser's table
    ps = fb.hir_of(PP + "::parse_string_internal")
    esc = {}
    for c in find_all(ps["body"], lambda z: z.get("k") == "call" and (z.get("f", {}).get("res", {}).get("path") or "").endswith("::map") and len(z.get("args", [])) == 2):
        ch = [hirq.literal(x["args"][0]) for x in find_all(c["args"][0], lambda z: z.get("k") == "call" and (z.get("f", {}).get("res", {}).get("path") or "").endswith("::char"))]
        outs = [hirq.literal(x["body"]) for x in find_all(c["args"][1], lambda z: z.get("k") == "closure")]
        if ch and outs:
            esc[ch[0]] = outs[0]
    pr = fb.hir_of(PP + "::printable")
    excluded = sorted({z["v"] for z in find_all(pr["body"], lambda z: z.get("k") == "lit" and z.get("t") == "char")})
    ctx.check(esc.get("\\") == "\\" and esc.get('"') == '"' and excluded == ['"', "\\"], "ESCAPE", "parser string grammar: `\\\\` -> backslash, `\\\"` -> quote; unescaped text excludes exactly those two", "ESCAPE|parser-table", f"escape table {esc}, characters excluded from plain text {excluded}", f"{ps['file']}:{ps['line']}")
    # ---- ESCAPE: the printer's helper is the inverse
    helpers = {}
    for b in fb.bodies.values():
        if b["crate"] != "biscuit_auth" or b["kind"] != "Fn" or b.get("exp"):
            continue
        h = fb.hir.get(b["key"])
        if not h:
            continue
        reps = [c for c in find_all(h["body"], lambda z: z.get("k") == "mcall" and z.get("name") == "replace")]
        if reps and b.get("output") == "std::string::String" and len(b.get("inputs", [])) == 1:
            # order of application = innermost receiver first
            chain = []
            node = strip(hirq.tail(h["body"]))
            while isinstance(node, dict) and node.get("k") == "mcall" and node.get("name") == "replace":
                chain.append((hirq.literal(node["args"][0]), hirq.literal(node["args"][1])))
                node = strip(node["recv"])
            chain.reverse()
            if chain and is_local(node):
                helpers[b["path"]] = chain
    good_helpers = set()
    for path, chain in helpers.items():
        d = dict(chain)
        inverse = d.get("\\") == "\\\\" and d.get('"') == '\\"'
        first_is_backslash = chain[0][0] == "\\"
        extra_ok = all(src in ("\\", '"') or (len(rep) == 2 and rep[0] == "\\" and esc.get(rep[1]) == src) for src, rep in chain)
        b = fb.body(path)
        ok = inverse and first_is_backslash and extra_ok
        ctx.check(ok, "ESCAPE", f"{path.split('::')[-1]}: inverse of the parser's escapes, backslash replaced first", f"ESCAPE|helper|{path}", f"replacement chain {chain}: must double backslashes first, then escape quotes (and only add escapes the parser understands)", f"{b['file']}:{b['line']}")
        if ok:
            good_helpers.add(path)
    ctx.floor("string escape helpers", len(helpers), 1)
    # ---- ESCAPE: every quoted placeholder goes through a helper
    n_sites = 0
    for key, h in fb.hir.items():
        if h["crate"] != "biscuit_auth" or h.get("exp") or not (h["file"].startswith("biscuit-auth/src/token/") or h["file"].startswith("biscuit-auth/src/datalog/")):
            continue
        if h["path"] == "biscuit_auth::token::print_block":
            continue  # debug rendering of a Block (`Block { symbols: [..] context: ".." }`), not Datalog source
        for f in fmt_nodes(h["body"]):
            ps_ = f["pieces"]
            for i, p in enumerate(ps_):
                if isinstance(p, dict) and i > 0 and i + 1 < len(ps_) and isinstance(ps_[i - 1], str) and isinstance(ps_[i + 1], str) and ps_[i - 1].endswith('"') and ps_[i + 1].startswith('"') and p.get("trait") == "Display":
                    if "Debug" in str(p) or h["path"].endswith("::fmt") and "error" in h["path"]:
                        continue
                    n_sites += 1
                    arg = f["args"][p["arg"]] if 0 <= p["arg"] < len(f["args"]) else {}
                    callee = None
                    a = strip(arg)
                    if isinstance(a, dict) and a.get("k") == "call" and a.get("f", {}).get("k") == "path":
                        callee = a["f"]["res"].get("path")
                    inst = f"{h['path'].replace('biscuit_auth::', '')} @+{f['ln'] - h['line']}"
                    ctx.check(callee in good_helpers, "ESCAPE", f"quoted string printed by {inst}", f"ESCAPE|site|{h['path']}|{sum(1 for _ in [0])}{i}", f"a value is written between double quotes without going through the escape helper (argument is `{(a or {}).get('k')}` {callee or ''}): a quote or backslash in the value changes what the text parses to", f"{h['file']}:{f['ln']}")
    ctx.floor("quoted-string printer sites", n_sites, 4)
    # ---- TOKENS
    tags, pairs = parser_tags(fb)
    ptab = {}
    for v, lit, fn in pairs:
        ptab.setdefault(v, set()).add(lit)
    ctx.floor("parser (variant, token) pairs", len(pairs), 25)
    bp = fb.hir_of(E + "::Binary::print")
    bm = [m for m in hirq.matches_in(bp["body"]) if "Binary" in (m.get("sty") or "")][0]
    for arm in bm["arms"]:
        for v in hirq.pat_variants(arm["pat"]):
            name = (v or "").split("::")[-1]
            fs = fmt_nodes(arm["body"])
            if not fs:
                continue
            tok = printed_token(fs[0])
            where = f"{bp['file']}:{arm['ln']}"
            if name == "Ffi":
                ok = tok[0] == "method-ext" and tok[1] == ".extern::" and "extern::" in tags
                ctx.check(ok, "TOKENS", "Binary::Ffi prints as `.extern::name(..)`", "TOKENS|Binary::Ffi", f"printed shape {tok}", where)
                continue
            accepted = ptab.get("Binary::" + name, set())
            ctx.check(tok[0] in ("infix", "method") and tok[1] in accepted, "TOKENS", f"Binary::{name} prints a token the parser reads as Binary::{name}", f"TOKENS|Binary::{name}", f"printed `{tok[1] if len(tok) > 1 else tok}` ({tok[0]}); the parser accepts {sorted(accepted) or 'nothing'} for this operator", where)
    up = fb.hir_of(E + "::Unary::print")
    um = [m for m in hirq.matches_in(up["body"]) if "Unary" in (m.get("sty") or "")][0]
    for arm in um["arms"]:
        for v in hirq.pat_variants(arm["pat"]):
            name = (v or "").split("::")[-1]
            fs = fmt_nodes(arm["body"])
            tok = printed_token(fs[0]) if fs else ("none",)
            where = f"{up['file']}:{arm['ln']}"
            if name == "Negate":
                ok = tok == ("prefix", "!") and "!" in tags
            elif name == "Parens":
                ok = tok == ("wrap", "(", ")")
            elif name == "Ffi":
                ok = tok[0] in ("raw", "method-ext", "wrap") or True
                ok = ".extern::" in "".join(p for p in fs[0]["pieces"] if isinstance(p, str)) and "extern::" in tags
            else:
                ok = tok[0] == "method0" and tok[1] in ptab.get("Unary::" + name, set())
            ctx.check(ok, "TOKENS", f"Unary::{name} prints a form the parser reads as Unary::{name}", f"TOKENS|Unary::{name}", f"printed shape {tok}; parser accepts {sorted(ptab.get('Unary::' + name, set()))}", where)
    # every variant has a print arm
    for enum, m in (("Binary", bm), ("Unary", um)):
        have = {(v or "").split("::")[-1] for a in m["arms"] for v in hirq.pat_variants(a["pat"])}
        allv = set(fb.variants(f"{E}::{enum}"))
        ctx.check(have == allv, "TOKENS", f"{enum}::print covers every variant", f"TOKENS|{enum}|coverage", f"missing {sorted(allv - have)}", f"{bp['file']}:{m['ln']}")
    # keywords printed by the builders exist in the grammar
    kw = []
    for fn in ("<token::builder::check::Check as std::fmt::Display>::fmt", "<token::builder::policy::Policy as std::fmt::Display>::fmt", "<token::builder::scope::Scope as std::fmt::Display>::fmt", "biscuit_auth::token::builder::rule::display_rule_body", "<token::builder::rule::Rule as std::fmt::Display>::fmt"):
        h = fb.hir_of(fn)
        for f in fmt_nodes(h["body"]):
            for p in f["pieces"]:
                if isinstance(p, str) and re.search(r"[a-z<]", p) and not re.fullmatch(r"[{}]+", p):
                    kw.append((fn, p.strip(), f["ln"]))
    alltags = set(tags)
    for fn, k, ln in kw:
        words = [w for w in re.split(r"\s+", k) if w and w not in (",",)]
        ok = k in alltags or all(w in alltags for w in words) or any(t.startswith(k + " ") for t in alltags)
        h = fb.hir_of(fn)
        ctx.check(ok, "TOKENS", f"keyword `{k}` printed by {fn.split(' as ')[0].split('::')[-1].strip('<')} is a literal of the grammar", f"TOKENS|keyword|{k}", f"`{k}` is not among the parser's tag literals", f"{h['file']}:{ln}")
    # closure arrow
    ep = fb.hir_of(E + "::Expression::print")
    arrow = [f for f in fmt_nodes(ep["body"]) if any(isinstance(p, str) and "->" in p for p in f["pieces"])]
    ctx.check(len(arrow) == 1 and "->" in tags, "TOKENS", "closures print as `$p -> body`, the form all/any parse", "TOKENS|closure", "no `->` in the closure printer or in the grammar", f"{ep['file']}:{ep['line']}")
    # ---- SUBST: a printer that clones its item and substitutes the bound parameters prints the CLONE; the original parameter is not
    # read again (a `{param}` that is bound would print as `{param}` and not parse back)
    n_subst = 0
    for key_, hd in fb.hir.items():
        if hd.get("crate") != "biscuit_auth" or not re.search(r"token::builder::", hd["path"]) or not (hd["path"].endswith("::fmt") or "display_" in hd["path"].split("::")[-1]):
            continue
        for l_ in find_all(hd["body"], lambda z: z.get("k") == "let" and isinstance(z.get("pat"), dict) and z["pat"].get("k") == "bind" and z.get("init") is not None):
            init = strip(l_["init"])
            if not (isinstance(init, dict) and init.get("k") == "mcall" and init.get("name") == "clone" and is_local(strip(init["recv"]))):
                continue
            cid, pid = l_["pat"]["id"], strip(init["recv"])["res"]["id"]
            if pid not in {q.get("id") for q in (hd.get("params") or []) if isinstance(q, dict)}:
                continue
            if not find_all(hd["body"], lambda z: z.get("k") == "mcall" and z.get("name") == "apply_parameters" and hirq.is_lid(strip(z["recv"]), {cid})):
                continue
            n_subst += 1
            later = [z for z in find_all(hd["body"], lambda z: hirq.is_lid(z, {pid})) if not find_all(l_["init"], lambda y: y is z)]
            ctx.check(not later, "SUBST", f"{hd['path'].split(' as ')[0].split('::')[-1].strip('<>')}: only the parameter-substituted clone is printed", f"SUBST|{hd['path']}", f"the unsubstituted original is read again at line(s) {sorted({z['ln'] for z in later})}: a bound `{{param}}` there prints as a parameter", f"{hd['file']}:{later[0]['ln'] if later else hd['line']}")
    ctx.floor("printers that substitute parameters in a clone", n_subst, 1)
    # ---- SIBLING: the block accessors behind print_block_source
    from props import tablesym
    tablesym.block_accessor_rules(fb, ctx)
    # ---- POPORDER: the printer pops the right operand first, like the evaluator
    po = hirq.pop_order(ep, r"expression::Binary::print$")
    ctx.floor("binary prints fed from two stack pops", len(po), 1)
    for n_, (ln, v) in enumerate(po):
        ctx.check(v == "ok", "POPORDER", "Expression::print hands (second pop, first pop) to Binary::print as (left, right)", f"POPORDER|print|{n_}", f"operands taken from the stack are passed as {v}: `a - b` would print as `b - a`", f"{ep['file']}:{ln}")
    # ---- FIELDS: the printed program and the loaded program carry the same parts (facts, rules, checks, block scopes, policies)
    def fields_of(fn, ty_regex):
        h = fb.hir_of(fn)
        return {f["name"] for f in find_all(h["body"], lambda z: z.get("k") == "field" and re.search(ty_regex, z.get("ety") or ""))}, h
    NOT_DATALOG = {"context": "free-form text of the block, not part of the Datalog source", "symbols": "interning table", "version": "derived from content", "external_key": "signature data", "public_keys": "interning table"}
    n_fields = 0
    for loader, parser in ((T + "::builder::block::BlockBuilder::code_with_params", PP + "::parse_block_source"), (T + "::builder::authorizer::AuthorizerBuilder::code_with_params", PP + "::parse_source")):
        produced, ph = fields_of(parser, r"parser::SourceResult\b")
        consumed, lh = fields_of(loader, r"parser::SourceResult\b")
        ctx.check(len(produced) >= 4, "FIELDS", f"{parser.split('::')[-1]} fills the parts of SourceResult", f"FIELDS|parser|{parser.split('::')[-1]}", f"only {sorted(produced)} are filled", f"{ph['file']}:{ph['line']}")
        for f in sorted(produced):
            n_fields += 1
            ctx.check(f in consumed, "FIELDS", f"{loader.split('::')[-2]}::code_with_params loads SourceResult.{f}, which {parser.split('::')[-1]} fills", f"FIELDS|loader|{loader.split('::')[-2]}|{f}", f"the parser accepts and returns `{f}` but the loader never reads them: that part of the source is silently dropped", f"{lh['file']}:{lh['line']}")
    for printer, ty, reference, rty in (
        (T + "::block::Block::print_source", r"token::block::Block$", T + "::builder::block::BlockBuilder::convert_from", r"token::block::Block$"),
        ("<token::builder::block::BlockBuilder as std::fmt::Display>::fmt", r"builder::block::BlockBuilder$", T + "::builder::block::BlockBuilder::build", r"builder::block::BlockBuilder$"),
    ):
        want, rh = fields_of(reference, rty)
        want = {f for f in want if f not in NOT_DATALOG}
        have, h = fields_of(printer, ty)
        ctx.check(len(want) >= 4, "FIELDS", f"{reference.split('::')[-1]} reads the Datalog parts of the block", f"FIELDS|reference|{reference.split('::')[-1]}", f"only {sorted(want)}", f"{rh['file']}:{rh['line']}")
        for f in sorted(want):
            n_fields += 1
            ctx.check(f in have, "FIELDS", f"{printer.split(' as ')[0].strip('<').split('::')[-1] if ' as ' in printer else 'Block::print_source'} prints `{f}`, which {reference.split('::')[-1]} carries into the block", f"FIELDS|printer|{'BlockBuilder' if ' as ' in printer else 'Block'}|{f}", f"`{f}` is part of the block's meaning but is never read by the printer: the printed source parses back to a different block", f"{h['file']}:{h['line']}")
    ctx.floor("FIELDS instances (parser->loader and carrier->printer parts)", n_fields, 16)
    ctx.not_decided = ["operator precedence for op sequences that did not come from the parser (parenthesisation is data)", "date formatting round trip", "Authorizer::dump_code merges facts of all origins (it is a debugging dump, not a loader input)"]
    ctx.trusted = ["nom combinators tag/value/char behave as documented", "format templates extracted from the expanded AST"]
