//! MIR-lite: the optimized (mir-opt-level=0) MIR of one body reduced to JSON.

use crate::json::V;
use crate::{def_key, def_path, expn, loc};
use rustc_hir::def::DefKind;
use rustc_hir::def_id::{DefId, LocalDefId};

use rustc_middle::mir::*;
use rustc_middle::ty::print::{with_no_trimmed_paths, PrintTraitRefExt};
use rustc_middle::ty::{self, GenericArgsRef, Instance, Ty, TyCtxt, TypingEnv};

fn ty_str<'tcx>(ty: Ty<'tcx>) -> String {
    with_no_trimmed_paths!(ty.to_string())
}

struct Cx<'a, 'tcx> {
    tcx: TyCtxt<'tcx>,
    body: &'a Body<'tcx>,
    tenv: TypingEnv<'tcx>,
}

impl<'a, 'tcx> Cx<'a, 'tcx> {
    fn place(&self, p: &Place<'tcx>) -> V {
        let mut proj = Vec::new();
        let mut pty = PlaceTy::from_ty(self.body.local_decls[p.local].ty);
        for elem in p.projection.iter() {
            let s = match elem {
                ProjectionElem::Deref => "*".to_string(),
                ProjectionElem::Field(f, _) => {
                    let name = match pty.ty.kind() {
                        ty::Adt(adt, _) => {
                            let vidx = pty.variant_index.unwrap_or(rustc_abi::FIRST_VARIANT);
                            if adt.is_enum() && pty.variant_index.is_none() {
                                format!("{}", f.index())
                            } else {
                                adt.variant(vidx).fields[f].name.to_string()
                            }
                        }
                        _ => format!("{}", f.index()),
                    };
                    format!(".{}", name)
                }
                ProjectionElem::Index(l) => format!("[_{}]", l.index()),
                ProjectionElem::ConstantIndex { offset, from_end, .. } => {
                    if from_end {
                        format!("[-{}]", offset)
                    } else {
                        format!("[{}]", offset)
                    }
                }
                ProjectionElem::Subslice { from, to, from_end } => {
                    format!("[{}..{}{}]", from, if from_end { "-" } else { "" }, to)
                }
                ProjectionElem::Downcast(name, idx) => match name {
                    Some(n) => format!("as {}", n),
                    None => format!("as #{}", idx.index()),
                },
                ProjectionElem::OpaqueCast(_) => "opaque".to_string(),
                ProjectionElem::UnwrapUnsafeBinder(_) => "unbind".to_string(),
            };
            proj.push(V::s(s));
            pty = pty.projection_ty(self.tcx, elem);
        }
        V::Obj(vec![("l", V::u(p.local.index())), ("p", if proj.is_empty() { V::Null } else { V::Arr(proj) })])
    }

    fn fn_ref(&self, did: DefId, args: GenericArgsRef<'tcx>) -> V {
        let tcx = self.tcx;
        let mut o = vec![
            ("key", V::s(def_key(tcx, did))),
            ("path", V::s(def_path(tcx, did))),
            ("args", V::s(with_no_trimmed_paths!(format!("{:?}", args)))),
        ];
        match tcx.def_kind(did) {
            DefKind::Fn | DefKind::AssocFn | DefKind::Closure | DefKind::Ctor(..) => {
                if let Ok(Some(inst)) = Instance::try_resolve(tcx, self.tenv, did, args) {
                    let rd = inst.def_id();
                    let kind = match inst.def {
                        ty::InstanceKind::Item(_) => "item",
                        ty::InstanceKind::Intrinsic(_) => "intrinsic",
                        ty::InstanceKind::Virtual(..) => "virtual",
                        ty::InstanceKind::ClosureOnceShim { .. } => "closure_once_shim",
                        ty::InstanceKind::FnPtrShim(..) => "fnptr_shim",
                        ty::InstanceKind::ReifyShim(..) => "reify_shim",
                        ty::InstanceKind::DropGlue(..) => "drop_glue",
                        ty::InstanceKind::CloneShim(..) => "clone_shim",
                        _ => "other",
                    };
                    o.push(("rkind", V::s(kind)));
                    if rd != did {
                        o.push(("rkey", V::s(def_key(tcx, rd))));
                        o.push(("rpath", V::s(def_path(tcx, rd))));
                    }
                    // for closure-once shims / Fn* calls on closures, point at the closure body
                    if let ty::InstanceKind::ClosureOnceShim { .. } = inst.def {
                        if let Some(t) = args.types().next() {
                            if let ty::Closure(cd, _) = t.kind() {
                                o.push(("rkey", V::s(def_key(tcx, *cd))));
                                o.push(("rpath", V::s(def_path(tcx, *cd))));
                            }
                        }
                    }
                    o.push(("rargs", V::s(with_no_trimmed_paths!(format!("{:?}", inst.args)))));
                } else {
                    o.push(("rkind", V::s("unresolved")));
                }
            }
            _ => {}
        }
        V::Obj(o)
    }

    fn operand(&self, op: &Operand<'tcx>) -> V {
        match op {
            Operand::Copy(p) => V::Obj(vec![("k", V::s("copy")), ("pl", self.place(p))]),
            Operand::Move(p) => V::Obj(vec![("k", V::s("move")), ("pl", self.place(p))]),
            Operand::Constant(c) => {
                let ty = c.const_.ty();
                match ty.kind() {
                    ty::FnDef(did, args) => V::Obj(vec![("k", V::s("fn")), ("fn", self.fn_ref(*did, args))]),
                    _ => {
                        let mut o = vec![
                            ("k", V::s("const")),
                            ("ty", V::s(ty_str(ty))),
                            ("v", V::s(with_no_trimmed_paths!(format!("{}", c.const_)))),
                        ];
                        // integer value, when it is one
                        if let Some(si) = c.const_.try_eval_scalar_int(self.tcx, self.tenv) {
                            let size = si.size();
                            let bits = si.to_bits(size);
                            let val: i128 = if ty.is_signed() { size.sign_extend(bits) } else { bits as i128 };
                            o.push(("int", V::Int(val)));
                        }
                        V::Obj(o)
                    }
                }
            }
            #[allow(unreachable_patterns)]
            _ => V::Obj(vec![("k", V::s("other")), ("v", V::s(format!("{:?}", op)))]),
        }
    }

    fn rvalue(&self, rv: &Rvalue<'tcx>) -> V {
        match rv {
            Rvalue::Use(op, ..) => V::Obj(vec![("k", V::s("use")), ("op", self.operand(op))]),
            Rvalue::Repeat(op, n) => V::Obj(vec![
                ("k", V::s("repeat")),
                ("op", self.operand(op)),
                ("n", V::s(with_no_trimmed_paths!(format!("{}", n)))),
            ]),
            Rvalue::Ref(_, bk, p) => V::Obj(vec![
                ("k", V::s("ref")),
                ("mut", V::Bool(matches!(bk, BorrowKind::Mut { .. }))),
                ("pl", self.place(p)),
            ]),
            Rvalue::RawPtr(k, p) => V::Obj(vec![
                ("k", V::s("rawptr")),
                ("mut", V::Bool(matches!(k, RawPtrKind::Mut))),
                ("pl", self.place(p)),
            ]),
            Rvalue::Cast(kind, op, ty) => V::Obj(vec![
                ("k", V::s("cast")),
                ("ck", V::s(format!("{:?}", kind))),
                ("op", self.operand(op)),
                ("ty", V::s(ty_str(*ty))),
            ]),
            Rvalue::BinaryOp(op, ab) => V::Obj(vec![
                ("k", V::s("binop")),
                ("op", V::s(format!("{:?}", op))),
                ("a", self.operand(&ab.0)),
                ("b", self.operand(&ab.1)),
            ]),
            Rvalue::UnaryOp(op, a) => {
                V::Obj(vec![("k", V::s("unop")), ("op", V::s(format!("{:?}", op))), ("a", self.operand(a))])
            }
            Rvalue::Discriminant(p) => V::Obj(vec![("k", V::s("discr")), ("pl", self.place(p))]),
            Rvalue::Aggregate(kind, ops) => {
                let mut o = vec![("k", V::s("agg"))];
                let mut fnames: Vec<V> = Vec::new();
                match &**kind {
                    AggregateKind::Array(t) => {
                        o.push(("ak", V::s("array")));
                        o.push(("ty", V::s(ty_str(*t))));
                    }
                    AggregateKind::Tuple => o.push(("ak", V::s("tuple"))),
                    AggregateKind::Adt(did, vidx, _args, _, active) => {
                        let adt = self.tcx.adt_def(*did);
                        let var = adt.variant(*vidx);
                        o.push(("ak", V::s("adt")));
                        o.push(("adt", V::s(def_path(self.tcx, *did))));
                        o.push(("adt_key", V::s(def_key(self.tcx, *did))));
                        o.push(("variant", V::s(var.name.as_str())));
                        if let Some(a) = active {
                            fnames.push(V::s(var.fields[*a].name.as_str()));
                        } else {
                            for f in var.fields.iter() {
                                fnames.push(V::s(f.name.as_str()));
                            }
                        }
                    }
                    AggregateKind::Closure(did, _) => {
                        o.push(("ak", V::s("closure")));
                        o.push(("closure", V::s(def_key(self.tcx, *did))));
                    }
                    AggregateKind::Coroutine(did, _) | AggregateKind::CoroutineClosure(did, _) => {
                        o.push(("ak", V::s("coroutine")));
                        o.push(("closure", V::s(def_key(self.tcx, *did))));
                    }
                    AggregateKind::RawPtr(..) => o.push(("ak", V::s("rawptr"))),
                }
                if !fnames.is_empty() {
                    o.push(("fields", V::Arr(fnames)));
                }
                o.push(("ops", V::Arr(ops.iter().map(|x| self.operand(x)).collect())));
                V::Obj(o)
            }
            Rvalue::CopyForDeref(p) => V::Obj(vec![("k", V::s("use")), ("op", V::Obj(vec![("k", V::s("copy")), ("pl", self.place(p))]))]),
            Rvalue::ThreadLocalRef(d) => V::Obj(vec![("k", V::s("tls")), ("def", V::s(def_path(self.tcx, *d)))]),
            Rvalue::WrapUnsafeBinder(op, _) => V::Obj(vec![("k", V::s("use")), ("op", self.operand(op))]),
            #[allow(unreachable_patterns)]
            other => V::Obj(vec![("k", V::s("other")), ("v", V::s(format!("{:?}", other)))]),
        }
    }

    fn src(&self, si: &SourceInfo) -> (V, V) {
        let l = loc(self.tcx, si.span);
        (V::u(l.line), expn(si.span).map(V::s).unwrap_or(V::Null))
    }

    fn terminator(&self, t: &Terminator<'tcx>) -> V {
        let (ln, x) = self.src(&t.source_info);
        let bb = |b: BasicBlock| V::u(b.index());
        let unwind = |u: &UnwindAction| match u {
            UnwindAction::Cleanup(b) => V::u(b.index()),
            _ => V::Null,
        };
        let mut o: Vec<(&'static str, V)> = Vec::new();
        match &t.kind {
            TerminatorKind::Goto { target } => {
                o.push(("k", V::s("goto")));
                o.push(("t", bb(*target)));
            }
            TerminatorKind::SwitchInt { discr, targets } => {
                o.push(("k", V::s("switch")));
                o.push(("d", self.operand(discr)));
                let mut ts = Vec::new();
                for (v, b) in targets.iter() {
                    ts.push(V::Arr(vec![V::Int(v as i128), bb(b)]));
                }
                o.push(("ts", V::Arr(ts)));
                o.push(("o", bb(targets.otherwise())));
                // type of the discriminant (bool / integer / enum discr)
                o.push(("dty", V::s(ty_str(discr.ty(self.body, self.tcx)))));
            }
            TerminatorKind::UnwindResume => o.push(("k", V::s("resume"))),
            TerminatorKind::UnwindTerminate(_) => o.push(("k", V::s("terminate"))),
            TerminatorKind::Return => o.push(("k", V::s("return"))),
            TerminatorKind::Unreachable => o.push(("k", V::s("unreachable"))),
            TerminatorKind::Drop { place, target, unwind: u, .. } => {
                o.push(("k", V::s("drop")));
                o.push(("pl", self.place(place)));
                o.push(("t", bb(*target)));
                o.push(("u", unwind(u)));
            }
            TerminatorKind::Call { func, args, destination, target, unwind: u, .. } => {
                o.push(("k", V::s("call")));
                o.push(("f", self.operand(func)));
                if !matches!(func, Operand::Constant(_)) {
                    o.push(("fty", V::s(ty_str(func.ty(self.body, self.tcx)))));
                }
                o.push(("a", V::Arr(args.iter().map(|a| self.operand(&a.node)).collect())));
                o.push(("d", self.place(destination)));
                o.push(("t", target.map(bb).unwrap_or(V::Null)));
                o.push(("u", unwind(u)));
            }
            TerminatorKind::TailCall { func, args, .. } => {
                o.push(("k", V::s("tailcall")));
                o.push(("f", self.operand(func)));
                o.push(("a", V::Arr(args.iter().map(|a| self.operand(&a.node)).collect())));
            }
            TerminatorKind::Assert { cond, expected, msg, target, unwind: u } => {
                o.push(("k", V::s("assert")));
                o.push(("c", self.operand(cond)));
                o.push(("e", V::Bool(*expected)));
                let (kind, ops): (String, Vec<V>) = match &**msg {
                    AssertKind::BoundsCheck { len, index } => ("BoundsCheck".into(), vec![self.operand(len), self.operand(index)]),
                    AssertKind::Overflow(op, a, b) => (format!("Overflow({:?})", op), vec![self.operand(a), self.operand(b)]),
                    AssertKind::OverflowNeg(a) => ("OverflowNeg".into(), vec![self.operand(a)]),
                    AssertKind::DivisionByZero(a) => ("DivisionByZero".into(), vec![self.operand(a)]),
                    AssertKind::RemainderByZero(a) => ("RemainderByZero".into(), vec![self.operand(a)]),
                    AssertKind::MisalignedPointerDereference { .. } => ("MisalignedPointerDereference".into(), vec![]),
                    AssertKind::NullPointerDereference => ("NullPointerDereference".into(), vec![]),
                    AssertKind::InvalidEnumConstruction(_) => ("InvalidEnumConstruction".into(), vec![]),
                    other => (format!("{:?}", other), vec![]),
                };
                o.push(("ak", V::s(kind)));
                o.push(("ops", V::Arr(ops)));
                o.push(("t", bb(*target)));
                o.push(("u", unwind(u)));
            }
            TerminatorKind::FalseEdge { real_target, .. } => {
                o.push(("k", V::s("goto")));
                o.push(("t", bb(*real_target)));
            }
            TerminatorKind::FalseUnwind { real_target, .. } => {
                o.push(("k", V::s("goto")));
                o.push(("t", bb(*real_target)));
            }
            other => {
                o.push(("k", V::s("other")));
                o.push(("v", V::s(format!("{:?}", other))));
            }
        }
        o.push(("ln", ln));
        o.push(("x", x));
        V::Obj(o)
    }
}

pub fn dump_body<'tcx>(tcx: TyCtxt<'tcx>, local: LocalDefId) -> V {
    let did = local.to_def_id();
    let body = tcx.optimized_mir(did);
    let tenv = TypingEnv::post_analysis(tcx, did);
    let cx = Cx { tcx, body, tenv };
    let kind = tcx.def_kind(did);
    let l = loc(tcx, tcx.def_span(did));
    let mut o: Vec<(&'static str, V)> = vec![
        ("key", V::s(def_key(tcx, did))),
        ("path", V::s(def_path(tcx, did))),
        ("kind", V::s(format!("{:?}", kind))),
        ("file", V::s(l.file)),
        ("line", V::u(l.line)),
        ("exp", expn(tcx.def_span(did)).map(V::s).unwrap_or(V::Null)),
    ];
    match kind {
        DefKind::Fn | DefKind::AssocFn => {
            o.push(("pub", V::Bool(tcx.visibility(did).is_public())));
            let sig = tcx.fn_sig(did).instantiate_identity().skip_norm_wip();
            o.push(("abi", V::s(format!("{:?}", sig.abi()))));
            let sig = sig.skip_binder();
            o.push(("inputs", V::Arr(sig.inputs().iter().map(|t| V::s(ty_str(*t))).collect())));
            o.push(("output", V::s(ty_str(sig.output()))));
            let attrs = tcx.codegen_fn_attrs(did);
            if attrs.symbol_name.is_some() || attrs.flags.contains(rustc_middle::middle::codegen_fn_attrs::CodegenFnAttrFlags::NO_MANGLE) {
                o.push(("no_mangle", V::Bool(true)));
            }
            if let Some(imp) = tcx.impl_of_assoc(did) {
                o.push(("impl", V::s(def_key(tcx, imp))));
                let st = tcx.type_of(imp).instantiate_identity().skip_norm_wip();
                o.push(("self_ty", V::s(ty_str(st))));
                if let DefKind::Impl { of_trait: true } = tcx.def_kind(imp) {
                    let tr = tcx.impl_trait_ref(imp).instantiate_identity().skip_norm_wip();
                    o.push(("trait", V::s(with_no_trimmed_paths!(tr.print_only_trait_path().to_string()))));
                }
            }
        }
        DefKind::Closure => {
            let parent = tcx.typeck_root_def_id(did);
            o.push(("parent", V::s(def_key(tcx, parent))));
            o.push(("owner", V::s(def_key(tcx, tcx.parent(did)))));
        }
        _ => {}
    }
    o.push(("argc", V::u(body.arg_count)));
    let mut locals = Vec::new();
    for d in body.local_decls.iter() {
        locals.push(V::s(ty_str(d.ty)));
    }
    o.push(("locals", V::Arr(locals)));
    // user variable names
    let mut names = Vec::new();
    for vdi in body.var_debug_info.iter() {
        if let VarDebugInfoContents::Place(p) = &vdi.value {
            names.push(V::Obj(vec![("n", V::s(vdi.name.as_str())), ("pl", cx.place(p)), ("arg", vdi.argument_index.map(|i| V::u(i as usize)).unwrap_or(V::Null))]));
        }
    }
    o.push(("names", V::Arr(names)));
    let mut blocks = Vec::new();
    for (_bb, data) in body.basic_blocks.iter_enumerated() {
        let mut stmts = Vec::new();
        for s in data.statements.iter() {
            match &s.kind {
                StatementKind::Assign(b) => {
                    let (pl, rv) = &**b;
                    let (ln, x) = cx.src(&s.source_info);
                    stmts.push(V::Obj(vec![("d", cx.place(pl)), ("r", cx.rvalue(rv)), ("ln", ln), ("x", x)]));
                }
                StatementKind::SetDiscriminant { place, variant_index } => {
                    let (ln, x) = cx.src(&s.source_info);
                    stmts.push(V::Obj(vec![
                        ("d", cx.place(place)),
                        ("r", V::Obj(vec![("k", V::s("setdiscr")), ("v", V::u(variant_index.index()))])),
                        ("ln", ln),
                        ("x", x),
                    ]));
                }
                _ => {}
            }
        }
        let term = data.terminator.as_ref().map(|t| cx.terminator(t)).unwrap_or(V::Null);
        blocks.push(V::Obj(vec![("s", V::Arr(stmts)), ("t", term), ("cleanup", if data.is_cleanup { V::Bool(true) } else { V::Null })]));
    }
    o.push(("blocks", V::Arr(blocks)));
    V::Obj(o)
}
