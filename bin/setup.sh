#!/usr/bin/env bash
# Build the framework from files on disk only (offline): the mirfacts rustc driver, then one extraction so that
# the dependency crates are compiled into /verif/work/target-default (checks re-analyse only the workspace members).
set -euo pipefail
cd "$(dirname "$0")/.."
export CARGO_NET_OFFLINE=true
( cd driver && cargo build --release --offline )
python3 bin/extract.py default >/dev/null
echo "setup ok"
