// C14 / C12: print_block_source of a third-party block must print the block's own `trusting <key>` - the same text through
// Biscuit and through UnverifiedBiscuit.
use biscuit_auth::{builder::*, *};
fn main() {
    let root = KeyPair::new();
    let ka = KeyPair::new();   // named by the authority block: index 0 of the TOKEN's key table
    let kc = KeyPair::new();   // named inside the third-party block: index 0 of the BLOCK's key table
    let ext = KeyPair::new();
    let token = Biscuit::builder()
        .rule(format!("seen($x) <- other($x) trusting {}", ka.public()).as_str()).unwrap()
        .build(&root).unwrap();
    let req = token.third_party_request().unwrap();
    let tp = req.create_block(&ext.private(), BlockBuilder::new().check(format!("check if ok(1) trusting {}", kc.public()).as_str()).unwrap()).unwrap();
    let token = token.append_third_party(ext.public(), tp).unwrap();
    let bytes = token.to_vec().unwrap();
    let verified = Biscuit::from(&bytes, root.public()).unwrap().print_block_source(1).unwrap();
    let unverified = UnverifiedBiscuit::from(&bytes).unwrap().print_block_source(1).unwrap();
    println!("key named in the block : {}", kc.public());
    println!("Biscuit            prints: {}", verified.trim());
    println!("UnverifiedBiscuit  prints: {}", unverified.trim());
    if verified == unverified && verified.contains(&kc.public().to_string()) { println!("OK"); std::process::exit(1) }
    println!("DEFECT the unverified printer shows another key than the one the block trusts");
}
