"""Symbol / public-key table threading rules shared by C12 and C07."""
import re
import hirq, mirq, sigs
from facts import CheckerError, find_all
from props.c05 import strip, is_local, mcalls

T = "biscuit_auth::token"
F = "biscuit_auth::format::SerializedBiscuit"
MUTATORS = r"datalog::symbol::SymbolTable::(extend|insert|add)$|token::public_keys::PublicKeys::(extend|insert|insert_fallible)$"


def first_party_append_rules(fb, ctx):
    """In-memory tables after a first-party append = self tables extended by exactly block.symbols and block.public_keys,
    through the overlap-checking extend, like the reload path (extract_blocks) does."""
    fns = [(f"{T}::Biscuit::new_with_key_pair", "Biscuit"), (f"{T}::Biscuit::append_with_keypair", "Biscuit"), (f"{T}::unverified::UnverifiedBiscuit::append_with_keypair", "UnverifiedBiscuit")]
    for fn, ty in fns:
        b = fb.body(fn)
        short = "::".join(fn.split("::")[-2:])
        where = f"{b['file']}:{b['line']}"
        se = mirq.calls_matching(fb, b, r"datalog::symbol::SymbolTable::extend$")
        pe = mirq.calls_matching(fb, b, r"token::public_keys::PublicKeys::extend$")
        other = [c for c in mirq.calls_matching(fb, b, MUTATORS) if c not in se and c not in pe]
        ok_shape = len(se) == 1 and len(pe) == 1 and not other
        ctx.check(ok_shape, "THREAD", f"{short}: tables extended once with the block's symbols and once with its public keys", f"THREAD|{short}|shape",
                  f"found {len(se)} SymbolTable::extend, {len(pe)} PublicKeys::extend, other table mutations {[c.callee.split('::')[-1] for c in other]}; the reload path adds both", where)
        if not ok_shape:
            continue
        ls = mirq.operand_leaves(fb, b, se[0].args[1])
        lp = mirq.operand_leaves(fb, b, pe[0].args[1])
        src_ok = (any(l.endswith(".symbols") or "BlockBuilder::build" in l for l in ls)) and (any(l.endswith(".public_keys") or "BlockBuilder::build" in l for l in lp))
        L = sigs.Layout(fb, b)
        a_s, a_p = L.operand(se[0].args[1]), L.operand(pe[0].args[1])
        ctx.check(src_ok and a_s.endswith(".symbols") and a_p.endswith(".public_keys") and a_s[:-8] == a_p[:-12], "THREAD", f"{short}: the added entries are the new block's own tables", f"THREAD|{short}|source", f"extend arguments are {a_s} and {a_p}", where)
        for c, nm in ((se[0], "symbols"), (pe[0], "public keys")):
            e = mirq.success_edge(fb, b, c)
            rets = [bb for bb, _, _ in mirq.value_return_blocks(b)]
            ctx.check(e is not None and all(mirq.dominates(b, e[1], r) for r in rets), "THREAD", f"{short}: overlapping {nm} are refused", f"THREAD|{short}|{nm}-checked", f"the Result of the {nm} extend is not propagated before returning Ok", f"{b['file']}:{c.ln}")
        # the extended table is the one stored in the returned token
        aggs = [s for _, s in mirq.aggregates(b, rf"token::(unverified::)?{ty}$")]
        if aggs:
            stored = L.operand(mirq.agg_field(aggs[0], "symbols"))
            target = L.operand(se[0].args[0])
            ctx.check(stored == target or stored in target or target in stored, "THREAD", f"{short}: the returned token stores the extended table", f"THREAD|{short}|stored", f"extended {target}, stored {stored}", where)
        # disjointness test before signing
        dj = mirq.calls_matching(fb, b, r"SymbolTable::is_disjoint$")
        sign = mirq.calls_matching(fb, b, r"SerializedBiscuit::(append|new)$")
        okd = False
        for d in dj:
            br = [x for x in mirq.result_branches(fb, b, d) if x[0] == "branch"]
            for x in br:
                # `if !is_disjoint { return Err }`: the signing call must be dominated by an edge of this branch
                for tgt in [x[2]] + list(x[3]):
                    if tgt is not None and sign and mirq.dominates(b, tgt, sign[0].bb) and not mirq.err_return_desc(fb, b, tgt):
                        okd = True
        ctx.check(okd, "THREAD", f"{short}: symbol overlap is tested before signing", f"THREAD|{short}|disjoint", "no is_disjoint test guards the signing call", where)


def third_party_isolation_rules(fb, ctx):
    """A block with an external signature neither sees nor extends the token-wide tables."""
    for fn, ty in ((f"{T}::Biscuit::append_third_party_with_keypair", "Biscuit"), (f"{T}::unverified::UnverifiedBiscuit::append_third_party_with_keypair", "UnverifiedBiscuit")):
        b = fb.body(fn)
        short = "::".join(fn.split("::")[-2:])
        where = f"{b['file']}:{b['line']}"
        muts = mirq.calls_matching(fb, b, MUTATORS)
        L = sigs.Layout(fb, b)
        aggs = [s for _, s in mirq.aggregates(b, rf"token::(unverified::)?{ty}$")]
        stored = L.operand(mirq.agg_field(aggs[0], "symbols")) if aggs else None
        ctx.check(not muts and stored == "arg1.symbols", "ISOLATE", f"{short}: token tables are carried over unchanged", f"ISOLATE|{short}",
                  f"third-party append mutates the token tables ({[c.callee.split('::')[-1] + '@' + str(c.ln) for c in muts]}) or stores {stored} instead of a copy of self.symbols", where)
    # extract_blocks: the third-party branch adds nothing
    b = fb.body(F + "::extract_blocks")
    h = fb.hir_of(b)
    where = f"{b['file']}:{b['line']}"
    loops = [l for l in find_all(h["body"], lambda n: n.get("k") == "loop" and n.get("src") == "ForLoop") if find_all(l, lambda z: z.get("k") == "field" and z.get("name") == "external_signature")]
    # the same iteration as `self.blocks.iter().map(|block| { .. }).collect::<Result<..>>()`
    loops += [m for m in find_all(h["body"], lambda z: z.get("k") == "mcall" and z.get("name") in ("map", "for_each", "try_for_each", "filter_map", "try_fold", "fold") and any(isinstance(a, dict) and strip(a).get("k") == "closure" for a in z.get("args", [])))
              if find_all(m["recv"], lambda z: z.get("k") == "field" and z.get("name") == "blocks") and not find_all(m["recv"], lambda z: z.get("k") == "closure")
              and any(find_all(a, lambda z: z.get("k") == "field" and z.get("name") == "external_signature") for a in m.get("args", []))]
    if len(loops) != 1:
        ctx.fail("ISOLATE", "extract_blocks: one loop over the blocks", "ISOLATE|extract_blocks|loop", f"found {len(loops)} loops reading external_signature", where)
        return
    loop = loops[0]
    # the branch on "is this block third-party?": `if let Some(..) = &block.external_signature {A} else {B}`, a `match` on it, or
    # `if block.external_signature.is_none() {B}` / `.is_some() {A} else {B}` - tp_side / fp_side are the code run for a third-party /
    # first-party block
    def some_preserving(e):
        """`block.external_signature[.as_ref()][.map(..)][.cloned()]`: Some exactly when the block carries an external signature"""
        e = strip(e)
        while isinstance(e, dict) and e.get("k") == "mcall" and e.get("name") in ("as_ref", "as_deref", "map", "cloned", "copied", "clone"):
            e = strip(e["recv"])
        return isinstance(e, dict) and e.get("k") == "field" and e.get("name") == "external_signature"
    ext_ids = hirq.let_ids(loop, some_preserving)
    reads_ext = lambda e: bool(find_all(e, lambda z: z.get("k") == "field" and z.get("name") == "external_signature")) or bool(find_all(e, lambda z: hirq.is_lid(z, ext_ids)))
    cands = []
    for n in find_all(loop, lambda n: n.get("k") == "if"):
        c = strip(n["cond"])
        if c.get("k") == "letexpr" and reads_ext(c["init"]):
            some = any((v or "").endswith("::Some") for v in hirq.pat_variants(c["pat"]))
            cands.append((n, n["then"] if some else n.get("else"), n.get("else") if some else n["then"]))
        else:
            neg = False
            while c.get("k") == "unary" and c.get("op") == "Not":
                neg, c = not neg, strip(c["a"])
            if c.get("k") == "mcall" and c.get("name") in ("is_some", "is_none") and reads_ext(c["recv"]):
                is_tp = (c["name"] == "is_some") != neg
                cands.append((n, n["then"] if is_tp else n.get("else"), n.get("else") if is_tp else n["then"]))
    for m_ in find_all(loop, lambda z: z.get("k") == "match" and not str(z.get("src", "")).startswith(("TryDesugar", "ForLoopDesugar")) and reads_ext(z.get("scrut"))):
        some_arms = [a_ for a_ in m_["arms"] if any((v or "").endswith("::Some") for v in hirq.pat_variants(a_["pat"]))]
        none_arms = [a_ for a_ in m_["arms"] if a_ not in some_arms]
        if some_arms and none_arms:
            cands.append((m_, {"k": "block", "stmts": [a_["body"] for a_ in some_arms], "expr": None}, {"k": "block", "stmts": [a_["body"] for a_ in none_arms], "expr": None}))
    if len(cands) != 1:
        ctx.fail("ISOLATE", "extract_blocks: branch on block.external_signature", "ISOLATE|extract_blocks|branch", f"expected one test of block.external_signature (if let / match / is_some / is_none) in the loop, found {len(cands)}", where)
        return
    br, tp_side, fp_side = cands[0]
    then_m = mcalls(tp_side, MUTATORS) if tp_side else []
    else_m = mcalls(fp_side, MUTATORS) if fp_side else []
    all_m = mcalls(loop, MUTATORS)
    outside = [m for m in all_m if not any(m is x for x in then_m) and not any(m is x for x in else_m)]
    names_else = sorted({(m.get("def") or {}).get("path", "").split("::")[-1] for m in else_m})
    ctx.check(not then_m and not outside, "ISOLATE", "extract_blocks: third-party blocks add nothing to the token tables", "ISOLATE|extract_blocks|third-party",
              f"table mutations reachable for a block with an external signature: {[(m.get('def') or {}).get('path', '').split('::')[-1] + '@' + str(m['ln']) for m in then_m + outside]}", f"{b['file']}:{br['ln']}")
    ctx.check("extend" in names_else and "insert_fallible" in names_else, "THREAD", "extract_blocks: first-party blocks add their symbols and keys, refusing overlaps", "THREAD|extract_blocks|first-party",
              f"first-party branch calls {names_else}; expected SymbolTable::extend and PublicKeys::insert_fallible", f"{b['file']}:{br['ln']}")
    # all fallible table operations are `?`-propagated
    for mb in [b] + mirq.created_closures(fb, b):
        for c in mirq.calls_matching(fb, mb, r"SymbolTable::extend$|PublicKeys::insert_fallible$|SymbolTable::from$|<datalog::symbol::SymbolTable as std::convert::From<.*>>::from$|TryFrom<.*>>::try_from$"):
            if "SymbolTable" not in (c.rpath or "") and "PublicKeys" not in (c.rpath or ""):
                continue
            mirq.result_used(fb, ctx, mb, c, "THREAD", f"extract_blocks: result of {c.callee.split('::')[-1]} is propagated", f"THREAD|extract_blocks|used|{c.callee.split('::')[-1]}")
    # authorizer side: a third-party block is resolved against its own table
    lb = fb.body("biscuit_auth::token::builder::authorizer::load_and_translate_block")
    lh = fb.hir_of(lb)
    # the table a block is resolved against: the `let` initialised by an `if` over block.external_key (whatever it is called)
    lets = [s for s in find_all(lh["body"], lambda n: n.get("k") == "let" and n.get("init") is not None and strip(n["init"]).get("k") == "if" and find_all(strip(n["init"])["cond"], lambda z: z.get("k") == "field" and z.get("name") == "external_key"))]
    p_token_symbols = hirq.param_ids(lh, 2)
    ok = False
    if lets:
        e = strip(lets[0]["init"])
        if e.get("k") == "if":
            c = strip(e["cond"])
            cond_ok = c.get("k") == "binary" and c.get("op") == "Or" and bool(mcalls(c, r"Option::<T>::is_none$")) and bool(find_all(c, lambda z: z.get("k") == "field" and z.get("name") == "external_key")) and any(hirq.literal(x) == 0 for x in find_all(c, lambda z: z.get("k") == "lit"))
            then_ok = bool(find_all(e["then"], lambda z: hirq.is_lid(z, p_token_symbols)))
            else_ok = bool(find_all(e["else"], lambda z: z.get("k") == "field" and z.get("name") == "symbols"))
            ok = cond_ok and then_ok and else_ok
            if not ok:
                # the same choice in another spelling (De Morgan, swapped branches, `matches!`): interpret the `if` at the four points
                # (block 0 / another block) x (no external key / an external key)
                import absint
                try:
                    got_ = {}
                    for i_ in (0, 1):
                        for ek_, ekv_ in (("none", absint.C("None")), ("some", absint.C("Some", absint.sym("key")))):
                            env_ = {x_: absint.sym("block") for x_ in hirq.param_ids(lh, 0)}
                            env_.update({x_: i_ for x_ in hirq.param_ids(lh, 1)})
                            env_.update({x_: absint.sym("token_symbols") for x_ in p_token_symbols})
                            r_ = absint.Interp(fields={("block", "external_key"): ekv_}).run(e, env_)
                            got_[(i_, ek_)] = "token" if r_ == absint.sym("token_symbols") else ("block" if r_ == absint.sym("block.symbols") else absint.show(r_))
                    ok = got_ == {(0, "none"): "token", (0, "some"): "token", (1, "none"): "token", (1, "some"): "block"}
                except absint.Unknown:
                    ok = False
    # .. and that choice is the only way the token's table is read: a direct use of the `token_symbols` parameter anywhere else
    # resolves part of a third-party block (its scopes, a rule, a check) against the carrier token's table
    if lets:
        inside = {id(z) for z in find_all(lets[0]["init"], lambda z: hirq.is_lid(z, p_token_symbols))}
        stray = [z for z in find_all(lh["body"], lambda z: hirq.is_lid(z, p_token_symbols)) if id(z) not in inside]
        ctx.check(not stray, "ISOLATE", "load_and_translate_block reads the token's table only to choose the block's table", "ISOLATE|load_and_translate_block|single-use", f"the token-level symbol table is used directly at line(s) {sorted({z['ln'] for z in stray})}: that part of a third-party block is resolved against the carrier token's symbols / public keys instead of the block's own", f"{lb['file']}:{stray[0]['ln'] if stray else lb['line']}")
    ctx.check(ok, "ISOLATE", "authorizer resolves a third-party block against block.symbols", "ISOLATE|load_and_translate_block", "`let block_symbols = if i == 0 || block.external_key.is_none() { token_symbols } else { block.symbols }` not found", f"{lb['file']}:{lb['line']}")
    # third-party signer builds against a fresh table
    cb = fb.body("biscuit_auth::token::third_party::ThirdPartyRequest::create_block")
    bc = mirq.calls_matching(fb, cb, r"BlockBuilder::build$")
    okc = len(bc) == 1 and any("SymbolTable::new" in l for l in mirq.operand_leaves(fb, cb, bc[0].args[1])) and not any(l.startswith("arg") for l in mirq.operand_leaves(fb, cb, bc[0].args[1]))
    ctx.check(okc, "ISOLATE", "third-party block is built against a fresh SymbolTable", "ISOLATE|create_block", "create_block must call block_builder.build(SymbolTable::new())", f"{cb['file']}:{cb['line']}")


def print_table_rules(fb, ctx):
    block_accessor_rules(fb, ctx)
    overlap_rules(fb, ctx)
    for fn in (f"{T}::Biscuit::print_block_source", f"{T}::unverified::UnverifiedBiscuit::print_block_source"):
        b = fb.body(fn)
        h = fb.hir_of(b)
        short = "::".join(fn.split("::")[-2:])
        ifs = [n for n in find_all(h["body"], lambda n: n.get("k") == "if") if mcalls(n["cond"], r"Option::<T>::is_some$") and find_all(n["cond"], lambda z: z.get("k") == "field" and z.get("name") == "external_key")]
        ok = len(ifs) == 1 and bool(find_all(ifs[0]["then"], lambda z: z.get("k") == "field" and z.get("name") == "symbols" and re.search(r"token::block::Block$", z.get("ety") or ""))) and bool(find_all(ifs[0]["else"], lambda z: z.get("k") == "field" and z.get("name") == "symbols" and is_local(strip(z["e"]), "self")))
        ctx.check(ok, "PRINT", f"{short}: third-party blocks print with their own table, others with the token table", f"PRINT|{short}", "`if block.external_key.is_some() { &block.symbols } else { &self.symbols }` not found", f"{b['file']}:{b['line']}")


def block_accessor_rules(fb, ctx):
    """SIBLING: Biscuit::block and UnverifiedBiscuit::block hand the same Block to print_block_source; a third-party block keeps the
    symbol / public-key tables it was decoded with (print_block_source resolves it against block.symbols). Any store into
    `<block>.symbols` in an accessor must therefore sit under a test that the block is NOT third-party."""
    for fn in (f"{T}::Biscuit::block", f"{T}::unverified::UnverifiedBiscuit::block"):
        b = fb.body(fn)
        h = fb.hir_of(b)
        short = "::".join(fn.split("::")[-2:])
        def sym_store(z):
            if z.get("k") not in ("assign", "assignop"):
                return False
            n = strip(z["lhs"])
            while isinstance(n, dict) and n.get("k") == "field":
                if n.get("name") == "symbols" and re.search(r"token::block::Block$", n.get("ety") or ""):
                    return True
                n = strip(n["e"])
            return False
        stores = find_all(h["body"], sym_store)
        guarded = lambda st: any(find_all(i["then"], lambda z: z is st) and find_all(i["cond"], lambda z: z.get("k") == "field" and z.get("name") == "external_key") and mcalls(i["cond"], r"Option::<T>::is_none$") for i in find_all(h["body"], lambda z: z.get("k") == "if"))
        bad = [st for st in stores if not guarded(st)]
        ctx.check(not bad, "SIBLING", f"{short}: a third-party block keeps its own symbol and key tables", f"SIBLING|{short}|tables", f"`block.symbols..` is overwritten at line {bad[0]['ln'] if bad else '?'} for every block: print_block_source then resolves a third-party block's `trusting <key>` against the token's key table and prints another key than the one the block trusts", f"{b['file']}:{bad[0]['ln'] if bad else b['line']}")


def overlap_rules(fb, ctx):
    """OVERLAP: a block may not redeclare a symbol of the default table or of the token's table. The tests are set-membership tests;
    `binary_search` answers `Err` for members of a slice that is not sorted, and none of the symbol tables is kept sorted - any use
    of it in the symbol / key table code is a wrong membership test."""
    bs = []
    for b in fb.bodies.values():
        if b["crate"] == "biscuit_auth" and not b.get("exp") and re.search(r"datalog::symbol::|token::public_keys::", b["path"]):
            bs += [(b, c) for c in fb.calls(b) if not c.indirect and re.search(r"binary_search(_by|_by_key)?$", c.callee)]
    ctx.check(not bs, "OVERLAP", "symbol / key table lookups never use binary_search (no table is sorted)", "OVERLAP|binary_search", f"binary_search on an unsorted table in {[b_['path'].split('::')[-1] for b_, _ in bs]}: members are reported absent, so an overlapping block is accepted", f"{bs[0][0]['file']}:{bs[0][1].ln}" if bs else "biscuit-auth/src/datalog/symbol.rs")
    fbody = fb.body_opt("<datalog::symbol::SymbolTable as std::convert::From<std::vec::Vec<std::string::String>>>::from") or next((b for b in fb.bodies.values() if b["crate"] == "biscuit_auth" and re.search(r"SymbolTable as std::convert::(Try)?From<std::vec::Vec<std::string::String>>>::(try_)?from$", b["path"])), None)
    if fbody is not None:
        names = {c.callee.split("::")[-1] for c in fb.calls(fbody) if not c.indirect}
        for k_, cb in fb.bodies.items():
            if cb.get("kind") == "Closure" and k_.startswith(fbody["key"] + "::"):
                names |= {c.callee.split("::")[-1] for c in fb.calls(cb) if not c.indirect}
        ctx.check(bool(names & {"is_disjoint", "intersection", "contains", "any", "is_subset"}), "OVERLAP", "SymbolTable::from tests the declared symbols against the default table by membership", "OVERLAP|from", f"no membership test among the calls {sorted(names)[:12]}", f"{fbody['file']}:{fbody['line']}")


def build_split_rules(fb, ctx):
    b = fb.body("biscuit_auth::token::builder::block::BlockBuilder::build")
    where = f"{b['file']}:{b['line']}"
    L = sigs.Layout(fb, b)
    offs = mirq.calls_matching(fb, b, r"SymbolTable::current_offset$|PublicKeys::current_offset$")
    conv = [c for c in fb.calls(b) if not c.indirect and re.search(r"Convert<.*>>::convert$", c.rpath or c.path or "")]
    sp = mirq.calls_matching(fb, b, r"SymbolTable::split_at$|PublicKeys::split_at$")
    ok = len(offs) == 2 and len(sp) == 2 and all(all(mirq.dominates(b, o.bb, c.bb) and o.bb != c.bb for c in conv) for o in offs)
    ctx.check(ok, "SPLIT", "BlockBuilder::build reads both table offsets before converting anything", "SPLIT|offsets-first", f"{len(offs)} current_offset calls, {len(sp)} split_at calls; every conversion must come after both offsets were read", where)
    if len(offs) == 2 and len(sp) == 2:
        pairs = 0
        for s in sp:
            arg = L.operand(s.args[1])
            kind = "SymbolTable" if "SymbolTable" in s.rpath else "PublicKeys"
            if arg.startswith("call:current_offset") and any((kind in o.rpath) and L.operand(o.args[0]) in arg for o in offs):
                pairs += 1
        ctx.check(pairs == 2, "SPLIT", "the new entries are split off at the offsets read at the start", "SPLIT|args", f"split_at arguments: {[L.operand(s.args[1]) for s in sp]}", where)
        # all conversions happen before the split
        ctx.check(all(all(not mirq.dominates(b, s.bb, c.bb) for c in conv) for s in sp), "SPLIT", "nothing is interned after the split", "SPLIT|order", "a conversion runs after split_at: its symbols would stay in the token-wide copy", where)


def rule_translate_rules(fb, ctx):
    """TRANSLATE: datalog::Rule::translate re-expresses every index-carrying part of a rule (head, body, expressions, scopes - a
    scope holds a public-key index) in the target table; a part copied verbatim keeps indices of the source table."""
    tb = fb.body("biscuit_auth::datalog::Rule::translate")
    agg = [s_ for _, s_ in mirq.aggregates(tb, r"datalog::Rule$")]
    if len(agg) != 1:
        ctx.fail("TRANSLATE", "Rule::translate builds one Rule", "TRANSLATE|Rule|anchor", f"{len(agg)} Rule aggregates", f"{tb['file']}:{tb['line']}")
        return
    for f in ("head", "body", "expressions", "scopes"):
        op = mirq.agg_field(agg[0], f)
        l = mirq.operand_leaves(fb, tb, op) if op is not None else set()
        closure_calls = set()
        for k_, cb in fb.bodies.items():
            if k_.startswith(tb["key"] + "::"):
                closure_calls |= {c.callee for c in fb.calls(cb)}
        translated = any(x.startswith("call:") and "clone" not in x for x in l) and any(x == f"arg1.{f}" or x.startswith(f"arg1.{f}.") for x in l)
        ctx.check(translated, "TRANSLATE", f"Rule::translate moves `{f}` into the target table", f"TRANSLATE|Rule|{f}", f"`{f}` of the translated rule depends on {sorted(l)[:6]}: copied verbatim, its symbol / public-key indices still refer to the source table (a `trusting <key>` scope then names whatever key has that index in the authorizer)", f"{tb['file']}:{tb['line']}")
