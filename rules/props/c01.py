"""C01 — forged, tampered, spliced or truncated tokens never verify (structural necessary conditions)."""
from props import chain


def check(fb, ctx):
    ctx.explanation = (
        "TYPESTATE: a Biscuit value is only built from a container that passed verify / came from a verifying deserialiser / "
        "was derived from self.container by append/seal. PASS+ARGS (chain walk): verify_inner returns Ok only after the "
        "authority block verified under the root key, every loop iteration took the success edge of verify_block_signature "
        "with the previous block's next key and signature, and the proof check (key equality or seal signature over the last "
        "block) succeeded. LAYOUT: each payload generator, abstractly evaluated as a byte-sequence builder over MIR, equals the "
        "specification's layout (tags, widths, order, every input bound). DISPATCH+ARGS: sign and verify functions select the "
        "generator by version (0, 1, else Err) and pass block.data / next_key / external signature / previous signature / "
        "version. PRIMITIVE: strict ed25519 with exact 64-byte signatures, DER ECDSA. GATE: decode-time refusals."
    )
    chain.typestate_rules(fb, ctx)
    chain.deserialize_then_verify(fb, ctx)
    chain.verify_inner_rules(fb, ctx)
    n = chain.layout_rules(fb, ctx)
    ctx.floor("payload generators", n, 7)
    chain.dispatch_rules(fb, ctx)
    chain.external_rules(fb, ctx)
    chain.mode_selection_rules(fb, ctx)
    chain.primitive_rules(fb, ctx)
    chain.decode_gates(fb, ctx)
    if ctx.tier == "thorough":
        # type-level part of TYPESTATE, decided by the compiler: an external crate cannot build or convert to a Biscuit without
        # going through verification (4 compile-fail witnesses + 4 compiling twins, witness/src/lib.rs)
        import witness
        witness.run(ctx)
    ctx.not_decided = ["cryptographic unforgeability of the signature schemes", "that no other byte string verifies (protobuf canonicity)", "behaviour of user RootKeyProvider implementations"]
    ctx.trusted = ["oracle/signature_layout.json (from the specification)", "ed25519-dalek verify_strict, p256 ecdsa verify", "rustc MIR"]
