"""Compile-fail witnesses: programs that must NOT type-check against /repo's current biscuit-auth (each with a compiling twin that
differs only by the offending line). The deciding step is the compiler's own type / privacy checking (`cargo +nightly test --doc`
compiles the doctests of /verif/witness; `compile_fail,E0xxx` needs the stated error code, twins are `no_run`: nothing executes)."""
import os, re, shutil, subprocess
from facts import CheckerError

VERIF = os.path.normpath(os.path.join(os.path.dirname(os.path.abspath(__file__)), ".."))
REPO = os.environ.get("VERIF_REPO", "/repo")


def run(ctx, rule="WITNESS", expect=8):
    src = os.path.join(VERIF, "witness")
    run_dir = os.path.join(VERIF, "work", "witness-run")
    shutil.rmtree(run_dir, ignore_errors=True)
    os.makedirs(os.path.join(run_dir, "src"))
    shutil.copy(os.path.join(src, "src", "lib.rs"), os.path.join(run_dir, "src", "lib.rs"))
    with open(os.path.join(src, "Cargo.toml")) as fh:
        toml = fh.read().replace('path = "/repo/biscuit-auth"', f'path = "{REPO}/biscuit-auth"')
    with open(os.path.join(run_dir, "Cargo.toml"), "w") as fh:
        fh.write(toml)
    shutil.copy(os.path.join(REPO, "Cargo.lock"), os.path.join(run_dir, "Cargo.lock"))
    env = dict(os.environ, CARGO_NET_OFFLINE="true", CARGO_TARGET_DIR=os.path.join(VERIF, "work", "target-witness"))
    env.pop("RUSTC_WORKSPACE_WRAPPER", None)
    p = subprocess.run(["cargo", "+nightly", "test", "--doc", "--offline"], cwd=run_dir, env=env, stdout=subprocess.PIPE, stderr=subprocess.STDOUT, text=True)
    rows = re.findall(r"^test src/lib\.rs - (\w+) \(line (\d+)\) - (compile fail|compile) \.\.\. (\w+)", p.stdout, flags=re.M)
    if not rows:
        raise CheckerError("witness crate did not build: " + p.stdout[-600:])
    for name, line, kind, res in sorted(rows):
        if kind == "compile fail":
            ctx.check(res == "ok", rule, f"{name}: the offending program is rejected by the compiler with the stated error code", f"{rule}|{name}|rejected", f"witness {name} (witness/src/lib.rs:{line}) now COMPILES (or fails with another error): the type-level barrier it documents is gone", f"witness/src/lib.rs:{line}")
        else:
            ctx.check(res == "ok", rule, f"{name}: the twin program compiles", f"{rule}|{name}|twin", f"the compiling twin of witness {name} (witness/src/lib.rs:{line}) no longer compiles: the witness may be failing for an unrelated reason", f"witness/src/lib.rs:{line}")
    ctx.floor("compile-fail witnesses and twins", len(rows), expect)
    ctx.analysed[rule] = {"doctests": len(rows), "cmd": "cargo +nightly test --doc --offline (in work/witness-run, path dependency on the analysed tree)"}
