#!/usr/bin/env python3
"""Re-verify the seeded changes collected from independent sub-agents against /repo's current HEAD, in a scratch worktree
outside /repo and /verif: (1) the change applies, compiles and keeps the existing unit + integration tests green,
(2) its demonstration fails with the change, (3) passes without it. Confirmed seeds are written to /verif/seeded/<id>/."""
import json, os, re, shutil, subprocess, sys, time

INC = "/verif/seeded_incoming"
OUT = "/verif/seeded"
WT = os.environ.get("VERIFY_WT", "/tmp/wt/verify")
LOG = os.environ.get("VERIFY_LOG", "/verif/work/verify_seeds.log")


def sh(cmd, cwd=None, timeout=3000):
    p = subprocess.run(cmd, shell=True, cwd=cwd, stdout=subprocess.PIPE, stderr=subprocess.STDOUT, text=True, timeout=timeout)
    return p.returncode, p.stdout


def log(*a):
    with open(LOG, "a") as fh:
        fh.write(" ".join(str(x) for x in a) + "\n")


def main():
    only = sys.argv[1:]
    os.makedirs(OUT, exist_ok=True)
    if not os.path.isdir(WT):
        rc, o = sh(f"git -C /repo worktree add -q --detach {WT} HEAD")
        if rc:
            print(o); sys.exit(1)
    else:
        sh("git checkout -q --detach $(git -C /repo rev-parse HEAD) && git reset -q --hard && git clean -fdq -e target", cwd=WT)
    head = sh("git rev-parse --short HEAD", cwd=WT)[1].strip()
    for prop in sorted(os.listdir(INC)):
        for n in sorted(os.listdir(os.path.join(INC, prop))):
            pid = "C" + re.sub(r"\D", "", prop[-2:]).zfill(2)
            sid = f"{pid}-{n}" if not prop.startswith("r2") else f"{pid}-r2-{n}"
            if only and sid not in only and prop not in only:
                continue
            if os.path.exists(os.path.join(OUT, sid, "meta.json")) and not os.environ.get("FORCE"):
                continue
            d = os.path.join(INC, prop, n)
            if not os.path.exists(os.path.join(d, "patch.diff")):
                continue
            t0 = time.time()
            res = {"id": sid, "head": head}
            sh("git reset -q --hard && git clean -fdq -e target", cwd=WT)
            rc, o = sh(f"git apply {d}/patch.diff", cwd=WT)
            if rc:
                rc, o = sh(f"patch -p1 -F3 --no-backup-if-mismatch -i {d}/patch.diff", cwd=WT)
            if rc:
                res["status"] = "patch does not apply"; res["detail"] = o[-400:]
                log(json.dumps(res)); print(sid, res["status"]); continue
            ported = sh("git diff", cwd=WT)[1]
            meta = {}
            try:
                meta = json.load(open(os.path.join(d, "meta.json")))
            except Exception:
                pass
            loc = meta.get("demo_location") or "biscuit-auth/tests/seed_demo.rs"
            loc = loc.split()[0].strip("`")
            if not loc.endswith(".rs"):
                loc = "biscuit-auth/tests/seed_demo.rs"
            crate = loc.split("/")[0]
            # (1) suite with the change (unit + integration tests; doctests use 1 ms wall-clock limits and are not part of the 124)
            rc, o = sh("CARGO_NET_OFFLINE=true cargo test --workspace --offline --no-fail-fast --lib --tests 2>&1 | grep -E '^test result|FAILED|panicked|error(\\[|:)' | head -30", cwd=WT)
            failed = [l for l in o.splitlines() if "FAILED" in l or l.startswith("error")]
            # several unit tests authorize with the default 1 ms time limit and fail with RunLimit(Timeout) on a loaded machine:
            # a failed test that passes when re-run alone (3 tries) is a timing flake, not an effect of the change
            names = re.findall(r"^test (\S+) \.\.\. FAILED", o, flags=re.M)
            compile_err = any(l.startswith("error[") or l.startswith("error: could not compile") for l in failed)
            if names and not compile_err:
                still = []
                for nm in names:
                    okk = False
                    for _ in range(3):
                        rc2, o2 = sh(f"CARGO_NET_OFFLINE=true cargo test --offline -p biscuit-auth --lib -- --exact {nm} 2>&1 | grep -E '^test result' | head -1", cwd=WT)
                        if " 1 passed" in o2:
                            okk = True
                            break
                    if not okk:
                        still.append(nm)
                if not still:
                    res["timing_flakes_rerun_ok"] = names
                    failed = []
            flaky_only = all("token::tests::basic" in l for l in failed if "FAILED" in l and "test result" not in l) and not any(l.startswith("error") for l in failed)
            res["suite_with_change"] = "green" if not failed else ("green (known-flaky token::tests::basic only)" if flaky_only and all("test result" in l or "tests::basic" in l for l in failed) else "RED: " + " | ".join(failed[:4]))
            # (2) demo with the change
            shutil.copy(os.path.join(d, "demo.rs"), os.path.join(WT, loc))
            rc_with, o_with = sh(f"CARGO_NET_OFFLINE=true cargo test --offline -p {crate} --test seed_demo 2>&1 | tail -40", cwd=WT)
            r_with = re.findall(r"test result: (\w+)\. (\d+) passed; (\d+) failed", o_with)
            # (3) demo without the change
            sh("git checkout -q -- .", cwd=WT)
            rc_wo, o_wo = sh(f"CARGO_NET_OFFLINE=true cargo test --offline -p {crate} --test seed_demo 2>&1 | tail -40", cwd=WT)
            r_wo = re.findall(r"test result: (\w+)\. (\d+) passed; (\d+) failed", o_wo)
            os.remove(os.path.join(WT, loc))
            res["demo_with_change"] = r_with[-1] if r_with else ("compile error: " + o_with[-300:])
            res["demo_without_change"] = r_wo[-1] if r_wo else ("compile error: " + o_wo[-300:])
            ok = bool(r_with) and bool(r_wo) and int(r_with[-1][2]) > 0 and int(r_wo[-1][2]) == 0 and int(r_wo[-1][1]) > 0 and res["suite_with_change"].startswith("green")
            res["status"] = "confirmed" if ok else "NOT confirmed"
            res["wall_s"] = round(time.time() - t0)
            log(json.dumps(res)); print(sid, res["status"], res.get("suite_with_change"), res["demo_with_change"], res["demo_without_change"], flush=True)
            if ok:
                od = os.path.join(OUT, sid)
                os.makedirs(od, exist_ok=True)
                with open(os.path.join(od, "patch.diff"), "w") as fh:
                    fh.write(ported)
                shutil.copy(os.path.join(d, "demo.rs"), os.path.join(od, "demo.rs"))
                m = {"id": sid, "property": pid, "summary": meta.get("summary"), "needs_to_manifest": meta.get("needs_to_manifest"), "files_touched": meta.get("files_touched"), "demo_location": loc,
                     "origin": "written by an independent sub-agent that saw only the property text and a scratch worktree; patch re-based (git diff) onto the /repo HEAD it was confirmed against",
                     "confirmed_against": head,
                     "what_i_ran": ["git apply patch.diff (scratch worktree outside /repo and /verif)", "cargo test --workspace --offline --no-fail-fast --lib --tests  -> " + res["suite_with_change"] + (f" (tests {res['timing_flakes_rerun_ok']} failed with the 1 ms default time limit under load and passed when re-run alone)" if res.get("timing_flakes_rerun_ok") else ""), f"cp demo.rs {loc}; cargo test --offline -p {crate} --test seed_demo  -> with change: {res['demo_with_change']}", f"git checkout -- . ; same demo -> without change: {res['demo_without_change']}"]}
                json.dump(m, open(os.path.join(od, "meta.json"), "w"), indent=1)
    print("done")


if __name__ == "__main__":
    main()
