"""C03 — attenuation can only restrict (structural necessary conditions: provenance, visibility, trust, loading, scoping)."""
from props import authz, c05


def check(fb, ctx):
    ctx.explanation = (
        "PROVENANCE (shared with C05): a derived fact's origin = matched origins + the rule's block; joins union origins; every "
        "derived (origin, fact) is stored. VISIBLE: evaluation reads facts only through FactSet::iterator(scope), which keeps an "
        "origin set only when the scope's TrustedOrigins is a superset of it (receiver/argument roles checked). TRUST: default "
        "trust is {authority, authorizer}; an unscoped rule/check/policy of block i trusts default + {i}; `authority`, `previous` "
        "and public-key scopes add exactly what they name. LOAD: block i's facts are stored under {i}, its rules run as block i, "
        "blocks signed by an external key are registered as i + 1. BLOCKID/SCOPECHAIN: each check is evaluated as its own block."
    )
    c05.shared_rules(fb, ctx, "C03", only={"PROVENANCE", "FIXPOINT", "STORE"})
    authz.trust_rules(fb, ctx)
    authz.loading_rules(fb, ctx)
    authz.checkkind_rules(fb, ctx)
    authz.scope_arg_rules(fb, ctx)
    ctx.not_decided = ["the implication `extended token authorised => original authorised` itself (a statement about fixpoints of arbitrary programs)", "non-monotone interaction of check all / reject if with later blocks beyond per-block scoping"]
    ctx.trusted = ["rustc HIR/typeck resolution", "std BTreeSet::is_superset"]
