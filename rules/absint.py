"""Finite abstract evaluation of small decision functions (rule kind EVAL).

A decision function (which error a declared version gets, what `authorize` returns for (matched policy, failed checks), which
signature version a block gets, ..) has a small finite input domain once everything that is not a decision input is made symbolic.
This module interprets the HIR-lite tree of such a function at ONE point of that domain and returns the abstract result; the rule
loops over the whole domain and compares with the specification table. Nothing of the analysed program is executed: values are
tags and symbols, calls other than constructors and the std Option/Result combinators are symbolic (or hooked by the rule).

Values: bool / int / str / None (unit); ("C", name, [args]) an enum variant or tuple struct by its LAST path segment; ("S", name,
{field: value}) a struct literal; ("T", [values]) a tuple; ("sym", name) an uninterpreted value; ("fn", params, body, env) a closure.
Anything the interpreter does not understand raises Unknown: the caller then falls back to its structural rule or fails closed."""
import re

MAX_STEPS = 20000


class Unknown(Exception):
    pass


class _Return(Exception):
    def __init__(self, v, of=None):
        self.v = v
        self.of = of          # set when the `return` / `?` belongs to a helper that was inlined: it leaves that helper's block only


class _Continue(Exception):
    pass


ANY = ("any",)                # an element of an iteration that is run once abstractly: matches every pattern


class _Break(Exception):
    def __init__(self, v):
        self.v = v


class Env(dict):
    """a scope: lookups fall through to the enclosing scope, `let` binds here, an assignment updates the scope that holds the variable"""
    def __init__(self, parent=None):
        super().__init__()
        if isinstance(parent, Env):
            self.parent = parent
        else:
            self.parent = None
            if parent:
                dict.update(self, parent)

    def __missing__(self, k):
        if self.parent is not None:
            return self.parent[k]
        raise KeyError(k)

    def __contains__(self, k):
        return dict.__contains__(self, k) or (self.parent is not None and k in self.parent)

    def get(self, k, d=None):
        try:
            return self[k]
        except KeyError:
            return d

    def assign(self, k, v):
        e = self
        while e is not None:
            if dict.__contains__(e, k):
                dict.__setitem__(e, k, v)
                return
            e = e.parent
        self[k] = v


def C(name, *args):
    return ("C", name, list(args))


def sym(name):
    return ("sym", name)


def last(path):
    return (path or "").split("::")[-1]


def tag(v):
    """constructor name of an enum value, or None"""
    return v[1] if isinstance(v, tuple) and v and v[0] == "C" else None


def show(v):
    if isinstance(v, tuple) and v:
        if v[0] == "C":
            return v[1] + ("(" + ", ".join(show(x) for x in v[2]) + ")" if v[2] else "")
        if v[0] == "S":
            return v[1] + "{" + ", ".join(f"{k}: {show(x)}" for k, x in sorted(v[2].items())) + "}"
        if v[0] == "T":
            return "(" + ", ".join(show(x) for x in v[1]) + ")"
        if v[0] == "sym":
            return "<" + v[1] + ">"
        if v[0] == "fn":
            return "<closure>"
    return repr(v)


class Interp:
    def __init__(self, consts=None, hooks=None, fields=None, loops=None):
        """consts: {constant name: value}; hooks: {(method or fn last segment): f(interp, recv, args) -> value or NotImplemented};
        fields: {(base description, field): value} resolved through `field_hook`"""
        self.consts = consts or {}
        self.hooks = hooks or {}
        self.fields = fields or {}
        self.steps = 0
        self.assigned = {}
        self.loops = loops        # None: loops are outside the fragment; "once" / "zero": every loop body runs exactly once / not at all

    # ------------------------------------------------------------------ patterns
    def bind(self, pat, v, env):
        """match value against pattern; returns True and extends env on success"""
        k = pat.get("k")
        if k == "wild":
            return True
        if v == ANY and k != "bind":
            for b_ in _binds(pat):
                env[b_] = ANY
            return True
        if k == "bind":
            if pat.get("sub") and not self.bind(pat["sub"], v, env):
                return False
            env[pat["id"]] = v
            return True
        if k in ("ref", "box", "deref"):
            return self.bind(pat["pat"], v, env)
        if k == "guard":
            return self.bind(pat["pat"], v, env) and self.truth(self.ev(pat["cond"], env))
        if k == "or":
            for p in pat["pats"]:
                e2 = Env(env)
                if self.bind(p, v, e2):
                    env.update(e2)
                    return True
            return False
        if k == "tuple":
            if not (isinstance(v, tuple) and v and v[0] == "T" and len(v[1]) == len(pat["pats"])):
                if isinstance(v, tuple) and v and v[0] == "sym":
                    raise Unknown("destructuring a symbolic tuple")
                return False
            return all(self.bind(p, x, env) for p, x in zip(pat["pats"], v[1]))
        if k == "lit":
            if isinstance(v, tuple):
                raise Unknown("literal pattern against " + show(v))
            return v == pat.get("v")
        if k == "path":
            name = last((pat.get("res") or {}).get("of") or (pat.get("res") or {}).get("path"))
            if name in self.consts and not isinstance(v, tuple):
                return v == self.consts[name]
            if isinstance(v, tuple) and v and v[0] == "sym":
                raise Unknown("pattern on symbolic value " + show(v))
            return tag(v) == name
        if k == "tstruct":
            name = last((pat.get("res") or {}).get("of") or (pat.get("res") or {}).get("path"))
            if isinstance(v, tuple) and v and v[0] == "sym":
                raise Unknown("pattern on symbolic value " + show(v))
            if tag(v) != name:
                return False
            args = v[2]
            pats = pat["pats"]
            if pat.get("dd") is not None or len(pats) != len(args):
                # `Variant(..)` / fewer patterns than fields: only wildcards can be skipped safely
                if all(p.get("k") == "wild" for p in pats) or not pats:
                    return True
                if len(args) == 1 and len(pats) == 1:
                    return self.bind(pats[0], args[0], env)
                args = args + [sym("?")] * (len(pats) - len(args))
            return all(self.bind(p, x, env) for p, x in zip(pats, args))
        if k == "struct":
            name = last((pat.get("res") or {}).get("of") or (pat.get("res") or {}).get("path"))
            if isinstance(v, tuple) and v and v[0] == "sym":
                raise Unknown("pattern on symbolic value " + show(v))
            if not (isinstance(v, tuple) and v and v[0] in ("S", "C") and v[1] == name):
                return False
            if v[0] == "C":
                # `Some { 0: pat }` (how `for` and `?` are desugared): positional fields of a tuple variant
                fs_ = pat.get("fields") or []
                if all(str(f_.get("name", "")).isdigit() and int(f_["name"]) < len(v[2]) for f_ in fs_):
                    return all(self.bind(f_["pat"], v[2][int(f_["name"])], env) for f_ in fs_)
                return not fs_
            return all(self.bind(f["pat"], v[2].get(f["name"], sym(f["name"])), env) for f in pat.get("fields", []))
        raise Unknown("pattern " + str(k))

    def truth(self, v):
        if isinstance(v, bool):
            return v
        raise Unknown("condition is not a boolean: " + show(v))

    # ------------------------------------------------------------------ expressions
    def ev(self, n, env):
        self.steps += 1
        if self.steps > MAX_STEPS:
            raise Unknown("step bound")
        if not isinstance(n, dict):
            raise Unknown(str(n))
        k = n.get("k")
        if k == "block":
            env = Env(env) if n.get("stmts") else env
            try:
                for st in n.get("stmts", []):
                    self.stmt(st, env)
                return self.ev(n["expr"], env) if n.get("expr") is not None else None
            except _Return as r:
                if n.get("inl_id") is not None and r.of == n["inl_id"]:
                    return r.v          # the `return` of an inlined helper ends the helper's block
                raise
        if k == "loop" and self.loops in ("once", "zero"):
            # `for pat in it { body }` = match into_iter(it) { mut iter => loop { match next(&mut iter) { None => break, Some(pat) => body } } }
            if self.loops == "zero":
                return None
            self._next = getattr(self, "_next", 0) + 1
            try:
                self.ev(n["body"], env)
            except (_Continue, _Break):
                pass
            return None
        if k == "continue":
            raise _Continue()
        if k == "break":
            raise _Break(self.ev(n["e"], env) if n.get("e") is not None else None)
        if k in ("addr", "use", "paren", "droptemps", "cast", "box"):
            return self.ev(n["e"], env)
        if k == "unary":
            v = self.ev(n["a"], env)
            if n.get("op") == "Not":
                return not self.truth(v)
            if n.get("op") == "Deref":
                return v
            if n.get("op") == "Neg" and isinstance(v, int):
                return -v
            raise Unknown("unary " + str(n.get("op")))
        if k == "binary":
            op = n["op"]
            if op == "And":
                return self.truth(self.ev(n["a"], env)) and self.truth(self.ev(n["b"], env))
            if op == "Or":
                return self.truth(self.ev(n["a"], env)) or self.truth(self.ev(n["b"], env))
            a, b = self.ev(n["a"], env), self.ev(n["b"], env)
            if op in ("Eq", "Ne"):
                if (isinstance(a, tuple) and a[0] == "sym") or (isinstance(b, tuple) and b[0] == "sym"):
                    raise Unknown("comparison with a symbolic value")
                return (a == b) == (op == "Eq")
            if op in ("Lt", "Le", "Gt", "Ge", "Add", "Sub"):
                if not (isinstance(a, int) and isinstance(b, int)) or isinstance(a, bool):
                    raise Unknown("arithmetic on " + show(a) + ", " + show(b))
                return {"Lt": a < b, "Le": a <= b, "Gt": a > b, "Ge": a >= b, "Add": a + b, "Sub": a - b}[op]
            raise Unknown("binary " + op)
        if k == "if":
            c = n["cond"]
            if isinstance(c, dict) and c.get("k") == "letexpr":
                e2 = Env(env)
                if self.bind(c["pat"], self.ev(c["init"], env), e2):
                    return self.ev(n["then"], e2)
                return self.ev(n["else"], env) if n.get("else") is not None else None
            if self.truth(self.ev(c, env)):
                return self.ev(n["then"], env)
            return self.ev(n["else"], env) if n.get("else") is not None else None
        if k == "match":
            if str(n.get("src", "")).startswith("TryDesugar"):
                inner = n["scrut"]["args"][0] if n["scrut"].get("k") == "call" and n["scrut"].get("args") else None
                if inner is None:
                    raise Unknown("?-desugaring")
                v = self.ev(inner, env)
                if tag(v) in ("Ok", "Some"):
                    return v[2][0] if v[2] else None
                if tag(v) in ("Err", "None"):
                    raise _Return(v, n.get("of"))
                raise Unknown("`?` on " + show(v))
            v = self.ev(n["scrut"], env)
            for arm in n["arms"]:
                e2 = Env(env)
                if self.bind(arm["pat"], v, e2):
                    if arm.get("guard") is not None and not self.truth(self.ev(arm["guard"], e2)):
                        continue
                    return self.ev(arm["body"], e2)
            raise Unknown("no arm matches " + show(v))
        if k == "ret":
            raise _Return(self.ev(n["e"], env) if n.get("e") is not None else None, n.get("of"))
        if k == "lit":
            return n.get("v")
        if k == "tup":
            return ("T", [self.ev(x, env) for x in n.get("es", [])]) if n.get("es") else None
        if k == "array":
            return ("L", [self.ev(x, env) for x in n.get("es", [])])       # a literal table: `[(flag, minimum, message), ..]`
        if k == "path":
            r = n.get("res") or {}
            if r.get("dk") == "Local":
                if r.get("id") in env:
                    return env[r["id"]]
                raise Unknown("unbound local " + str(r.get("name")))
            nm = last(r.get("of") or r.get("path"))
            if nm in self.consts:
                return self.consts[nm]
            if str(r.get("dk", "")).startswith("Ctor"):
                return C(nm)
            return sym(nm)
        if k == "field":
            base = self.ev(n["e"], env)
            if isinstance(base, tuple) and base and base[0] == "S" and n["name"] in base[2]:
                return base[2][n["name"]]
            if isinstance(base, tuple) and base and base[0] == "T" and str(n["name"]).isdigit():
                return base[1][int(n["name"])]
            if isinstance(base, tuple) and base and base[0] == "sym":
                key = (base[1], n["name"])
                if key in self.fields:
                    return self.fields[key]
                return sym(base[1] + "." + n["name"])
            raise Unknown("field " + str(n.get("name")) + " of " + show(base))
        if k == "struct":
            return ("S", last((n.get("res") or {}).get("of") or (n.get("res") or {}).get("path")), {f["name"]: self.ev(f["e"], env) for f in n.get("fields", [])})
        if k == "closure":
            return ("fn", n.get("params") or [], n["body"], env)
        if k == "call":
            f = n.get("f") or {}
            if f.get("k") == "path":
                r = f.get("res") or {}
                nm = last(r.get("of") or r.get("path"))
                args = [self.ev(a, env) for a in n.get("args", [])]
                if str(r.get("dk", "")).startswith("Ctor"):
                    return C(nm, *args)
                if nm == "next" and self.loops == "once":
                    return C("Some", ANY)          # the one abstract iteration of a `for` loop
                if nm in self.hooks:
                    out = self.hooks[nm](self, None, args)
                    if out is not NotImplemented:
                        return out
                if nm in ("from", "into") and len(args) == 1:
                    return args[0]
                if nm == "default" and not args:
                    return sym("default")
                return sym(nm + "(" + ", ".join(show(a) for a in args) + ")")
            fv = self.ev(f, env)
            return self.apply(fv, [self.ev(a, env) for a in n.get("args", [])])
        if k == "mcall":
            recv = self.ev(n["recv"], env)
            args = [self.ev(a, env) for a in n.get("args", [])]
            return self.method(n.get("name"), recv, args)
        if k == "assign":
            self.stmt(n, env)
            return None
        if k == "format":
            return sym("formatted")
        if k == "index":
            return sym("index")
        raise Unknown("expression " + str(k))

    def stmt(self, st, env):
        k = st.get("k")
        if k == "let":
            v = self.ev(st["init"], env) if st.get("init") is not None else sym("uninit")
            if not self.bind(st["pat"], v, env):
                els = st.get("els") if st.get("els") is not None else st.get("else")
                if els is not None:
                    self.ev(els, env)          # the else block of `let .. else` diverges (return / break)
                raise Unknown("refutable let did not match")
            return
        if k == "semi":
            self.ev(st["e"], env)
            return
        if k == "assign":
            lhs = st["lhs"]
            while isinstance(lhs, dict) and lhs.get("k") in ("addr", "use", "paren"):
                lhs = lhs["e"]
            if lhs.get("k") == "path" and (lhs.get("res") or {}).get("dk") == "Local":
                v = self.ev(st["rhs"], env)
                if isinstance(env, Env):
                    env.assign(lhs["res"]["id"], v)
                else:
                    env[lhs["res"]["id"]] = v
                self.assigned[lhs["res"]["id"]] = v      # visible to the rule after the run (blocks copy their environment)
                return
            raise Unknown("assignment to a place")
        self.ev(st, env)

    def apply(self, fv, args):
        if isinstance(fv, tuple) and fv and fv[0] == "fn":
            _, params, body, cenv = fv
            e2 = Env(cenv)
            for p, a in zip(params, args):
                if not self.bind(p, a, e2):
                    raise Unknown("closure parameter pattern")
            try:
                return self.ev(body, e2)
            except _Return as r:
                return r.v
        if isinstance(fv, tuple) and fv and fv[0] == "C" and not fv[2]:
            return C(fv[1], *args)         # `.map(Term::Integer)`: a constructor used as a function
        if isinstance(fv, tuple) and fv and fv[0] == "sym":
            if fv[1] in self.hooks:
                out = self.hooks[fv[1]](self, None, args)
                if out is not NotImplemented:
                    return out
            return sym(fv[1] + "(" + ", ".join(show(a) for a in args) + ")")
        raise Unknown("call of " + show(fv))

    def method(self, name, recv, args):
        if name in self.hooks:
            out = self.hooks[name](self, recv, args)
            if out is not NotImplemented:
                return out
        t = tag(recv)
        if isinstance(recv, tuple) and recv and recv[0] == "L":
            # searches over a literal table, element by element in order
            if name in ("find", "find_map", "any", "all", "position") and len(args) == 1:
                for i_, el in enumerate(recv[1]):
                    r_ = self.apply(args[0], [el])
                    if name == "find_map":
                        if tag(r_) == "Some":
                            return r_
                        if tag(r_) != "None":
                            raise Unknown("find_map closure result " + show(r_))
                        continue
                    ok_ = self.truth(r_)
                    if name == "find" and ok_:
                        return C("Some", el)
                    if name == "position" and ok_:
                        return C("Some", i_)
                    if name == "any" and ok_:
                        return True
                    if name == "all" and not ok_:
                        return False
                return {"find": C("None"), "find_map": C("None"), "position": C("None"), "any": False, "all": True}[name]
            if name in ("len",):
                return len(recv[1])
            if name in ("first",):
                return C("Some", recv[1][0]) if recv[1] else C("None")
            if name in ("last",):
                return C("Some", recv[1][-1]) if recv[1] else C("None")
            if name == "is_empty":
                return not recv[1]
        if self.loops in ("once", "zero") and isinstance(recv, tuple) and recv and recv[0] == "sym" and args and isinstance(args[-1], tuple) and args[-1] and args[-1][0] == "fn":
            # internal iteration over a symbolic iterator, run zero times / once like the `for` loops
            once = self.loops == "once"
            if name in ("try_fold", "fold") and len(args) == 2:
                r_ = self.apply(args[1], [args[0], ANY])
                if once:
                    return r_
                if name == "fold":
                    return args[0]
                fam = {"Continue": "Continue", "Break": "Continue", "Ok": "Ok", "Err": "Ok", "Some": "Some", "None": "Some"}.get(tag(r_))
                if fam is None:
                    raise Unknown("try_fold result family of " + show(r_))
                return C(fam, args[0])
            if name in ("any", "all") and len(args) == 1:
                return self.truth(self.apply(args[0], [ANY])) if once else (name == "all")
            if name in ("for_each",) and len(args) == 1:
                if once:
                    self.apply(args[0], [ANY])
                return None
            if name in ("try_for_each",) and len(args) == 1:
                r_ = self.apply(args[0], [ANY])
                fam = {"Continue": "Continue", "Break": "Continue", "Ok": "Ok", "Err": "Ok", "Some": "Some", "None": "Some"}.get(tag(r_))
                return r_ if once else (C(fam, None) if fam else r_)
        if name in ("to_string", "as_str", "to_vec", "as_bytes") and not args:
            return recv
        if name in ("clone", "as_ref", "as_mut", "copied", "cloned", "borrow", "to_owned", "as_deref", "into", "iter", "into_iter"):
            return recv
        if t in ("Some", "None", "Ok", "Err"):
            inner = recv[2][0] if recv[2] else None
            good = t in ("Some", "Ok")
            if name in ("is_some", "is_ok"):
                return good
            if name in ("is_none", "is_err"):
                return not good
            if name == "map":
                return C(t, self.apply(args[0], [inner])) if good else recv
            if name == "map_err":
                return C("Err", self.apply(args[0], [inner])) if t == "Err" else recv
            if name == "and_then":
                return self.apply(args[0], [inner]) if good else recv
            if name in ("ok_or", "ok_or_else"):
                if t == "Some":
                    return C("Ok", inner)
                if t == "None":
                    return C("Err", args[0] if name == "ok_or" else self.apply(args[0], []))
            if name == "ok":
                return C("Some", inner) if t == "Ok" else C("None")
            if name in ("unwrap_or", "unwrap_or_else", "unwrap_or_default"):
                if good:
                    return inner
                return args[0] if name == "unwrap_or" else (self.apply(args[0], [inner] if t == "Err" else []) if name == "unwrap_or_else" else sym("default"))
            if name == "map_or":
                return self.apply(args[1], [inner]) if good else args[0]
            if name == "map_or_else":
                return self.apply(args[1], [inner]) if good else self.apply(args[0], [inner] if t == "Err" else [])
            if name == "filter" and t in ("Some", "None"):
                return recv if good and self.truth(self.apply(args[0], [inner])) else C("None")
            if name == "transpose":
                if t == "None":
                    return C("Ok", C("None"))
                if t == "Some" and tag(inner) == "Ok":
                    return C("Ok", C("Some", inner[2][0] if inner[2] else None))
                if t == "Some" and tag(inner) == "Err":
                    return inner
                if t == "Ok" and tag(inner) in ("Some", "None"):
                    return C("Some", C("Ok", inner[2][0])) if tag(inner) == "Some" else C("None")
            if name in ("unwrap", "expect") and good:
                return inner
            if name == "flatten" and t == "Some" and tag(inner) in ("Some", "None"):
                return inner
            if name == "flatten" and t == "None":
                return recv
        if isinstance(recv, bool):
            if name == "then":
                return C("Some", self.apply(args[0], [])) if recv else C("None")
            if name == "then_some":
                return C("Some", args[0]) if recv else C("None")
        if isinstance(recv, tuple) and recv and recv[0] == "sym":
            return sym(recv[1] + "." + str(name) + "(" + ", ".join(show(a) for a in args) + ")")
        raise Unknown("method " + str(name) + " on " + show(recv))

    # ------------------------------------------------------------------ entry
    def run(self, body, env):
        self.steps = 0
        try:
            return self.ev(body, Env(env))
        except _Return as r:
            return r.v


def _binds(pat):
    out = []
    def w(n):
        if isinstance(n, list):
            for x in n:
                w(x)
        elif isinstance(n, dict):
            if n.get("k") == "bind" and n.get("id") is not None:
                out.append(n["id"])
            for x in n.values():
                if isinstance(x, (dict, list)):
                    w(x)
    w(pat)
    return out


def free_locals(node):
    """ids of locals used in `node` that are not bound inside it, with one use site each: {id: name}"""
    bound, used = set(), {}
    def w(n):
        if isinstance(n, list):
            for x in n:
                w(x)
        elif isinstance(n, dict):
            if n.get("k") == "bind" and isinstance(n.get("id"), int):
                bound.add(n["id"])
            if n.get("k") == "path" and (n.get("res") or {}).get("dk") == "Local":
                used.setdefault(n["res"]["id"], n["res"].get("name"))
            for v in n.values():
                w(v)
    w(node)
    return {i: nm for i, nm in used.items() if i not in bound}


def find_ctor(v, name):
    """first sub-value that is the constructor / struct `name`"""
    if isinstance(v, tuple) and v:
        if v[0] in ("C", "S") and v[1] == name:
            return v
        kids = v[2] if v[0] == "C" else (list(v[2].values()) if v[0] == "S" else (v[1] if v[0] == "T" else []))
        for x in kids:
            r = find_ctor(x, name)
            if r is not None:
                return r
    return None
