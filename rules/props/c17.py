"""C17 — key and signature encodings round-trip and reject malformed material (structural necessary conditions)."""
import re
import hirq, mirq, reach
from facts import CheckerError, find_all, walk
from props import chain
from props.c05 import strip, is_local, mcalls

C = "biscuit_auth::crypto"
ED = ("ed25519", "Ed25519")
EC = ("secp256r1", "Secp256r1", "P256")


def side_of(variant):
    v = (variant or "").split("::")[-1]
    if v == "Ed25519":
        return "ed"
    if v in ("Secp256r1", "P256"):
        return "ec"
    return None



def extra_config_rules(ctx):
    """thorough tier: the optional features of biscuit-auth that build offline (bwk, uuid, serde-error). REACH over the public
    functions this configuration adds, and WIRE for the BiscuitWebKey <-> BiscuitWebKeyRepr key encoding (every field of one side
    comes from the matching field of the other, through the algorithm-string / hex helpers the default configuration checks)."""
    import facts
    fd = facts.load("default")
    fx = facts.load("extra")
    dpaths = {b["path"] for b in fd.bodies.values()}
    new = [b for b in fx.bodies.values() if b["crate"] == "biscuit_auth" and b["path"] not in dpaths]
    ent = [b["key"] for b in new if b["kind"] in ("Fn", "AssocFn")]
    ctx.floor("bodies added by the bwk/uuid/serde-error features", len(new), 3)
    reach.run(fx, ctx, ent, rule="REACH-extra")
    wb = fx.body("<bwk::BiscuitWebKeyRepr as std::convert::From<bwk::BiscuitWebKey>>::from")
    rb = fx.body("<bwk::BiscuitWebKey as std::convert::TryFrom<bwk::BiscuitWebKeyRepr>>::try_from")
    wa = [s_ for _, s_ in mirq.aggregates(wb, r"bwk::BiscuitWebKeyRepr$")]
    ra = [s_ for _, s_ in mirq.aggregates(rb, r"bwk::BiscuitWebKey$")]
    if not (wa and ra):
        raise CheckerError("anchor: BiscuitWebKey conversions")
    want_w = {"algorithm": ("arg1.public_key", "algorithm_string"), "key_bytes": ("arg1.public_key", "to_bytes_hex"), "key_id": ("arg1.key_id", None), "issuer": ("arg1.issuer", None), "expires_at": ("arg1.expires_at", None)}
    for f, (src, via) in want_w.items():
        lv = mirq.operand_leaves(fx, wb, mirq.agg_field(wa[0], f))
        ok = mirq.has_leaf(lv, src) and (via is None or any(via in x for x in lv)) and not any(x.startswith("arg1.") and not x.startswith(src) for x in lv)
        ctx.check(ok, "WIRE", f"BiscuitWebKeyRepr.{f} <- {src.replace('arg1', 'key')}" + (f" through {via}" if via else ""), f"WIRE|bwk|writer|{f}", f"field depends on {sorted(lv)[:6]}", f"{wb['file']}:{wb['line']}")
    lv = mirq.operand_leaves(fx, rb, mirq.agg_field(ra[0], "public_key"))
    ctx.check(mirq.has_leaf(lv, "arg1.key_bytes") and mirq.has_leaf(lv, "arg1.algorithm") and any("from_bytes_hex" in x for x in lv) and any("try_from" in x for x in lv), "WIRE", "BiscuitWebKey.public_key <- from_bytes_hex(repr.key_bytes, Algorithm::try_from(repr.algorithm))", "WIRE|bwk|reader|public_key", f"field depends on {sorted(lv)[:8]}", f"{rb['file']}:{rb['line']}")
    for f in ("key_id", "issuer", "expires_at"):
        lv = mirq.operand_leaves(fx, rb, mirq.agg_field(ra[0], f))
        ctx.check(set(x for x in lv if x.startswith("arg")) == {f"arg1.{f}"}, "WIRE", f"BiscuitWebKey.{f} <- repr.{f}", f"WIRE|bwk|reader|{f}", f"field depends on {sorted(lv)[:6]}", f"{rb['file']}:{rb['line']}")
    for c in fx.calls(rb):
        if not c.indirect and re.search(r"(Algorithm as std::convert::TryFrom<&str>>::try_from|PublicKey::from_bytes_hex)$", c.callee):
            mirq.result_used(fx, ctx, rb, c, "USED", f"BiscuitWebKey::try_from: a failure of {c.callee.split('::')[-1]} is propagated", f"USED|bwk|{c.callee.split('::')[-1]}")

def check(fb, ctx):
    ctx.explanation = (
        "REACH: no undischarged panic source reachable from any public function of crypto/{mod,ed25519,p256}.rs or "
        "parser::public_key; fixed-size conversions (GenericArray::from(&[u8])) are only reached after a dominating exact-length "
        "test, ed25519 uses try_into::<[u8; N]> with an error mapping. ALGDISPATCH: in every match/if over an algorithm or key "
        "enum the Ed25519 side only calls crypto::ed25519 / names \"ed25519\" and the Secp256r1/P256 side only calls crypto::p256 / "
        "names \"secp256r1\" (all prefix strings agree between printers, FromStr impls, the Algorithm type and the Datalog parser). "
        "UNKNOWNALG: from_proto compares the raw algorithm number and has an error branch for anything else. AUTODETECT: PEM/DER "
        "parsing tries exactly Algorithm::values() and returns the first success. PRIMITIVE: signatures verify through the key's "
        "own algorithm."
    )
    # ---- REACH
    ent = []
    for k, b in fb.bodies.items():
        if b["crate"] == "biscuit_auth" and b["file"].startswith("biscuit-auth/src/crypto/") and b["kind"] in ("Fn", "AssocFn") and not b.get("exp") and (b.get("pub") or b.get("trait")):
            ent.append(k)
    ent.append(fb.body("biscuit_parser::parser::public_key")["key"])
    ctx.floor("public crypto entry points", len(ent), 80)
    reach.run(fb, ctx, ent, rule="REACH")
    # positive control: the length-gated conversion is recognised as a panic source
    pb = fb.body(C + "::p256::PrivateKey::from_bytes")
    ctx.control("REACH sees the GenericArray conversion in p256::PrivateKey::from_bytes", any(s["what"].startswith("GenericArray") for s in reach.sites_of(fb, pb)))
    # ed25519: fixed-size conversion with error mapping
    for fn in (C + "::ed25519::KeyPair::from_bytes", C + "::ed25519::PrivateKey::from_bytes", C + "::ed25519::PublicKey::from_bytes"):
        b = fb.body(fn)
        conv = [c for c in fb.calls(b) if not c.indirect and re.search(r"TryInto<.*>>::try_into$|TryFrom<.*>>::try_from$", c.rpath or c.path or "") and "[u8; 32" in (c.gargs + c.rargs)]
        ok = len(conv) == 1
        ctx.check(ok, "LENGTH", f"{'::'.join(fn.split('::')[-2:])}: bytes converted with try_into::<[u8; 32]>()", f"LENGTH|{fn}", "no checked fixed-size conversion of the input bytes", f"{b['file']}:{b['line']}")
        if ok:
            mirq.must_pass(fb, ctx, b, r"TryInto<.*>>::try_into$|TryFrom<.*>>::try_from$", "LENGTH", f"{'::'.join(fn.split('::')[-2:])}: wrong length is an error", f"LENGTH|{fn}|err")
    # ---- ALGDISPATCH over every body of crypto/mod.rs and builder/algorithm.rs
    n = 0
    files = ("biscuit-auth/src/crypto/mod.rs", "biscuit-auth/src/token/builder/algorithm.rs")
    for key, h in fb.hir.items():
        if h["file"] not in files or h.get("exp"):
            continue
        b = fb.bodies.get(key)
        for m in hirq.matches_in(h["body"]):
            for arm in m["arms"]:
                sides = {side_of(v) for v in hirq.pat_variants(arm["pat"])} - {None}
                lits = {x for x in (hirq.pat_variants(arm["pat"])) if x.startswith("lit:")}
                for l in lits:
                    if "ed25519" in l:
                        sides.add("ed")
                    if "secp256r1" in l:
                        sides.add("ec")
                # tuple patterns `Some(("ed25519", bytes))`
                for z in find_all(arm["pat"], lambda z: z.get("k") == "lit" and z.get("t") == "str"):
                    if z["v"] == "ed25519":
                        sides.add("ed")
                    if z["v"] == "secp256r1":
                        sides.add("ec")
                if len(sides) != 1:
                    continue
                side = sides.pop()
                n += 1
                calls = hirq.callee_paths(arm["body"])
                strs = [z["v"] for z in find_all(arm["body"], lambda z: z.get("k") == "lit" and z.get("t") == "str")] + [p for f in find_all(arm["body"], lambda z: z.get("k") == "format") for p in f["pieces"] if isinstance(p, str)]
                ctors = [hirq.ctor_name(z) for z in find_all(arm["body"], lambda z: hirq.ctor_name(z))]
                wrong_mod = [c for c in calls if ("crypto::p256::" in c if side == "ed" else "crypto::ed25519::" in c)]
                wrong_str = [x for x in strs if (("secp256r1" in x) if side == "ed" else ("ed25519" in x))]
                wrong_ctor = [c for c in ctors if c and side_of(c) and side_of(c) != side]
                inst = f"{h['path'].replace('biscuit_auth::', '')} arm@+{arm['ln'] - h['line']} ({'Ed25519' if side == 'ed' else 'Secp256r1'})"
                ctx.check(not wrong_mod and not wrong_str and not wrong_ctor, "ALGDISPATCH", inst, f"ALGDISPATCH|{h['path']}|{side}|{len([1 for _ in range(0)])}{arm['ln'] - h['line']}",
                          f"the {'Ed25519' if side == 'ed' else 'Secp256r1'} arm uses the other algorithm: calls {[hirq.short(c) for c in wrong_mod]} strings {wrong_str} constructors {[hirq.short(c) for c in wrong_ctor]}", f"{h['file']}:{arm['ln']}")
    ctx.floor("algorithm-dispatch arms in crypto/mod.rs + builder/algorithm.rs", n, 40)
    # printers of the two backends and the parser tags
    ok_ed = all("ed25519/" in "".join(p for p in f["pieces"] if isinstance(p, str)) for fn in (C + "::ed25519::PublicKey::write", C + "::ed25519::PublicKey::print") for f in find_all(fb.hir_of(fn)["body"], lambda z: z.get("k") == "format"))
    ok_ec = all("secp256r1/" in "".join(p for p in f["pieces"] if isinstance(p, str)) for fn in (C + "::p256::PublicKey::write", C + "::p256::PublicKey::print") for f in find_all(fb.hir_of(fn)["body"], lambda z: z.get("k") == "format"))
    ctx.check(ok_ed and ok_ec, "ALGDISPATCH", "backend printers use their own prefix", "ALGDISPATCH|printers", "ed25519 keys must print as ed25519/<hex>, P-256 keys as secp256r1/<hex>", "biscuit-auth/src/crypto")
    ph = fb.hir_of("biscuit_parser::parser::public_key")
    tags = []
    for c in find_all(ph["body"], lambda z: z.get("k") == "mcall" and z.get("name") == "map"):
        t = [z["v"] for z in find_all(c["recv"], lambda z: z.get("k") == "lit" and z.get("t") == "str")]
        alg = [hirq.ctor_name(z) or (z.get("res", {}).get("path") if z.get("k") == "path" else None) for z in find_all(c["args"], lambda z: (z.get("k") == "path" and "Algorithm::" in (z["res"].get("path") or "")))]
        tags.append((t, [a.split("::")[-1] for a in alg if a]))
    ctx.check(sorted(tags) == sorted([(["ed25519/"], ["Ed25519"]), (["secp256r1/"], ["Secp256r1"])]), "ALGDISPATCH", "Datalog parser: ed25519/ -> Ed25519, secp256r1/ -> Secp256r1", "ALGDISPATCH|parser", f"found {tags}", "biscuit-parser/src/parser.rs")
    # ---- REMAINDER: a string conversion built on a grammar parser accepts the WHOLE string: either the parser it calls ends with
    # `eof` (fact, rule, check, policy do) or the conversion looks at the unparsed remainder. `ed25519/<hex>anything` is not a key.
    eof_parsers = set()
    for key_, h_ in fb.hir.items():
        if h_.get("crate") == "biscuit_parser" and h_["path"].startswith("biscuit_parser::parser::"):
            if find_all(h_["body"], lambda z: z.get("k") == "path" and re.search(r"combinator::(eof|all_consuming)$", z.get("res", {}).get("path") or "")):
                eof_parsers.add(h_["path"])
    n_conv = 0
    for key_, h_ in fb.hir.items():
        if h_.get("crate") != "biscuit_auth" or "/tests" in h_.get("file", "") or h_["file"].endswith("src/parser.rs"):
            continue
        for c in find_all(h_["body"], lambda z: z.get("k") == "call" and (z.get("f", {}).get("res", {}).get("path") or "").startswith("biscuit_parser::parser::")):
            callee = c["f"]["res"]["path"]
            if callee.split("::")[-1] in ("parse_source", "parse_block_source"):
                continue          # whole-source parsers loop until the input is empty and report leftovers as errors
            n_conv += 1
            if callee in eof_parsers:
                ctx.ok("REMAINDER", f"{h_['path'].split('::')[-3] if ' as ' in h_['path'] else h_['path'].split('::')[-2]}: {callee.split('::')[-1]} consumes the whole input", f"{h_['file']}:{c['ln']}", "the parser ends with eof")
                continue
            # the (rest, value) pair: is the first component bound and used?
            pats = [p for p in find_all(h_["body"], lambda z: z.get("k") in ("let", "letexpr", "closure")) ]
            rest_ids = set()
            for l_ in find_all(h_["body"], lambda z: z.get("k") == "let" and z.get("init") is not None and find_all(z["init"], lambda y: y is c)):
                p_ = l_["pat"]
                if p_.get("k") == "tuple" and p_["pats"] and p_["pats"][0].get("k") == "bind":
                    rest_ids.add(p_["pats"][0]["id"])
            used = bool(rest_ids) and bool(find_all(h_["body"], lambda z: hirq.is_lid(z, rest_ids)))
            ctx.check(used, "REMAINDER", f"{h_['path']}: the input left over by {callee.split('::')[-1]} is examined", f"REMAINDER|{h_['path']}|{callee.split('::')[-1]}", f"`{callee.split('::')[-1]}` stops at the first character it does not understand and the conversion discards the rest: a well-formed value followed by arbitrary text is accepted", f"{h_['file']}:{c['ln']}")
    ctx.floor("string conversions built on grammar parsers", n_conv, 9)
    # ---- HEXRUN: hex key material is decoded from the maximal run of hex digits, by a decoder that refuses an odd number of digits
    ph = fb.hir_of("biscuit_parser::parser::parse_hex")
    refs = {(z["res"].get("path") or "").split("::")[-1] for z in find_all(ph["body"], lambda z: z.get("k") == "path" and z.get("res", {}).get("path"))} | {(z.get("f", {}).get("res", {}).get("path") or "").split("::")[-1] for z in find_all(ph["body"], lambda z: z.get("k") == "call")}
    full_path = {(z["res"].get("path") or "") for z in find_all(ph["body"], lambda z: z.get("k") == "path" and z.get("res", {}).get("path"))} | {(z.get("f", {}).get("res", {}).get("path") or "") for z in find_all(ph["body"], lambda z: z.get("k") == "call")}
    whole_run = bool(refs & {"take_while1", "take_while", "hex_digit1", "hex_digit0"})
    chunked = bool(refs & {"take_while_m_n", "take", "many1", "many0", "count", "fold_many1", "fold_many0"})
    ctx.check(whole_run and not chunked and any(p_.endswith("hex::decode") for p_ in full_path), "HEXRUN", "parse_hex decodes the whole run of hex digits with hex::decode", "HEXRUN|parse_hex", f"combinators used: {sorted(refs & {'take_while1', 'take_while', 'hex_digit1', 'take_while_m_n', 'take', 'many1', 'many0', 'count', 'decode', 'from_str_radix'})}: a digit-pair-wise decoder stops before a dangling last digit instead of refusing it (`ed25519/abc` parses as key `ab` followed by `c`)", f"{ph['file']}:{ph['line']}")
    # ---- UNKNOWNALG
    for fn in (C + "::PublicKey::from_proto",):
        b = fb.body(fn)
        h = fb.hir_of(b)
        getter = [c for c in fb.calls(b) if not c.indirect and re.search(r"schema::PublicKey::algorithm$", c.rpath or "")]
        raw_cmp = [n for n in find_all(h["body"], lambda z: z.get("k") == "binary" and z.get("op") == "Eq") if find_all(n, lambda z: z.get("k") == "field" and z.get("name") == "algorithm") and find_all(n, lambda z: z.get("k") == "cast")]
        # the if / else-if chain ends in an Err
        chain_if = strip(hirq.tail(h["body"]))
        last = chain_if
        depth = 0
        while isinstance(last, dict) and last.get("k") == "if" and last.get("else") is not None:
            last = strip(hirq.tail(last["else"]))
            depth += 1
        ends_err = bool(hirq.err_variant(last)) if isinstance(last, dict) and last.get("k") != "if" else False
        ctx.check(not getter and len(raw_cmp) == 2 and ends_err, "UNKNOWNALG", "PublicKey::from_proto refuses unknown algorithm numbers", "UNKNOWNALG|from_proto", f"must compare the raw `key.algorithm` with each known value and end in Err (prost getter used: {bool(getter)}, raw comparisons: {len(raw_cmp)}, final else is Err: {ends_err})", f"{b['file']}:{b['line']}")
    # Algorithm::try_from / FromStr have an error default
    for fn in fb.bodies_matching(r"token::builder::algorithm::Algorithm as std::(convert::TryFrom|str::FromStr)"):
        if fn["kind"] != "AssocFn":
            continue
        h = fb.hir_of(fn)
        for m in hirq.matches_in(h["body"]):
            d = [a for a in m["arms"] if hirq.arm_position_sets(a["pat"]) == [None] or hirq.pat_variants(a["pat"]) == {"_"}]
            if d:
                ctx.check(bool(hirq.err_variant(d[-1]["body"])), "UNKNOWNALG", f"{fn['path'].split(' as ')[-1]}: unknown value is an error", f"UNKNOWNALG|{fn['path']}", "default arm does not return Err", f"{fn['file']}:{d[-1]['ln']}")
    # ---- AUTODETECT
    ab = fb.body(C + "::parse_any_algorithm")
    ah = fb.hir_of(ab)
    vals = mcalls(ah["body"], r"Algorithm::values$") or [n for n in find_all(ah["body"], lambda z: z.get("k") == "call") if (z := n).get("f", {}).get("res", {}).get("path", "").endswith("Algorithm::values")]
    rets = [r for r in find_all(ah["body"], lambda z: z.get("k") == "ret")]
    guard = [n for n in find_all(ah["body"], lambda z: z.get("k") == "if") if mcalls(n["cond"], r"Result::<T, E>::is_ok$") and find_all(n["then"], lambda z: z.get("k") == "ret")]
    tail_err = bool(hirq.err_variant(hirq.tail(ah["body"])))
    ok_auto = bool(vals) and len(guard) == 1 and tail_err
    if not ok_auto and vals:
        # the same search as an iterator chain: `values().iter().map(|a| parse(i, *a)).find(Result::is_ok).unwrap_or_else(|| Err(..))`
        t_ = strip(hirq.tail(ah["body"]))
        if isinstance(t_, dict) and t_.get("k") == "mcall" and t_.get("name") in ("unwrap_or_else", "unwrap_or") and t_.get("args"):
            dflt = strip(t_["args"][0])
            dflt_err = bool(hirq.err_variant(dflt["body"] if dflt.get("k") == "closure" else dflt))
            f_ = strip(t_["recv"])
            is_find = isinstance(f_, dict) and f_.get("k") == "mcall" and f_.get("name") == "find" and f_.get("args") and (
                (strip(f_["args"][0]).get("k") == "path" and (strip(f_["args"][0]).get("res", {}).get("path") or "").endswith("is_ok")) or bool(mcalls(f_["args"][0], r"Result::<T, E>::is_ok$")))
            m_ = strip(f_["recv"]) if is_find else None
            is_map = isinstance(m_, dict) and m_.get("k") == "mcall" and m_.get("name") == "map" and bool(find_all(m_["recv"], lambda z: any(z is v_ for v_ in vals))) and not find_all(m_["recv"], lambda z: z.get("k") == "mcall" and z.get("name") in ("filter", "skip", "take", "rev", "step_by", "skip_while", "take_while"))
            ok_auto = dflt_err and is_find and is_map
    ctx.check(ok_auto, "AUTODETECT", "PEM/DER: try every algorithm, first success wins, else Err", "AUTODETECT|parse_any_algorithm", "expected `for a in Algorithm::values() { let r = parse(i, *a); if r.is_ok() { return r } } Err(..)`", f"{ab['file']}:{ab['line']}")
    vb = fb.hir_of("biscuit_auth::token::builder::algorithm::Algorithm::values")
    names = sorted({(hirq.ctor_name(z) or "").split("::")[-1] for z in find_all(vb["body"], lambda z: "Algorithm::" in (hirq.ctor_name(z) or ""))})
    allv = sorted(fb.variants("biscuit_auth::token::builder::algorithm::Algorithm"))
    ctx.check(names == allv, "AUTODETECT", "Algorithm::values lists every variant", "AUTODETECT|values", f"values() lists {names}, the enum has {allv}", "biscuit-auth/src/token/builder/algorithm.rs")
    # ---- PRIMITIVE (shared with C01)
    chain.primitive_rules(fb, ctx)
    if ctx.tier == "thorough":
        extra_config_rules(ctx)
    ctx.not_decided = ["round-trip equality of encodings (dependency behaviour)", "that a signature verifies only under the matching key (cryptographic)"]
    ctx.trusted = ["ed25519-dalek, p256, pkcs8 crates", "generic-array panics on wrong length (stated in /repo's own comments)"]
