"""Per-property manifest metadata (what is decided, what is not). Used by bin/mkmanifest.py."""
META = {
 "C09": {
  "technique": "static analysis: call-graph reachability of panic sources over MIR with a zones (difference-bound) guard analysis, SCC recursion classification, HIR match-table rule for fail-closed decoding",
  "text": "Decides a structural necessary condition of C09 for every input at once: no panic source (compiler Assert or catalogued panicking callee) is reachable from any public function of biscuit_auth/biscuit_parser unless a dominating guard proves it safe or it is allow-listed with a reason; every recursive cycle of the call graph is classified; decode matches fail closed. It does not decide termination or panics inside dependencies.",
  "note": "Trusted: rustc name/type resolution and MIR; the panic-source catalogue; allow-list reasons in tables/panic_sites.json (read by hand); prost decode depth limit 100. Not decided: hangs, dependency-internal panics.",
  "design_ref": "DESIGN.md §3 C09",
 },

 "C06": {
  "technique": "static analysis: HIR match-table expansion of the operator dispatch (first-match cell table over all enum variants) compared with a specification oracle; panic-source reachability (MIR) from Expression::evaluate; dominance rule for the shadowing test; structural rules for checked arithmetic, laziness, stack discipline and idempotent interning",
  "text": "Decides, for all operation sequences and operands at once, the structural part of C06: which (operator, left type, right type) cells are accepted (must equal the specification table), that everything else reaches Err(InvalidType), that integer +,-,*,/ go through checked_* and no compiler arithmetic check remains, that short-circuit arms do not evaluate the closure, that closures are evaluated only after the shadowing test, that every stack pop has an InvalidStack default, and that no panic source is reachable from evaluation. It does not decide the value each operator returns.",
  "note": "Trusted: oracle/operator_typing.json (from the specification), rustc pattern/type resolution, panic catalogue. Not decided: returned values, regex cost, user extern functions.",
  "design_ref": "DESIGN.md §3 C06",
 },
 "C05": {
  "technique": "static analysis: HIR match-table rule for the fact matcher over all Term variant pairs; MIR def-use rule for the unification result; structural rules on the fixpoint loop (exit condition, unconditional insertion, fact counting, merge) and provenance wiring",
  "text": "Decides structural necessary conditions of C05 that hold for all programs: the predicate/fact matcher compares every term type by value (a missing or constant arm for one type is a violation), unification is bind-or-compare and its result gates the join, an unbound head variable yields nothing, the fixpoint loop can only succeed when a round added no (origin, fact) pair (FactSet::len counts pairs, merge/insert keep every pair), derived facts carry matched origin + rule block. It does not decide equality with the least fixpoint.",
  "note": "Trusted: rustc resolution, std collections. Not decided: semantic completeness of the join iterator, order independence (see C11).",
  "design_ref": "DESIGN.md §3 C05",
 },

 "C10": {
  "technique": "static analysis: structural rules over the HIR of the fixpoint loop and the authorizer entry points (position and operator of each budget test, accounting assignments), may-depend analysis over MIR for the stored execution time, reachability of unchecked budget arithmetic",
  "text": "Decides structural necessary conditions of C10 for all programs and limit triples: each round of the fixpoint loop that added facts passes an iteration, a fact (on the merged world) and a time test with >=/> before the next round; consumed iterations are accumulated on every exit; authorize/query/query_all compute remaining budgets with checked subtraction / guarded subtraction; *_with_limits store earlier time + own time; every query loop of authorize_inner tests the deadline. It does not decide promptness inside one iteration or wall-clock behaviour.",
  "note": "Trusted: rustc resolution, std::time. The rules are tied to the current shape of the loop (tests as top-level statements of the loop body); a refactoring that moves them into a helper needs the rule re-anchored.",
  "design_ref": "DESIGN.md §3 C10",
 },
 "C11": {
  "technique": "static analysis: type-directed detection of hash-ordered iterators in MIR (revealed local types) and CFG classification of their consumers (first-element reads, loop early exits and their returned constants, collect into Result); shared fixpoint-structure rules",
  "text": "Decides, for every token/authorizer and every hash seed at once, whether any code on the run/authorize/query path can observe the iteration order of a HashMap/HashSet: every consumer of a hash-ordered iterator is classified as order-insensitive (exhaustive loop, single-constant early exit, set/map collect, commutative fold) or order-sensitive. Six order-sensitive consumers exist on the pinned tree and are reported as known findings (each demonstrated); any further one is a violation.",
  "note": "Trusted: MIR reveals opaque iterator types; classification table in rules/order.py. Not decided: user extern functions, time limits, order of returned Vecs (treated as sets). Exhaustive loops are assumed to have order-independent bodies except for the fact-store rules shared with C05.",
  "design_ref": "DESIGN.md §3 C11",
 },
}
NOT_APPLICABLE = {}
