#!/usr/bin/env python3
"""seedrun.py <patch.diff> <PROP> [<PROP>...] : apply a seeded change to /repo, run the given checks statically,
undo the change. Prints one line per check: DETECTED / missed. Never commits anything in /repo."""
import subprocess, sys, os
REPO = os.environ.get("VERIF_REPO", "/repo")   # a scratch worktree can be named instead (development while /repo is busy)
patch = os.path.abspath(sys.argv[1])
props = sys.argv[2:]
st = subprocess.run(["git", "-C", REPO, "status", "--porcelain", "--untracked-files=no"], capture_output=True, text=True).stdout.strip()
if st:
    print("refusing: /repo has local modifications:\n" + st); sys.exit(2)
r = subprocess.run(["git", "-C", REPO, "apply", patch], capture_output=True, text=True)
if r.returncode != 0:
    subprocess.run(["git", "-C", REPO, "checkout", "--", "."])
    r = subprocess.run(["patch", "-p1", "-F3", "--no-backup-if-mismatch", "-d", REPO, "-i", patch], capture_output=True, text=True)
    if r.returncode != 0:
        r.stderr = r.stdout + r.stderr
if r.returncode != 0:
    print("patch does not apply:", r.stderr[-400:]); subprocess.run(["git", "-C", REPO, "checkout", "--", "."]); subprocess.run(["git","-C",REPO,"reset","-q"]); sys.exit(2)
try:
    for p in props:
        c = subprocess.run(["/verif/check", p], capture_output=True, text=True, cwd="/verif")
        v = [l for l in c.stdout.splitlines() if l.startswith("VIOLATION") or l.startswith("  rule=") or l.startswith("CHECKER-ERROR")]
        tag = "DETECTED" if c.returncode == 1 else ("checker-error" if c.returncode == 2 else "missed")
        print(f"{p}: {tag} (rc={c.returncode})")
        for l in v[:6]:
            print("   " + l[:400])
        if c.returncode not in (0, 1):
            print(c.stdout[-800:], c.stderr[-800:])
finally:
    subprocess.run(["git", "-C", REPO, "reset", "-q"])
    subprocess.run(["git", "-C", REPO, "checkout", "--", "."])
    subprocess.run(["git", "-C", REPO, "clean", "-fdq", "--", "biscuit-auth", "biscuit-parser", "biscuit-quote", "biscuit-capi"])
