"""C12 — a token means the same in memory and after a round trip, on every API path (structural necessary conditions)."""
from props import tablesym, c06


def check(fb, ctx):
    ctx.explanation = (
        "THREAD: every first-party construction/append path (Biscuit::new_with_key_pair, Biscuit::append_with_keypair, "
        "UnverifiedBiscuit::append_with_keypair) extends a copy of the token tables by exactly the new block's symbols and public "
        "keys through the overlap-checking extend, after an is_disjoint test, and stores that table - which is what "
        "extract_blocks rebuilds at load for first-party blocks. ISOLATE: third-party paths (both append_third_party_with_keypair, "
        "the third-party branch of extract_blocks, the authorizer's block loader, the third-party signer) never read or extend "
        "the token tables. SPLIT: BlockBuilder::build reads both offsets before interning and splits at them. PRINT: the table "
        "used for printing follows external_key. INTERN: insertion is lookup-then-append."
    )
    tablesym.first_party_append_rules(fb, ctx)
    tablesym.third_party_isolation_rules(fb, ctx)
    tablesym.build_split_rules(fb, ctx)
    tablesym.print_table_rules(fb, ctx)
    for fn in ("biscuit_auth::datalog::symbol::SymbolTable::insert", "biscuit_auth::token::public_keys::PublicKeys::insert", "biscuit_auth::token::public_keys::PublicKeys::insert_fallible"):
        c06.intern_rule(fb, ctx, fn, "INTERN")
    ctx.not_decided = ["equality of authorization results before/after reload (follows from equal blocks and tables)", "byte-level round trip"]
    ctx.trusted = ["rustc MIR/HIR", "the reload path (extract_blocks) is the reference for what the tables must contain"]
