"""C20 — parameters are data, never code (structural necessary conditions)."""
import re
import hirq, mirq, reach
from facts import CheckerError, find_all
from props.c05 import strip, is_local, mcalls

B = "biscuit_auth::token::builder"
P = "biscuit_parser::builder"


def arms_by_variant(match):
    out = {}
    for arm in match["arms"]:
        for v in hirq.pat_variants(arm["pat"]):
            out.setdefault((v or "").split("::")[-1], arm)
    return out


def top_level_stmts(block):
    """statements (and tail) of a block expression; looks through one `for` desugaring to its loop body"""
    b = strip(block)
    if not isinstance(b, dict) or b.get("k") != "block":
        return [b]
    return list(b.get("stmts", [])) + ([b["expr"]] if b.get("expr") else [])


def unconditional_calls(node, regex):
    """calls matching regex that are not nested inside an if / match(Normal) below `node` (loops are fine)."""
    out = []

    def rec(n, cond):
        if isinstance(n, list):
            for x in n:
                rec(x, cond)
            return
        if not isinstance(n, dict):
            return
        k = n.get("k")
        if k in ("call", "mcall"):
            p = None
            if k == "call" and n.get("f", {}).get("k") == "path":
                p = n["f"]["res"].get("rpath") or n["f"]["res"].get("path")
            elif k == "mcall":
                d = n.get("rdef") or n.get("def")
                p = d["path"] if d else None
            if p and re.search(regex, p) and not cond:
                out.append(n)
        if k == "if":
            rec(n["cond"], cond)
            rec(n["then"], True)
            rec(n.get("else"), True)
            return
        if k == "match" and n.get("src") == "Normal":
            rec(n["scrut"], cond)
            for a in n["arms"]:
                rec(a["body"], True)
            return
        for kk, v in n.items():
            if kk in ("k",):
                continue
            rec(v, cond)

    rec(node, False)
    return out


def term_functions(fb, ctx, crate_prefix, tag):
    """collector and substituter over Term visit the same positions, recursively and unconditionally."""
    ex = fb.body(f"{crate_prefix}::Term::extract_parameters") if crate_prefix == P else fb.body(f"{crate_prefix}::term::Term::extract_parameters")
    exh = fb.hir_of(ex)
    m = [x for x in hirq.matches_in(exh["body"]) if "Term" in (x.get("sty") or "") and "MapKey" not in (x.get("sty") or "")]
    if not m:
        raise CheckerError(f"anchor: match over Term in {ex['path']}")
    arms = arms_by_variant(m[0])
    where = f"{ex['file']}:{ex['line']}"
    ctx.check("Parameter" in arms and bool(mcalls(arms["Parameter"]["body"], r"HashMap::<K, V, S(, A)?>::insert$")), "POSITIONS", f"{tag} collector records Term::Parameter", f"POSITIONS|{tag}|collect|Parameter", "the Parameter arm does not insert the name", where)
    for v in ("Set", "Array", "Map"):
        arm = arms.get(v)
        rec = unconditional_calls(arm["body"], r"Term::extract_parameters$") if arm else []
        ctx.check(bool(rec), "POSITIONS", f"{tag} collector recurses into every element of Term::{v}", f"POSITIONS|{tag}|collect|{v}", f"no unconditional recursive extract_parameters call in the {v} arm: parameters nested there (for some keys/elements) are never registered", f"{ex['file']}:{arm['ln'] if arm else ex['line']}")
    if "Map" in arms:
        keyp = [n for n in find_all(arms["Map"]["body"], lambda z: z.get("k") in ("tstruct", "path") and hirq.res_path(z.get("res", {}) or {}) and hirq.res_path(z["res"]).endswith("MapKey::Parameter"))]
        ctx.check(bool(keyp) and bool(mcalls(arms["Map"]["body"], r"HashMap::<K, V, S(, A)?>::insert$")), "POSITIONS", f"{tag} collector records map-key parameters", f"POSITIONS|{tag}|collect|MapKey", "MapKey::Parameter is not collected", where)
    return arms


def check(fb, ctx):
    ctx.explanation = (
        "POSITIONS: the parameter collectors (Term::extract_parameters, Op::collect_parameters, Rule::new, Fact::new; both the "
        "biscuit_auth and the biscuit_parser copies) and the substituters (Term::apply_parameters, Op::apply_parameters, "
        "Fact/Rule::apply_parameters) visit the same positions - top-level terms of facts, heads and bodies, elements of sets and "
        "arrays, map keys and values (values unconditionally), terms inside Op::Value, closure bodies, scopes - by delegating to the "
        "recursive Term functions. VALIDATE: every push of an item into a builder is dominated by the success edge of validate / "
        "validate_parameters. SETTERS: strict setters visit every query (no short-circuit) and report unknown names. NOPARSE: no "
        "parser function is reachable from set*/apply_parameters/convert. REACH: remaining `Remaining parameter` panics."
    )
    # ---- 1. Term collector/substituter (auth side), collector (parser side)
    term_functions(fb, ctx, B, "biscuit_auth")
    term_functions(fb, ctx, P, "biscuit_parser")
    ap = fb.body(f"{B}::term::Term::apply_parameters")
    aph = fb.hir_of(ap)
    m = [x for x in hirq.matches_in(aph["body"]) if (x.get("sty") or "").endswith("term::Term")]
    arms = arms_by_variant(m[0]) if m else {}
    where = f"{ap['file']}:{ap['line']}"
    ctx.check("Parameter" in arms and bool(mcalls(arms["Parameter"]["body"], r"HashMap::<K, V, S(, A)?>::get$")), "POSITIONS", "substituter replaces Term::Parameter by the bound value", "POSITIONS|apply|Parameter", "the Parameter arm does not look the name up", where)
    for v in ("Set", "Array", "Map"):
        arm = arms.get(v)
        rec = find_all(arm["body"], lambda z: z.get("k") == "mcall" and (z.get("def") or {}).get("path", "").endswith("Term::apply_parameters")) if arm else []
        ctx.check(bool(rec), "POSITIONS", f"substituter recurses into Term::{v}", f"POSITIONS|apply|{v}", f"no recursive apply_parameters call in the {v} arm", f"{ap['file']}:{arm['ln'] if arm else ap['line']}")
    # a bound map-key parameter must not stay a parameter
    if "Map" in arms:
        keeps = []
        for mm in hirq.matches_in(arms["Map"]["body"]):
            for arm in mm["arms"]:
                if hirq.pat_variants(arm["pat"]) == {"_"} and (hirq.ctor_name(strip(arm["body"])) or "").endswith("MapKey::Parameter") and any("Term" in (mm.get("sty") or "") for _ in [0]):
                    keeps.append(arm)
        ctx.check(not keeps, "BOUNDKEY", "a bound map-key parameter never stays a parameter", "BOUNDKEY|apply_parameters", "Term::apply_parameters keeps MapKey::Parameter when the bound value is not an integer or a string (FIXME in the code): the fully bound item then panics in convert", f"{ap['file']}:{keeps[0]['ln'] if keeps else ap['line']}")
    # ---- Op collector / substituter (auth + parser)
    for fn, callee, tag in ((f"{B}::expression::Op::collect_parameters", r"Term::extract_parameters$", "biscuit_auth collector"), (f"{B}::expression::Op::apply_parameters", r"Term::apply_parameters$", "substituter"), (f"{P}::Op::collect_parameters", r"Term::extract_parameters$", "biscuit_parser collector")):
        b = fb.body(fn)
        h = fb.hir_of(b)
        m = [x for x in hirq.matches_in(h["body"]) if (x.get("sty") or "").replace("&", "").endswith("Op")]
        a = arms_by_variant(m[0]) if m else {}
        va = a.get("Value")
        ok_v = bool(va) and bool(find_all(va["body"], lambda z: z.get("k") == "mcall" and re.search(callee, (z.get("def") or {}).get("path", "")))) and not [p for p in hirq.subpatterns(va["pat"]) if p.get("k") not in ("bind", "wild")]
        ctx.check(ok_v, "POSITIONS", f"{tag}: Op::Value(term) delegates to the recursive Term function for every term", f"POSITIONS|{fn}|Value", "the Op::Value arm only handles some shapes of term (e.g. a bare Parameter): parameters nested in a value are missed", f"{b['file']}:{va['ln'] if va else b['line']}")
        ca = a.get("Closure")
        ok_c = bool(ca) and bool(find_all(ca["body"], lambda z: z.get("k") == "mcall" and (z.get("def") or {}).get("path", "").endswith(fn.split("::")[-1])))
        ctx.check(ok_c, "POSITIONS", f"{tag}: closure bodies are visited", f"POSITIONS|{fn}|Closure", "the Op::Closure arm does not recurse into its ops", f"{b['file']}:{ca['ln'] if ca else b['line']}")
    # ---- constructors and item-level substituters
    for fn, fields in ((f"{B}::rule::Rule::new", ("head", "body", "expressions", "scopes")), (f"{P}::Rule::new", ("head", "body", "expressions", "scopes"))):
        b = fb.body(fn)
        h = fb.hir_of(b)
        ex = find_all(h["body"], lambda z: z.get("k") == "mcall" and (z.get("def") or {}).get("path", "").endswith("Term::extract_parameters"))
        oc = find_all(h["body"], lambda z: z.get("k") == "mcall" and (z.get("def") or {}).get("path", "").endswith("Op::collect_parameters"))
        sc = [n for n in find_all(h["body"], lambda z: z.get("k") in ("tstruct", "path") and hirq.res_path(z.get("res") or {}) and hirq.res_path(z["res"]).endswith("Scope::Parameter"))]
        # which positions feed the collectors (a `for` per position or one iterator chain over both): `head.terms`, the `.terms` of
        # the elements of `body`, the `.ops` of the elements of `expressions` - parameters are identified by position
        p_head, p_body, p_expr = hirq.param_ids(h, 0), hirq.param_ids(h, 1), hirq.param_ids(h, 2)
        terms_reads = find_all(h["body"], lambda z: z.get("k") == "field" and z.get("name") == "terms")
        head_terms = [z for z in terms_reads if find_all(z["e"], lambda y: hirq.is_lid(y, p_head))]
        elem_terms = [z for z in terms_reads if not find_all(z["e"], lambda y: hirq.is_lid(y, p_head))]
        body_used = bool(find_all(h["body"], lambda y: hirq.is_lid(y, p_body))) and bool(elem_terms)
        ops_reads = bool(find_all(h["body"], lambda z: z.get("k") == "field" and z.get("name") == "ops")) and bool(find_all(h["body"], lambda y: hirq.is_lid(y, p_expr)))
        positions_ok = bool(ex) and bool(head_terms) and body_used and bool(oc) and ops_reads
        ctx.check((len(ex) >= 2 or positions_ok) and positions_ok and len(oc) >= 1 and bool(sc), "POSITIONS", f"{fn.split('::')[0]} Rule::new collects from head, body, expressions and scopes", f"POSITIONS|{fn}", f"extract_parameters calls: {len(ex)}, collect_parameters calls: {len(oc)}, scope parameters handled: {bool(sc)}", f"{b['file']}:{b['line']}")
    for fn in (f"{B}::fact::Fact::new", f"{P}::Fact::new"):
        b = fb.body(fn)
        h = fb.hir_of(b)
        ex = find_all(h["body"], lambda z: z.get("k") == "mcall" and (z.get("def") or {}).get("path", "").endswith("Term::extract_parameters"))
        ctx.check(len(ex) >= 1, "POSITIONS", f"{fn.split('::')[0]} Fact::new collects from every term", f"POSITIONS|{fn}", "no extract_parameters call", f"{b['file']}:{b['line']}")
    rb = fb.body(f"{B}::rule::Rule::apply_parameters")
    rh = fb.hir_of(rb)
    tcalls = find_all(rh["body"], lambda z: z.get("k") == "mcall" and (z.get("def") or {}).get("path", "").endswith("Term::apply_parameters"))
    ocalls = find_all(rh["body"], lambda z: z.get("k") == "mcall" and (z.get("def") or {}).get("path", "").endswith("Op::apply_parameters"))
    inline = [n for n in find_all(rh["body"], lambda z: z.get("k") == "closure") if find_all(n, lambda z: z.get("k") in ("tstruct",) and hirq.res_path(z["res"]).endswith("Term::Parameter"))]
    scp = [n for n in find_all(rh["body"], lambda z: z.get("k") in ("tstruct", "path") and hirq.res_path(z.get("res") or {}) and hirq.res_path(z["res"]).endswith("Scope::Parameter"))]
    ctx.check(len(tcalls) >= 2 and len(ocalls) >= 1 and not inline and bool(scp), "POSITIONS", "Rule::apply_parameters substitutes head and body terms recursively, expressions and scopes", "POSITIONS|Rule::apply_parameters", f"recursive term substitutions: {len(tcalls)} (need head + body), op substitutions: {len(ocalls)}, hand-written top-level-only replacements: {len(inline)}", f"{rb['file']}:{rb['line']}")
    fa = fb.body(f"{B}::fact::Fact::apply_parameters")
    fh = fb.hir_of(fa)
    ctx.check(bool(find_all(fh["body"], lambda z: z.get("k") == "mcall" and (z.get("def") or {}).get("path", "").endswith("Term::apply_parameters"))), "POSITIONS", "Fact::apply_parameters substitutes recursively", "POSITIONS|Fact::apply_parameters", "no recursive term substitution", f"{fa['file']}:{fa['line']}")
    # conversions apply parameters first
    for fn in (f"<token::builder::fact::Fact as token::builder::Convert<datalog::Fact>>::convert", f"<token::builder::rule::Rule as token::builder::Convert<datalog::Rule>>::convert"):
        b = fb.body(fn)
        cs = mirq.calls_matching(fb, b, r"::apply_parameters$")
        conv = [c for c in fb.calls(b) if not c.indirect and re.search(r"Convert<.*>>::convert$", c.rpath or c.path or "")]
        ctx.check(len(cs) == 1 and all(mirq.dominates(b, cs[0].bb, c.bb) for c in conv), "POSITIONS", f"{fn.split(' as ')[0].split('::')[-1]}::convert substitutes before converting", f"POSITIONS|{fn}|order", "apply_parameters does not precede every nested convert", f"{b['file']}:{b['line']}")
    # ---- 2. VALIDATE
    adders = [f"{B}::block::BlockBuilder::fact", f"{B}::block::BlockBuilder::rule", f"{B}::block::BlockBuilder::check", f"{B}::block::BlockBuilder::code_with_params",
              f"{B}::authorizer::AuthorizerBuilder::policy", f"{B}::authorizer::AuthorizerBuilder::code_with_params"]
    n_push = 0
    for fn in adders:
        b = fb.body(fn)
        pushes = [c for c in mirq.calls_matching(fb, b, r"Vec::<T, A>::push$") if any(re.search(r"\.(facts|rules|checks|policies)$", l) for l in mirq.operand_leaves(fb, b, c.args[0]))]
        vals = [c for c in fb.calls(b) if not c.indirect and re.search(r"::(validate|validate_parameters)$", c.rpath or "")]
        edges = [mirq.success_edge(fb, b, v) for v in vals]
        edges = [e for e in edges if e]
        short = "::".join(fn.split("::")[-2:])
        if not pushes:
            ctx.fail("VALIDATE", f"{short} stores items", f"VALIDATE|{short}|shape", "no push into the builder's item vectors found", f"{b['file']}:{b['line']}")
            continue
        for i, pc in enumerate(pushes):
            n_push += 1
            ok = any(mirq.dominates(b, e[1], pc.bb) for e in edges)
            what = sorted(l.split(".")[-1] for l in mirq.operand_leaves(fb, b, pc.args[0]) if re.search(r"\.(facts|rules|checks|policies)$", l))
            ctx.check(ok, "VALIDATE", f"{short}: push into {what[0] if what else '?'} only after validation succeeded", f"VALIDATE|{short}|{what[0] if what else i}", "an item with unbound parameters can be stored: the push is not dominated by the success edge of validate()/validate_parameters()", f"{b['file']}:{pc.ln}")
    ctx.floor("guarded pushes into builders", n_push, 10)
    # wrappers delegate to the guarded functions
    for fn, target in ((f"{B}::authorizer::AuthorizerBuilder::fact", "BlockBuilder::fact"), (f"{B}::authorizer::AuthorizerBuilder::rule", "BlockBuilder::rule"), (f"{B}::authorizer::AuthorizerBuilder::check", "BlockBuilder::check"),
                       (f"{B}::biscuit::BiscuitBuilder::fact", "BlockBuilder::fact"), (f"{B}::biscuit::BiscuitBuilder::rule", "BlockBuilder::rule"), (f"{B}::biscuit::BiscuitBuilder::check", "BlockBuilder::check"), (f"{B}::biscuit::BiscuitBuilder::code_with_params", "BlockBuilder::code_with_params")):
        b = fb.body(fn)
        ctx.check(len(mirq.calls_matching(fb, b, target.replace("::", "::") + "$")) == 1 and not mirq.calls_matching(fb, b, r"Vec::<T, A>::push$"), "VALIDATE", f"{'::'.join(fn.split('::')[-2:])} delegates to {target}", f"VALIDATE|{fn}", "wrapper stores items itself instead of delegating to the validating builder", f"{b['file']}:{b['line']}")
    # ---- 3. SETTERS
    for fn in (f"{B}::check::Check::set_inner", f"{B}::check::Check::set_scope", f"{B}::policy::Policy::set_inner", f"{B}::policy::Policy::set_scope"):
        b = fb.body_opt(fn)
        if b is None:
            continue
        h = fb.hir_of(b)
        loops = find_all(h["body"], lambda z: z.get("k") == "loop" and z.get("src") == "ForLoop")
        shortc = [c for c in hirq.callee_paths(h["body"]) if re.search(r"::(any|find|find_map|position|all|try_for_each|try_fold)$", c)]
        early = [x for l in loops for x in find_all(l, lambda z: z.get("k") in ("break", "ret") and "d:ForLoop" not in (z.get("x") or ""))]
        t = strip(hirq.tail(h["body"]))
        err_ok = isinstance(t, dict) and t.get("k") == "if" and bool(hirq.err_variant(t["else"])) and any("unused_parameters" == f["name"] and strip(f["e"]).get("k") != "path" for s in find_all(t["else"], lambda z: z.get("k") == "struct") for f in s["fields"])
        ctx.check(len(loops) == 1 and not shortc and not early and err_ok, "SETTERS", f"{'::'.join(fn.split('::')[-2:])}: binds the parameter in every query, unknown name is reported", f"SETTERS|{fn}", f"expected one exhaustive loop over the queries and Err(unused_parameters: [name]) when none had it (short-circuit calls: {[hirq.short(c) for c in shortc]}, early exits: {len(early)})", f"{b['file']}:{b['line']}")
    for fn in (f"{B}::rule::Rule::set", f"{B}::fact::Fact::set"):
        b = fb.body(fn)
        h = fb.hir_of(b)
        unused = [s for s in find_all(h["body"], lambda z: z.get("k") == "struct" and hirq.res_path(z["res"]).endswith("LanguageError::Parameters")) if any(f["name"] == "unused_parameters" and strip(f["e"]).get("k") != "path" for f in s["fields"])]
        ctx.check(bool(unused), "SETTERS", f"{'::'.join(fn.split('::')[-2:])} reports an unknown parameter name", f"SETTERS|{fn}", "no Err(Parameters{unused_parameters: [name]}) path", f"{b['file']}:{b['line']}")
    # ---- 4. NOPARSE
    ents = []
    for b in fb.bodies.values():
        if b["crate"] == "biscuit_auth" and b["file"].startswith("biscuit-auth/src/token/builder/") and not b.get("exp") and re.search(r"::(set|set_inner|set_scope|set_lenient|set_scope_lenient|set_macro_param|apply_parameters|convert)$", b["path"]):
            ents.append(b["key"])
    ctx.floor("setter / substituter / convert entry points", len(ents), 30)
    r = fb.reachable(ents)
    parsers = sorted(fb.bodies[k]["path"] for k in r if fb.bodies[k]["path"].startswith("biscuit_parser::parser::"))
    ctx.check(not parsers, "NOPARSE", "no Datalog parser function is reachable from set*/apply_parameters/convert", "NOPARSE|reach", f"parser functions reachable from value binding: {parsers[:5]}", "biscuit-auth/src/token/builder")
    fmtparse = [fb.bodies[k]["path"] for k in r if any((c.rpath or "").endswith("str::FromStr>::from_str") or (c.rpath or "").endswith("::parse") for c in fb.calls(fb.bodies[k]) if not c.indirect)]
    ctx.check(not fmtparse, "NOPARSE", "bound values are never formatted and re-parsed", "NOPARSE|format-parse", f"str::parse / FromStr calls under the binding paths: {fmtparse[:5]}", "biscuit-auth/src/token/builder")
    # ---- 5. REACH: the remaining `Remaining parameter` panics
    conv = [b["key"] for b in fb.bodies.values() if b["crate"] == "biscuit_auth" and re.search(r"token::builder::Convert<.*>>::convert$", b["path"])]
    keys = set(fb.reachable(conv))
    reach.run(fb, ctx, conv, rule="REACH", exclude_fn=lambda b: not b["file"].startswith("biscuit-auth/src/token/builder/"))
    # REBIND: binding a parameter again replaces the earlier value (templates are bound repeatedly): the setters store with an
    # assignment / insert, never with a keep-the-first-value operation
    n_set = 0
    for key_, hs in fb.hir.items():
        if hs.get("crate") != "biscuit_auth" or not re.search(r"token::builder::(fact|rule|check|policy)::\w+::(set|set_lenient|set_scope|set_scope_lenient|set_inner|set_macro_param|set_macro_scope_param)$", hs["path"]):
            continue
        n_set += 1
        keep = [z for z in find_all(hs["body"], lambda z: z.get("k") == "mcall" and z.get("name") in ("get_or_insert", "get_or_insert_with", "or_insert", "or_insert_with", "or_default", "or_insert_with_key", "try_insert"))]
        ctx.check(not keep, "REBIND", f"{'::'.join(hs['path'].split('::')[-2:])}: a later binding replaces an earlier one", f"REBIND|{hs['path']}", f"`{keep[0]['name'] if keep else ''}` keeps the value bound first: binding the same template again silently reuses the old value", f"{hs['file']}:{keep[0]['ln'] if keep else hs['line']}")
    ctx.floor("parameter setters", n_set, 8)
    from props import c18
    c18.parallel_binding_rules(fb, ctx)
    ctx.not_decided = ["that substitution yields exactly the bound value beyond AST-level replacement (structural by construction)"]
    ctx.trusted = ["rustc HIR/typeck resolution", "panic catalogue and allow-list"]
