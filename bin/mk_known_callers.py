#!/usr/bin/env python3
"""Adds to tables/known_functions.json, for every listed function of biscuit_auth / biscuit_capi, its arity and the set of
functions that call it directly at the pinned HEAD ("info"). rules/inline.py uses it to recognise a listed function that was
renamed arbitrarily (same arity, same callers). Run on the clean pinned tree only."""
import json, os, sys
sys.path.insert(0, "/verif/rules")
import facts
T = "/verif/tables/known_functions.json"
d = json.load(open(T))
info = {}
for cfg in ("default", "extra"):
    fb = facts.load(cfg)
    assert not [x for x in fb.inlined if "callee" in x or "moved_functions" in x], "tree is not the pinned one"
    callers = {}
    for b in fb.bodies.values():
        for blk in b.get("blocks") or []:
            t = blk.get("t") or {}
            if t.get("k") == "call" and (t.get("f") or {}).get("k") == "fn":
                fn = t["f"]["fn"]
                ck = fn.get("rkey", fn.get("key"))
                if ck in fb.bodies and ck != b["key"]:
                    callers.setdefault(fb.bodies[ck]["path"], set()).add(b["path"])
    for b in fb.bodies.values():
        if b["crate"] in ("biscuit_auth", "biscuit_capi") and b["kind"] in ("Fn", "AssocFn") and not b.get("exp"):
            e = info.setdefault(b["path"], {"argc": b.get("argc"), "callers": set()})
            e["callers"] |= callers.get(b["path"], set())
d["info"] = {k: {"argc": v["argc"], "callers": sorted(v["callers"])} for k, v in sorted(info.items())}
json.dump(d, open(T, "w"), indent=0)
print(len(d["info"]), "functions with caller information")
