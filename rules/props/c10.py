"""C10 — evaluation budgets are enforced (structural necessary conditions)."""
import re
import hirq, mirq, reach
from facts import CheckerError, find_all
from props.c05 import strip, is_local, mcalls

D = "biscuit_auth::datalog"
A = "biscuit_auth::token::authorizer::Authorizer"


def runlimit_kind(node):
    """RunLimit variant named inside an Err(...) / break Err(...) / return Err(...) expression."""
    names = [hirq.ctor_name(n) for n in find_all(node, lambda n: (hirq.ctor_name(n) or "").startswith("biscuit_auth::error::RunLimit::"))]
    return names[0].split("::")[-1] if names else None


def exits(node):
    return [n for n in find_all(node, lambda n: n.get("k") in ("break", "ret")) if runlimit_kind(n)]


def check(fb, ctx):
    ctx.explanation = (
        "BACKEDGE: in the fixpoint loop of World::run_with_limits every round that added facts passes three budget tests "
        "before the next round - iterations (`index >= limits.max_iterations`), facts (`self.facts.len() >= limits.max_facts`, "
        "on the merged world) and time (`now >= time_limit`) - each leaving the loop with its own RunLimit error. MONOTONE: "
        "budget tests compare with >= or >, never ==. ACCOUNT: consumed iterations are added to World::iterations on every "
        "exit; authorize/query/query_all compute the remaining iteration budget with a checked subtraction and the remaining "
        "time after a `>=` guard; the *_with_limits functions store run time + own elapsed time. TIMECHECK: every loop of "
        "authorize_inner that evaluates queries tests the deadline after each query. REACH: no unchecked arithmetic on budgets."
    )
    rb = fb.body(D + "::World::run_with_limits")
    rh = fb.hir_of(rb)
    loops = [l for l in find_all(rh["body"], lambda n: n.get("k") == "loop") if l.get("src") == "Loop"]
    if len(loops) != 1:
        raise CheckerError("anchor: main loop of run_with_limits")
    stmts = loops[0]["body"]["stmts"] + ([loops[0]["body"]["expr"]] if loops[0]["body"].get("expr") else [])
    idx_merge = next((i for i, s in enumerate(stmts) if mcalls(s, r"FactSet::merge$") and (s.get("e") or s).get("k") == "mcall"), None)
    if idx_merge is None:
        ctx.fail("BACKEDGE", "merge at loop top level", "BACKEDGE|merge", "facts.merge(new_facts) is not a top-level statement of the fixpoint loop any more", f"{rb['file']}:{loops[0]['ln']}")
        idx_merge = -1
    tests = {}
    for i, s in enumerate(stmts):
        e = s.get("e") if s.get("k") == "semi" else s
        if not isinstance(e, dict) or e.get("k") != "if":
            continue
        ex = exits(e["then"])
        if not ex:
            continue
        kind = runlimit_kind(ex[0])
        tests[kind] = (i, strip(e["cond"]), e)
    where = f"{rb['file']}:{loops[0]['ln']}"

    def resolve(n, depth=0):
        """a local bound once by an immutable `let` stands for its initialiser (`let merged_len = self.facts.len();`)"""
        n = strip(n)
        while isinstance(n, dict) and n.get("k") == "cast":
            n = strip(n["e"])
        if depth < 4 and isinstance(n, dict) and n.get("k") == "path" and (n.get("res") or {}).get("dk") == "Local":
            lets_ = [l for l in find_all(rh["body"], lambda z: z.get("k") == "let" and isinstance(z.get("pat"), dict) and z["pat"].get("k") == "bind" and z["pat"].get("id") == n["res"]["id"] and z.get("init") is not None and "Mut" not in str(z["pat"].get("mode", "")).split(",")[-1])]
            asg_ = find_all(rh["body"], lambda z: z.get("k") in ("assign", "assignop") and hirq.is_lid(strip(z.get("lhs")), {n["res"]["id"]}))
            if len(lets_) == 1 and not asg_:
                return resolve(lets_[0]["init"], depth + 1)
        return n

    def cmp_ok(c, left_pred, right_pred, name, key):
        if not (isinstance(c, dict) and c.get("k") == "binary"):
            ctx.fail("MONOTONE", name, key, "budget test is not a comparison", where)
            return False
        op = c["op"]
        a, b = strip(c["a"]), strip(c["b"])
        lp0, rp0 = left_pred, right_pred
        left_pred = lambda n_: lp0(n_) or lp0(resolve(n_))       # as written, or through an immutable local
        right_pred = lambda n_: rp0(n_) or rp0(resolve(n_))
        fwd = op in ("Ge", "Gt") and left_pred(a) and right_pred(b)
        rev = op in ("Le", "Lt") and left_pred(b) and right_pred(a)
        if op in ("Eq", "Ne"):
            ctx.fail("MONOTONE", name, key, f"budget test uses `{op}`: a counter that steps over the limit (limit 0, restored state above the limit) is never caught", f"{rb['file']}:{c['ln']}")
            return False
        if not (fwd or rev):
            ctx.fail("BACKEDGE", name, key, f"budget test does not compare the consumed quantity with its limit (op {op})", f"{rb['file']}:{c['ln']}")
            return False
        ctx.ok("MONOTONE", name, f"{rb['file']}:{c['ln']}", f"`{op}` between the consumed quantity and the limit")
        return True

    TY = {"limits": r"datalog::RunLimits$", "self": r"datalog::World$|authorizer::Authorizer$"}

    def field_of(n, base, field):
        """`<expr of the base's type>.<field>` - the base is identified by its type, not by the name of a variable"""
        n = strip(n)
        while isinstance(n, dict) and n.get("k") == "cast":
            n = strip(n["e"])
        return isinstance(n, dict) and n.get("k") == "field" and n.get("name") == field and bool(re.search(TY[base], (n.get("ety") or "").lstrip("&").replace("mut ", "")))

    now_call = lambda z: hirq.calls_path(strip(z), r"time::Instant::now$")
    start_ids = hirq.let_ids(rh["body"], now_call)
    # (the start may be read in place: `let deadline = Instant::now() + limits.max_time;` before the loop)
    deadline_ids = hirq.let_ids(rh["body"], lambda z: strip(z).get("k") == "binary" and strip(z)["op"] == "Add" and (hirq.is_lid(strip(strip(z)["a"]), start_ids) or bool(now_call(strip(z)["a"]))) and field_of(strip(z)["b"], "limits", "max_time")) - hirq.let_ids(loops[0], lambda z: True)
    now_ids = hirq.let_ids(loops[0], now_call)
    # the round counter: `let mut c = 0` before the loop, `c += 1` at the loop's top level
    zero_ids = hirq.let_ids(rh["body"], lambda z: hirq.literal(z) == 0)
    counter_ids = {strip(s["e"]["lhs"])["res"]["id"] for s in stmts if (s.get("e") or {}).get("k") == "assignop" and s["e"]["op"] == "AddAssign" and hirq.is_lid(strip(s["e"]["lhs"]), zero_ids) and hirq.literal(s["e"]["rhs"]) == 1}

    for kind, (lp, rp, desc) in {
        "TooManyIterations": (lambda n: hirq.is_lid(n, counter_ids), lambda n: field_of(n, "limits", "max_iterations"), "iteration budget"),
        "TooManyFacts": (lambda n: n.get("k") == "mcall" and (n.get("def") or {}).get("path", "").endswith("FactSet::len") and field_of(n["recv"], "self", "facts"), lambda n: field_of(n, "limits", "max_facts"), "fact budget on the merged world"),
        "Timeout": (lambda n: hirq.is_lid(n, now_ids) or bool(now_call(n)), lambda n: hirq.is_lid(n, deadline_ids), "time budget"),
    }.items():
        if kind not in tests:
            ctx.fail("BACKEDGE", f"{desc} test in the loop", f"BACKEDGE|{kind}", f"no top-level `if .. {{ break Err(RunLimit::{kind}) }}` in the fixpoint loop", where)
            continue
        i, c, e = tests[kind]
        good_pos = i > idx_merge
        ctx.check(good_pos, "BACKEDGE", f"{desc} tested after the merge, before the next round", f"BACKEDGE|{kind}|position", f"RunLimit::{kind} test is evaluated before the new facts are merged", f"{rb['file']}:{e['ln']}")
        cmp_ok(c, lp, rp, f"{desc} comparison", f"MONOTONE|{kind}")
    # time_limit = start + limits.max_time
    ctx.check(len(deadline_ids) == 1, "BACKEDGE", "deadline = start + limits.max_time", "BACKEDGE|deadline", "no `let <deadline> = <Instant::now() taken before the loop> + limits.max_time`", where)
    # index is incremented exactly once per round before the iteration test
    inc = [i for i, s in enumerate(stmts) if (s.get("e") or {}).get("k") == "assignop" and s["e"]["op"] == "AddAssign" and hirq.is_lid(strip(s["e"]["lhs"]), counter_ids)]
    ctx.check(len(counter_ids) == 1 and len(inc) == 1 and "TooManyIterations" in tests and idx_merge < inc[0] < tests["TooManyIterations"][0], "BACKEDGE", "round counter incremented before the iteration test", "BACKEDGE|index", "`index += 1` must sit between the merge and the iteration-budget test", where)

    # the fact budget is tested before the fixpoint exit: a world already over budget (a call that failed with TooManyFacts and
    # is retried on the same authorizer) derives nothing new, and must still not report success
    idx_fix = next((i for i, s in enumerate(stmts) if (lambda e: isinstance(e, dict) and e.get("k") == "if" and any((hirq.ctor_name(strip(b_.get("e") or {})) or "").endswith("::Ok") for b_ in find_all(e["then"], lambda z: z.get("k") == "break")))(s.get("e") if s.get("k") == "semi" else s)), None)
    if idx_fix is None:
        ctx.fail("BACKEDGE", "fixpoint exit at loop top level", "BACKEDGE|fixpoint", "no top-level `if <no new fact> { break Ok(()) }` in the fixpoint loop", where)
    elif "TooManyFacts" in tests:
        ctx.check(idx_merge < tests["TooManyFacts"][0] < idx_fix, "BACKEDGE", "fact budget tested before the fixpoint exit", "BACKEDGE|TooManyFacts|before-fixpoint", "the `break Ok(())` of the fixpoint test precedes the fact-budget test: a call retried after TooManyFacts finds nothing new and succeeds with more facts than the budget", f"{rb['file']}:{tests['TooManyFacts'][2]['ln']}")

    # ---- ACCOUNT
    after = rh["body"]["stmts"]
    acc = [s for s in find_all(rh["body"], lambda n: n.get("k") in ("assign", "assignop") and field_of(n["lhs"], "self", "iterations"))]
    in_loop = [s for s in find_all(loops[0], lambda n: n.get("k") in ("assign", "assignop") and field_of(n["lhs"], "self", "iterations"))]
    uses_index = acc and find_all(acc[0]["rhs"], lambda n: hirq.is_lid(n, counter_ids))
    conditional = acc and any(find_all(x, lambda n: n is acc[0]) for x in find_all(rh["body"], lambda n: n.get("k") in ("if", "match") and n.get("src") != "ForLoopDesugar"))
    ctx.check(len(acc) == 1 and not in_loop and bool(uses_index) and not conditional, "ACCOUNT", "World::iterations accumulates the rounds of every run", "ACCOUNT|iterations", "`self.iterations` must be increased by `index` once, after the loop, on every exit", f"{rb['file']}:{rb['line']}")
    for fn in ("query", "query_all", "authorize"):
        b = fb.body(f"{A}::{fn}")
        # remaining iterations: checked_sub whose None leads to an error return
        cs = mirq.calls_matching(fb, b, r"num::<impl u64>::checked_sub$")
        good = False
        for c in cs:
            la = mirq.operand_leaves(fb, b, c.args[0]) | mirq.operand_leaves(fb, b, c.args[1])
            good = good or (any("max_iterations" in l for l in la) and any("iterations" in l and "max_" not in l for l in la))
        ctx.check(good, "ACCOUNT", f"Authorizer::{fn}: remaining iterations = max_iterations checked_sub consumed", f"ACCOUNT|{fn}|iterations", "the remaining iteration budget is not computed with u64::checked_sub(limits.max_iterations, world.iterations)", f"{b['file']}:{b['line']}")
        if good:
            mirq.must_pass(fb, ctx, b, r"Option::<T>::ok_or$|num::<impl u64>::checked_sub$", "ACCOUNT", f"Authorizer::{fn}: exhausted iteration budget is an error", f"ACCOUNT|{fn}|iterations-err", what="delegation to *_with_limits")
        # remaining time: guarded subtraction
        h = fb.hir_of(b)
        exec_ids = hirq.let_ids(h["body"], lambda z: bool(find_all(z, lambda y: hirq.calls_path(y, r"Authorizer::run$"))))
        def spent_vs_budget(c):      # `execution_time >= limits.max_time` or `limits.max_time <= execution_time`
            if c.get("k") != "binary" or c.get("op") not in ("Ge", "Gt", "Le", "Lt"):
                return False
            spent, budget = (c["a"], c["b"]) if c["op"] in ("Ge", "Gt") else (c["b"], c["a"])
            return hirq.is_lid(strip(spent), exec_ids) and field_of(budget, "limits", "max_time")
        guard = [n for n in find_all(h["body"], lambda n: n.get("k") == "if") if spent_vs_budget(strip(n["cond"])) and runlimit_kind(n["then"]) == "Timeout" and find_all(n["then"], lambda z: z.get("k") == "ret")]
        sub = [n for n in find_all(h["body"], lambda n: n.get("k") == "assignop" and n["op"] == "SubAssign" and field_of(n["lhs"], "limits", "max_time") and hirq.is_lid(strip(n["rhs"]), exec_ids))]
        # equivalent: `max_time: <limits>.max_time - execution_time` in a struct literal / a let
        sub += [n for n in find_all(h["body"], lambda n: n.get("k") == "binary" and n.get("op") == "Sub" and field_of(n["a"], "limits", "max_time") and hirq.is_lid(strip(n["b"]), exec_ids))]
        pos = lambda n_: (n_["ln"], n_.get("ln0", 0))     # inlined nodes share the call site's line: their own line breaks the tie
        order_ok = bool(guard) and bool(sub) and pos(guard[0]) < pos(sub[0])
        ctx.check(order_ok, "ACCOUNT", f"Authorizer::{fn}: remaining time computed after the `>=` guard", f"ACCOUNT|{fn}|time", "`limits.max_time -= execution_time` must follow `if execution_time >= limits.max_time { return Err(Timeout) }`", f"{b['file']}:{b['line']}")
    # time consumed by a run that FAILED also counts ("counted cumulatively across run, authorize and query calls"): every path
    # from World::run_with_limits to a return of Authorizer::run stores something into self (execution_time / limits)
    runb = fb.body(f"{A}::run")
    rc = mirq.calls_matching(fb, runb, r"datalog::World::run_with_limits$")
    if len(rc) != 1 or rc[0].target is None:
        ctx.fail("ACCOUNT", "Authorizer::run evaluates through World::run_with_limits", "ACCOUNT|run|anchor", f"{len(rc)} calls found", f"{runb['file']}:{runb['line']}")
    else:
        # `execution_time: Some(_)` doubles as the "already evaluated" marker (run() returns early on it): it may only be set once
        # evaluation succeeded, otherwise later calls decide on a half-evaluated world
        marks = {i for i, blk in enumerate(runb["blocks"]) for st_ in blk["s"] if st_["d"]["l"] == 1 and ".execution_time" in (st_["d"].get("p") or [])}
        se = mirq.success_edge(fb, runb, rc[0])
        ctx.check(bool(marks) and se is not None and se[1] is not None and all(mirq.dominates(runb, se[1], i) for i in marks), "ACCOUNT", "Authorizer::run marks the world as evaluated only after World::run_with_limits succeeded", "ACCOUNT|run|marker", "self.execution_time is set on a path where World::run_with_limits did not succeed: run() then returns early on every later call and checks / policies are decided on a partially evaluated world", f"{runb['file']}:{rc[0].ln}")
        stores = {i for i, blk in enumerate(runb["blocks"]) for st_ in blk["s"] if st_["d"]["l"] == 1 and any(pp in (".execution_time", ".limits") for pp in (st_["d"].get("p") or []))}
        rets = {i for i, blk in enumerate(runb["blocks"]) if (blk.get("t") or {}).get("k") == "return"}
        free = mirq.reachable_from(runb, rc[0].target, avoid=stores)
        ctx.check(bool(stores) and not (free & rets), "ACCOUNT", "Authorizer::run records the time it consumed on every exit", "ACCOUNT|run|time-on-error", "a return of Authorizer::run is reachable from World::run_with_limits without any store into self.execution_time / self.limits: the time consumed by a run that failed (Timeout, TooManyFacts, ..) is forgotten, and every retry starts with a fresh max_time while keeping the facts derived so far", f"{runb['file']}:{rc[0].ln}")
    for fn in ("query_with_limits", "query_all_with_limits", "authorize_with_limits"):
        b = fb.body(f"{A}::{fn}")
        # the value stored into self.execution_time depends on run()'s result and on elapsed()
        stores = [(i, s) for i, blk in enumerate(b["blocks"]) for s in blk["s"] if (s["d"].get("p") or []) and s["d"]["p"][-1] == ".execution_time"]
        if not stores:
            ctx.fail("ACCOUNT", f"Authorizer::{fn} records consumed time", f"ACCOUNT|{fn}|store", "self.execution_time is no longer updated", f"{b['file']}:{b['line']}")
            continue
        ok = False
        for i, s in stores:
            ops = s["r"].get("ops") or ([s["r"]["op"]] if s["r"].get("op") else [])
            leaves = set()
            for o in ops:
                leaves |= mirq.operand_leaves(fb, b, o)
            ok = ok or (any(l.endswith("Authorizer::run") for l in leaves) and any("elapsed" in l for l in leaves))
        ctx.check(ok, "ACCOUNT", f"Authorizer::{fn}: execution_time = earlier run time + this call's elapsed time", f"ACCOUNT|{fn}|sum", "the stored execution time no longer depends on both self.run()'s duration and start.elapsed(): time consumed earlier is forgotten", f"{b['file']}:{b['line']}")

    # consumed time and the time budget survive a snapshot / restore hop unchanged
    from props import c13
    c13.snapshot_units_rules(fb, ctx)
    # ---- TIMECHECK in authorize_inner
    ab = fb.body(f"{A}::authorize_inner")
    ah = fb.hir_of(ab)
    fors = [l for l in find_all(ah["body"], lambda n: n.get("k") == "loop" and n.get("src") == "ForLoop")]
    inner = [l for l in fors if mcalls(l, r"World::query_match(_all)?$") and not any(mcalls(l2, r"World::query_match(_all)?$") for l2 in find_all(l["body"], lambda n: n.get("k") == "loop" and n.get("src") == "ForLoop"))]
    ctx.floor("query loops in authorize_inner", len(inner), 4)
    a_start = hirq.let_ids(ah["body"], now_call)
    is_deadline = lambda z: isinstance(strip(z), dict) and strip(z).get("k") == "binary" and strip(z)["op"] == "Add" and hirq.is_lid(strip(strip(z)["a"]), a_start) and field_of(strip(z)["b"], "limits", "max_time")
    # the deadline itself, or a private newtype / struct wrapped around it (`Deadline(start + limits.max_time)`)
    a_deadline = hirq.let_ids(ah["body"], lambda z: is_deadline(z) or (isinstance(strip(z), dict) and strip(z).get("k") in ("call", "struct") and len(find_all(z, is_deadline)) >= 1 and hirq.ctor_name(strip(z)) is not None))
    a_now = a_start
    for n, l in enumerate(inner):
        def base_local(e):
            e = strip(e)
            while isinstance(e, dict) and e.get("k") == "field":
                e = strip(e["e"])
            return e
        def time_test(c):
            if c.get("k") != "binary" or c.get("op") not in ("Ge", "Gt", "Le", "Lt"):
                return False
            now_, lim_ = (c["a"], c["b"]) if c["op"] in ("Ge", "Gt") else (c["b"], c["a"])       # `now >= limit` or `limit <= now`
            return hirq.is_lid(base_local(lim_), a_deadline) and (hirq.is_lid(strip(now_), a_now) or bool(now_call(now_)))
        t = [x for x in find_all(l, lambda z: z.get("k") == "if") if time_test(strip(x["cond"])) and runlimit_kind(x["then"]) == "Timeout" and find_all(x["then"], lambda z: z.get("k") == "ret")]
        qs = mcalls(l, r"World::query_match(_all)?$")
        after_q = bool(t) and t[0]["ln"] > max(q["ln"] for q in qs)
        ctx.check(after_q, "TIMECHECK", f"authorize_inner query loop #{n}", f"TIMECHECK|loop{n}", "no `if now >= time_limit { return Err(Timeout) }` after the query in this loop", f"{ab['file']}:{l['ln']}")
    ctx.check(len(a_deadline) == 1, "TIMECHECK", "authorize_inner deadline = start + limits.max_time", "TIMECHECK|deadline", "time_limit not derived from limits.max_time", f"{ab['file']}:{ab['line']}")

    # ---- REACH over the budget arithmetic
    ent = [fb.body(p)["key"] for p in (D + "::World::run_with_limits", f"{A}::query", f"{A}::query_all", f"{A}::authorize", f"{A}::authorize_with_limits", f"{A}::query_with_limits", f"{A}::query_all_with_limits", f"{A}::run")]
    keys = set(ent)
    reach.run(fb, ctx, ent, rule="REACH", exclude_fn=lambda b: b["key"] not in keys)
    ctx.not_decided = ["promptness inside one iteration (a single exponential join is not interruptible)", "wall-clock behaviour", "that queries (query_inner ignores its limits argument) respect the time budget: observation, the property's budgets are only enforced by run/authorize"]
    ctx.trusted = ["rustc resolution", "std::time semantics"]
