"""Per-property manifest metadata (what is decided, what is not). Used by bin/mkmanifest.py."""
META = {
 "C09": {
  "technique": "static analysis: call-graph reachability of panic sources over MIR with a zones (difference-bound) guard analysis, SCC recursion classification, HIR match-table rule for fail-closed decoding",
  "text": "Decides a structural necessary condition of C09 for every input at once: no panic source (compiler Assert or catalogued panicking callee) is reachable from any public function of biscuit_auth/biscuit_parser unless a dominating guard proves it safe or it is allow-listed with a reason; every recursive cycle of the call graph is classified; decode matches fail closed. It does not decide termination or panics inside dependencies.",
  "note": "Trusted: rustc name/type resolution and MIR; the panic-source catalogue; allow-list reasons in tables/panic_sites.json (read by hand); prost decode depth limit 100. Not decided: hangs, dependency-internal panics.",
  "design_ref": "DESIGN.md §3 C09",
 },
}
NOT_APPLICABLE = {}
