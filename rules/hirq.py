"""HIR queries: match tables, pattern classification, callee sets of arm bodies."""
import re
from facts import walk, find_all, CheckerError


def res_path(res):
    if not res:
        return None
    return res.get("of") or res.get("path") or res.get("name")


def pat_variants(pat):
    """Set of variant paths this pattern can match at its top level ('_' for wildcard / binding)."""
    k = pat.get("k")
    if k in ("wild",):
        return {"_"}
    if k == "bind":
        return pat_variants(pat["sub"]) if pat.get("sub") else {"_"}
    if k in ("tstruct", "struct", "path"):
        return {res_path(pat["res"])}
    if k == "or":
        out = set()
        for p in pat["pats"]:
            out |= pat_variants(p)
        return out
    if k in ("ref", "box", "deref"):
        return pat_variants(pat["pat"])
    if k == "guard":
        return pat_variants(pat["pat"])
    if k == "lit":
        return {f"lit:{pat.get('v')}"}
    if k == "range":
        return {"range"}
    if k == "tuple":
        return {"tuple"}
    if k == "slice":
        return {f"slice:{len(pat.get('before', []))}{'+' if pat.get('mid') else ''}"}
    return {"?" + str(k)}


def tuple_cells(pat):
    """For a tuple pattern: list (per position) of variant-path sets. Or-patterns at the top level are expanded by the caller."""
    if pat.get("k") == "tuple":
        return [pat_variants(p) for p in pat["pats"]]
    return None


def subpatterns(pat):
    """Direct payload patterns of a variant pattern."""
    k = pat.get("k")
    if k == "tstruct":
        return pat["pats"]
    if k == "struct":
        return [f["pat"] for f in pat["fields"]]
    if k in ("ref", "box", "deref", "guard"):
        return subpatterns(pat["pat"])
    if k == "bind" and pat.get("sub"):
        return subpatterns(pat["sub"])
    return []


def bindings(pat):
    out = []

    def f(n):
        if n.get("k") == "bind":
            out.append(n["name"])

    walk(pat, f)
    return out


def matches_in(node, normal_only=True):
    return [m for m in find_all(node, lambda n: n.get("k") == "match") if not normal_only or m.get("src") == "Normal"]


def matches_on(node, ty_regex):
    r = re.compile(ty_regex)
    return [m for m in matches_in(node) if r.search(m.get("sty") or "")]


def callee_paths(node):
    """Resolved callee paths of every call / method call / operator call inside node."""
    out = []

    def f(n):
        k = n.get("k")
        if k == "call":
            fn = n.get("f") or {}
            if fn.get("k") == "path":
                r = fn["res"]
                out.append(r.get("rpath") or r.get("path") or r.get("name"))
            if n.get("via"):
                out.append(n["via"]["path"])
        elif k == "mcall":
            d = n.get("rdef") or n.get("def")
            if d:
                out.append(d["path"])
            else:
                out.append("?::" + n.get("name", ""))
        elif k in ("binary", "unary", "assignop", "index") and n.get("def"):
            out.append(n["def"]["path"])

    walk(node, f)
    return [p for p in out if p]


def calls(node, regex):
    r = re.compile(regex)
    return [p for p in callee_paths(node) if r.search(p)]


def call_nodes(node, regex):
    r = re.compile(regex)
    out = []

    def f(n):
        k = n.get("k")
        p = None
        if k == "call":
            fn = n.get("f") or {}
            if fn.get("k") == "path":
                rr = fn["res"]
                p = rr.get("rpath") or rr.get("path")
        elif k == "mcall":
            d = n.get("rdef") or n.get("def")
            p = d["path"] if d else None
        if p and r.search(p):
            out.append(n)

    walk(node, f)
    return out


def ctor_name(expr):
    """Variant / struct path constructed by this expression (looking through blocks, refs, `Ok(..)` is itself a ctor)."""
    if not isinstance(expr, dict):
        return None
    k = expr.get("k")
    if k == "call" and expr.get("f", {}).get("k") == "path":
        r = expr["f"]["res"]
        if r.get("dk", "").startswith("Ctor"):
            return r.get("of") or r.get("path")
    if k == "path" and expr["res"].get("dk", "").startswith("Ctor"):
        return expr["res"].get("of") or expr["res"].get("path")
    if k == "struct":
        return res_path(expr["res"])
    if k == "block" and not expr.get("stmts") and expr.get("expr"):
        return ctor_name(expr["expr"])
    if k in ("addr", "use"):
        return ctor_name(expr["e"])
    return None


def tail(expr):
    """The value expression of a block-like expression."""
    while isinstance(expr, dict) and expr.get("k") == "block" and expr.get("expr") is not None:
        expr = expr["expr"]
    return expr


def literal(expr):
    e = tail(expr)
    if isinstance(e, dict) and e.get("k") == "lit":
        return e.get("v")
    return None


def err_variant(expr):
    """If expr (tail) is `Err(X...)` / `return Err(X..)`, the path of X's constructor (or True when unknown)."""
    e = tail(expr)
    if not isinstance(e, dict):
        return None
    # `{ return Err(..); }`
    while e.get("k") == "block" and e.get("expr") is None and e.get("stmts"):
        last = e["stmts"][-1]
        e = last["e"] if last.get("k") == "semi" else last
        e = tail(e)
    if e.get("k") == "ret" and e.get("e"):
        e = tail(e["e"])
    if e.get("k") == "call" and ctor_name(e) and ctor_name(e).endswith("::Err") and e["args"]:
        inner = e["args"][0]
        names = []

        def f(n):
            c = ctor_name(n)
            if c and not c.endswith(("::Err", "::Ok", "::Some")):
                names.append(c)
                return False

        walk(inner, f)
        return names[0] if names else True
    return None


def local_uses(node, name):
    return find_all(node, lambda n: n.get("k") == "path" and n["res"].get("dk") == "Local" and n["res"].get("name") == name)


def short(p):
    if not p:
        return p
    return "::".join(p.split("::")[-2:])


# ---- cell expansion of matches over tuples of enums ---------------------------------------------------------
def _matches(pat_set, value):
    return "_" in pat_set or value in pat_set


def arm_position_sets(pat):
    """List of alternatives; each alternative is a list (per tuple position) of variant sets. Top-level or-patterns are
    expanded into alternatives; or-patterns inside a position become a set."""
    k = pat.get("k")
    if k == "or":
        out = []
        for p in pat["pats"]:
            out.extend(arm_position_sets(p))
        return out
    if k in ("ref", "box", "deref"):
        return arm_position_sets(pat["pat"])
    if k == "tuple":
        return [[pat_variants(p) for p in pat["pats"]]]
    if k in ("wild", "bind"):
        return [None]  # matches everything
    return [[pat_variants(pat)]]


def cell_table(match, universes):
    """universes: list (per position) of value lists. Returns {cell tuple: arm index} with first-match semantics;
    cells matched by no arm are absent."""
    import itertools
    table = {}
    alts = [(i, arm_position_sets(arm["pat"]), arm.get("guard") is not None) for i, arm in enumerate(match["arms"])]
    for cell in itertools.product(*universes):
        for i, sets, guarded in alts:
            hit = False
            for alt in sets:
                if alt is None or (len(alt) == len(cell) and all(_matches(s, v) for s, v in zip(alt, cell))):
                    hit = True
                    break
            if hit and not guarded:
                table[cell] = i
                break
    return table


# ----------------------------------------------------------------------------------------------- locals by identity, not by name
def is_lid(n, ids):
    """n is a path to a local whose HirId-local id is in `ids` (renaming a variable does not change the verdict)."""
    return isinstance(n, dict) and n.get("k") == "path" and n.get("res", {}).get("dk") == "Local" and n["res"].get("id") in ids


def let_ids(node, init_pred):
    """ids of the variables bound by `let <ident> = <init>` statements under `node` whose initialiser satisfies init_pred."""
    out = set()
    for l in find_all(node, lambda z: z.get("k") == "let" and isinstance(z.get("pat"), dict) and z["pat"].get("k") == "bind" and z.get("init") is not None):
        try:
            if init_pred(l["init"]):
                out.add(l["pat"]["id"])
        except (KeyError, TypeError):
            pass
    return out


def param_ids(h, i):
    """{id} of the i-th parameter (0 = self when present) of a HIR body, when it is a plain binding."""
    ps = h.get("params") or []
    if i < len(ps) and isinstance(ps[i], dict) and ps[i].get("k") == "bind":
        return {ps[i]["id"]}
    return set()


def calls_path(n, regex):
    """n is a call / method call whose resolved callee path matches regex."""
    if not isinstance(n, dict):
        return False
    if n.get("k") == "call":
        r = n.get("f", {}).get("res", {})
        return bool(re.search(regex, r.get("rpath") or r.get("path") or ""))
    if n.get("k") == "mcall":
        d = n.get("def") or {}
        return bool(re.search(regex, d.get("rpath") or d.get("path") or ""))
    return False


def pop_order(h, callee_regex):
    """Stack machines pop the RIGHT operand first. Every `stack.pop()` is numbered in evaluation order (pre-order of the tree, tuple
    elements left to right); a binding that destructures the value of pop #n carries that number (tuple patterns position-wise;
    `let x = stack.pop()?`; nested `match stack.pop() { Some(right) => match stack.pop() { Some(left) => ..` alike). For a call
    `callee(x, y, ..)` whose first two operands come from two different pops, x must come from the LATER pop (the left operand) and
    y from the earlier one. Returns [(line, 'ok'|'swapped'|'unrelated')]."""
    def popcall(z):
        return isinstance(z, dict) and z.get("k") == "mcall" and z.get("name") == "pop"
    seq = {}       # id(pop node) -> number
    counter = [0]
    bind_pop = {}  # binding id -> pop number

    def number(n):
        if isinstance(n, list):
            for x in n:
                number(x)
        elif isinstance(n, dict):
            if popcall(n):
                counter[0] += 1
                seq[id(n)] = counter[0]
            for v in n.values():
                number(v)
    number(h["body"])

    def pops_in(e):
        return [seq[id(z)] for z in find_all(e, popcall) if id(z) in seq]

    def bind_all(pat, num):
        for b_ in find_all(pat, lambda z: z.get("k") == "bind"):
            bind_pop[b_["id"]] = num

    def assoc(pat, e):
        e0 = e
        while isinstance(e0, dict) and e0.get("k") in ("addr", "use", "paren"):
            e0 = e0.get("e")
        if isinstance(e0, dict) and e0.get("k") == "tup" and isinstance(pat, dict) and pat.get("k") == "tuple" and len(pat["pats"]) == len(e0["es"]):
            for p_, x_ in zip(pat["pats"], e0["es"]):
                assoc(p_, x_)
            return
        ps = pops_in(e)
        if len(ps) == 1:
            bind_all(pat, ps[0])
        elif not ps and isinstance(e0, dict) and e0.get("k") == "path" and (e0.get("res") or {}).get("dk") == "Local" and e0["res"].get("id") in bind_pop:
            bind_all(pat, bind_pop[e0["res"]["id"]])     # `match right { Term(right_term) => ..` : destructuring a popped value again

    for _ in range(3):
        for m in find_all(h["body"], lambda z: z.get("k") == "match" and not str(z.get("src", "")).startswith("TryDesugar")):
            for arm in m["arms"]:
                assoc(arm["pat"], m["scrut"])
        for l_ in find_all(h["body"], lambda z: z.get("k") in ("let", "letexpr") and z.get("init") is not None and isinstance(z.get("pat"), dict)):
            assoc(l_["pat"], l_["init"])
    out = []
    for c in find_all(h["body"], lambda z: calls_path(z, callee_regex)):
        args = c.get("args", [])
        if len(args) < 2:
            continue
        n0 = {bind_pop[z["res"]["id"]] for z in find_all(args[0], lambda z: z.get("k") == "path" and (z.get("res") or {}).get("dk") == "Local" and z["res"].get("id") in bind_pop)}
        n1 = {bind_pop[z["res"]["id"]] for z in find_all(args[1], lambda z: z.get("k") == "path" and (z.get("res") or {}).get("dk") == "Local" and z["res"].get("id") in bind_pop)}
        if len(n0) == 1 and len(n1) == 1 and n0 != n1:
            out.append((c["ln"], "ok" if list(n0)[0] > list(n1)[0] else "swapped"))
        elif n0 or n1:
            out.append((c["ln"], "unrelated"))
    return out


def inside_loop(h, node):
    """node sits inside a loop (for / while / loop) or a closure of the body: it may then run zero times"""
    for l in find_all(h["body"], lambda z: z.get("k") in ("loop", "closure") or (z.get("k") == "match" and z.get("src") == "ForLoopDesugar")):
        if l is not node and find_all(l, lambda z: z is node):
            return True
    return False


# ----------------------------------------------------------------------------------------------- finite abstract evaluation
class _Ret(Exception):
    def __init__(self, v):
        self.v = v


class Unknown(Exception):
    pass


def eval_pure(node, env, consts):
    """Abstract evaluation of a small pure decision function over ONE point of a finite input domain: integer / boolean
    comparisons, `&&`/`||`/`!`, `if`/`else`, early `return`, blocks, `Ok(..)`/`Err(..)` results (returned as 'Ok' / 'Err').
    env: {local id: value, 'self.<field>': value}; consts: {constant name: int}. Anything else raises Unknown (the caller must
    then fall back or fail closed). Nothing of the analysed program is executed: this interprets its HIR."""
    def ev(n):
        if not isinstance(n, dict):
            raise Unknown(str(n))
        k = n.get("k")
        if k == "block":
            for st in n.get("stmts", []):
                ev(st)
            return ev(n["expr"]) if n.get("expr") is not None else None
        if k == "semi":
            ev(n["e"])
            return None
        if k in ("addr", "use", "paren", "droptemps"):
            return ev(n["e"])
        if k == "unary":
            v = ev(n["a"])
            if n.get("op") == "Not":
                return not v
            if n.get("op") == "Deref":
                return v
            raise Unknown("unary " + str(n.get("op")))
        if k == "binary":
            op = n["op"]
            if op == "And":
                return bool(ev(n["a"])) and bool(ev(n["b"]))
            if op == "Or":
                return bool(ev(n["a"])) or bool(ev(n["b"]))
            a, b = ev(n["a"]), ev(n["b"])
            if op in ("Lt", "Le", "Gt", "Ge", "Eq", "Ne"):
                return {"Lt": a < b, "Le": a <= b, "Gt": a > b, "Ge": a >= b, "Eq": a == b, "Ne": a != b}[op]
            raise Unknown("binary " + op)
        if k == "if":
            if ev(n["cond"]):
                return ev(n["then"])
            return ev(n["else"]) if n.get("else") is not None else None
        if k == "ret":
            raise _Ret(ev(n["e"]) if n.get("e") is not None else None)
        if k == "lit":
            return n.get("v")
        if k == "path":
            r = n.get("res") or {}
            if r.get("dk") == "Local":
                if r.get("id") in env:
                    return env[r["id"]]
                raise Unknown("local " + str(r.get("name")))
            nm = (r.get("path") or "").split("::")[-1]
            if nm in consts:
                return consts[nm]
            raise Unknown("path " + str(r.get("path")))
        if k == "field":
            key = "self." + n.get("name", "")
            if key in env:
                return env[key]
            raise Unknown("field " + key)
        if k == "call":
            cn = ctor_name(n) or ""
            if cn.endswith("::Ok"):
                return "Ok"
            if cn.endswith("::Err"):
                return "Err"
            raise Unknown("call " + cn)
        if k == "tup" and not n.get("es"):
            return None
        raise Unknown(str(k))
    try:
        return ev(node)
    except _Ret as r:
        return r.v


# ----------------------------------------------------------------------------------------------- immutable place aliases
def place_lets(h):
    """{binding id: initialiser} for `let x = <place>;` (immutable, the place a chain of fields / & / * over a variable):
    `let version = block.version;` - x is another name for that place as long as nothing is assigned to it"""
    out = {}
    for l in find_all(h["body"], lambda z: z.get("k") == "let" and isinstance(z.get("pat"), dict) and z["pat"].get("k") == "bind" and not z["pat"].get("sub") and z.get("init") is not None and z.get("els") is None):
        if "Mut" in str(l["pat"].get("mode", "")).split(",")[-1]:
            continue
        e = l["init"]
        while isinstance(e, dict) and (e.get("k") in ("addr", "use", "paren") or (e.get("k") == "unary" and e.get("op") == "Deref")):
            e = e.get("e") if e.get("k") != "unary" else e.get("a")
        n_fields = 0
        while isinstance(e, dict) and e.get("k") == "field":
            n_fields += 1
            e = e.get("e")
            while isinstance(e, dict) and (e.get("k") in ("addr", "use", "paren") or (e.get("k") == "unary" and e.get("op") == "Deref")):
                e = e.get("e") if e.get("k") != "unary" else e.get("a")
        if n_fields and isinstance(e, dict) and e.get("k") == "path" and (e.get("res") or {}).get("dk") == "Local":
            out[l["pat"]["id"]] = l["init"]
    return out


def expand_places(node, lets, depth=0):
    """node with every use of such a variable replaced by the place it names"""
    if isinstance(node, list):
        return [expand_places(v, lets, depth) for v in node]
    if not isinstance(node, dict):
        return node
    if node.get("k") == "path" and (node.get("res") or {}).get("dk") == "Local" and node["res"].get("id") in lets and depth < 4:
        return expand_places(lets[node["res"]["id"]], lets, depth + 1)
    return {k: expand_places(v, lets, depth) for k, v in node.items()}


def pure_lets(h):
    """{binding id: initialiser} for immutable `let x = <side-effect-free expression over variables, fields, constants and
    arithmetic>;` (`let block_id = i + 1;`): x stands for that expression"""
    from inline import _place_like
    out = {}
    for l in find_all(h["body"], lambda z: z.get("k") == "let" and isinstance(z.get("pat"), dict) and z["pat"].get("k") == "bind" and not z["pat"].get("sub") and z.get("init") is not None and z.get("els") is None):
        if "Mut" in str(l["pat"].get("mode", "")).split(",")[-1]:
            continue
        e = l["init"]
        while isinstance(e, dict) and e.get("k") in ("use", "paren", "cast"):
            e = e.get("e")
        if _place_like(e) and not (isinstance(e, dict) and e.get("k") == "lit"):
            out[l["pat"]["id"]] = l["init"]
    return out
