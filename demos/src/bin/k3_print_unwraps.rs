// K3 (C09): printing / dumping an authorizer restored from adversarial (schema-valid) snapshot data must not panic.
use biscuit_auth::{builder::*, format::schema, *};
fn attempt(name: &str, snap: schema::AuthorizerSnapshot) -> bool {
    let r = std::panic::catch_unwind(std::panic::AssertUnwindSafe(move || {
        match Authorizer::from_snapshot(snap) {
            Err(e) => format!("rejected at load: {:?}", e),
            Ok(a) => {
                let s1 = a.to_string().len();
                let (f, r, c, p) = a.dump();
                let s2: usize = c.iter().map(|c| c.to_string().len()).sum::<usize>() + r.iter().map(|r| r.to_string().len()).sum::<usize>();
                let s3 = a.dump_code().len();
                format!("printed ok ({} {} {} ; {} facts {} policies)", s1, s2, s3, f.len(), p.len())
            }
        }
    }));
    match r { Ok(s) => { println!("{:44} {}", name, s); false } Err(_) => { println!("{:44} PANIC", name); true } }
}
fn main() {
    let base = || AuthorizerBuilder::new().fact("f(\"abc\")").unwrap().check("check if f($x), $x == \"abc\"").unwrap().policy("allow if true").unwrap().build_unauthenticated().unwrap().snapshot().unwrap();
    let mut defect = false;
    // (1) a fact term referring to a symbol id nobody declared
    let mut s = base();
    s.world.authorizer_block.facts_v2[0].predicate.terms[0] = schema::TermV2 { content: Some(schema::term_v2::Content::String(5000)) };
    defect |= attempt("unknown symbol id in a fact", s);
    // (2) a check whose expression is a lone binary operator (malformed op sequence)
    let mut s = base();
    s.world.authorizer_block.checks_v2[0].queries[0].expressions[0].ops = vec![schema::Op { content: Some(schema::op::Content::Binary(schema::OpBinary { kind: schema::op_binary::Kind::Add as i32, ffi_name: None })) }];
    defect |= attempt("malformed op sequence in a check", s);
    // (3) same in a policy
    let mut s = base();
    s.world.authorizer_policies[0].queries[0].expressions = vec![schema::ExpressionV2 { ops: vec![schema::Op { content: Some(schema::op::Content::Unary(schema::OpUnary { kind: schema::op_unary::Kind::Negate as i32, ffi_name: None })) }] }];
    defect |= attempt("malformed op sequence in a policy", s);
    // (4) unknown symbol in a check of the authorizer block
    let mut s = base();
    s.world.authorizer_block.checks_v2[0].queries[0].body[0].terms[0] = schema::TermV2 { content: Some(schema::term_v2::Content::String(7777)) };
    defect |= attempt("unknown symbol id in a check", s);
    if defect { println!("DEFECT printing restored authorizer panics") } else { println!("OK"); std::process::exit(1) }
}
