"""C18 — compile-time Datalog macros equal runtime parsing (structural necessary conditions)."""
import re
import hirq, mirq
from facts import CheckerError, find_all
from props.c05 import strip, is_local, mcalls
from props import c20

P = "biscuit_parser::builder"
# parser-side enum -> name of the biscuit_auth::builder type the tokens must construct
ENUMS = {"Term": "Term", "Scope": "Scope", "Op": "Op", "Unary": "Unary", "Binary": "Binary", "CheckKind": "CheckKind", "PolicyKind": "PolicyKind", "MapKey": "MapKey"}
STRUCTS = {"Predicate": ("name", "terms"), "Fact": ("predicate",), "Expression": ("ops",), "Rule": ("head", "body", "expressions", "scopes"), "Check": ("queries", "kind"), "Policy": ("queries", "kind")}


def quote_idents(node):
    """The identifier / punctuation stream a `quote!{}` expansion pushes, in order: ['::', 'biscuit_auth', '::', ...]"""
    out = []
    for c in find_all(node, lambda z: z.get("k") == "call" and z.get("f", {}).get("k") == "path" and "quote::__private::" in (z["f"]["res"].get("path") or "")):
        name = c["f"]["res"]["path"].split("::")[-1]
        if name == "push_ident":
            lits = [hirq.literal(a) for a in c["args"] if isinstance(hirq.literal(a), str)]
            out.append(lits[0] if lits else "?")
        elif name == "push_colon2":
            out.append("::")
    return out


def interpolated_names(node):
    """names of locals handed to ToTokens::to_tokens / used in repetitions inside the quote expansion"""
    names = set()
    for n in find_all(node, lambda z: z.get("k") == "path" and z["res"].get("dk") == "Local"):
        names.add(n["res"]["name"])
    return names


def emitted_variant(idents, ty):
    """variant name following `... :: <ty> ::` in the ident stream (the last occurrence wins: outermost constructor first)"""
    outs = []
    for i in range(len(idents) - 2):
        if idents[i] == ty and idents[i + 1] == "::":
            outs.append(idents[i + 2])
    return outs



def parallel_binding_rules(fb, ctx):
    """PARALLEL: the macros bind their `name = expr` parameters with ONE tuple pattern `let (a, b) = (ea, eb);`, so that no
    parameter expression is evaluated in the scope of another parameter (run-time binding evaluates them all in the caller's
    scope). In the quote! expansion a `let` is therefore followed either by a parenthesised group (the tuple pattern) or by the
    fixed `mut __biscuit_auth_*` binding, never directly by an interpolated identifier."""
    n_tuple = 0
    for key, h in fb.hir.items():
        if h.get("crate") != "biscuit_quote":
            continue
        calls = [c for c in find_all(h["body"], lambda z: z.get("k") == "call" and z.get("f", {}).get("k") == "path" and "quote::__private::" in (z["f"]["res"].get("path") or ""))]
        seq = []
        for c in calls:
            nm = c["f"]["res"]["path"].split("::")[-1]
            lit = [hirq.literal(a) for a in c["args"] if isinstance(hirq.literal(a), str)]
            seq.append((nm + (":" + lit[0] if lit else ""), c["ln"]))
        for i, (x, ln) in enumerate(seq):
            if x != "push_ident:let":
                continue
            nxt = seq[i + 1][0] if i + 1 < len(seq) else "<end>"
            if nxt == "push_group":
                n_tuple += 1
            ctx.check(nxt == "push_group" or nxt == "push_ident:mut", "PARALLEL", f"{h['path'].split('::')[-1] if ' as ' not in h['path'] else 'Builder::to_tokens'}: `let` at +{ln - h['line']} binds a tuple pattern or a fixed variable", f"PARALLEL|{h['path']}|{sum(1 for y, _ in seq[:i] if y == 'push_ident:let')}", f"the generated `let` is followed by `{nxt}`: parameters are bound one after another, so an earlier parameter shadows the caller's variable of the same name inside a later parameter expression (`a = b, b = a` binds both to the same value)", f"{h['file']}:{ln}")
    ctx.floor("tuple-pattern parameter bindings in biscuit-quote", n_tuple, 5)

def source_field_rules(fb, ctx):
    """SOURCE: both paths parse a whole source with the same biscuit_parser entry point (parse_block_source / parse_source) and
    get one SourceResult; every field of it that a run time `code_with_params` loads into the builder must also be read by the
    biscuit-quote function calling the same entry point - a field the macro path never reads is content the macro drops."""
    per = {}
    for b in fb.bodies.values():
        if b["crate"] not in ("biscuit_auth", "biscuit_quote"):
            continue
        h = fb.hir.get(b["key"])
        if not h:
            continue
        entry = sorted(set(c.split("::")[-1] for c in hirq.calls(h["body"], r"parser::parse_(block_)?source$")))
        if not entry:
            continue
        allf = [n for n in find_all(h["body"], lambda z: z.get("k") == "field" and "SourceResult" in (z.get("ety") or ""))]
        if b["crate"] == "biscuit_quote":
            # macro side: a field counts only when it flows into the macro's Builder - inside the arguments of one of its methods
            # or on the right of an assignment to one of its fields (`let _ = r.scopes;`, `r.scopes.len()` load nothing)
            sinks = []
            for m_ in find_all(h["body"], lambda z: z.get("k") == "mcall" and re.match(r"biscuit_quote::Builder::\w+$", (z.get("def") or {}).get("path", ""))):
                sinks += list(m_.get("args") or [])
            for a_ in find_all(h["body"], lambda z: z.get("k") == "assign" and strip(z["lhs"]).get("k") == "field" and re.search(r"(^|::|&mut |&)Builder$", strip(z["lhs"]).get("ety") or "")):
                sinks.append(a_["rhs"])
            flds = {n["name"] for n in allf if any(find_all(s_, lambda z: z is n) for s_ in sinks)}
        else:
            flds = {n["name"] for n in allf}
        for e in entry:
            per.setdefault(e, {"biscuit_auth": [], "biscuit_quote": []})[b["crate"]].append((b, flds))
    n = 0
    for e in ("parse_block_source", "parse_source"):
        rt, mc = per.get(e, {}).get("biscuit_auth", []), per.get(e, {}).get("biscuit_quote", [])
        if not rt or not mc:
            ctx.fail("SOURCE", f"{e}: run time and macro callers", f"SOURCE|{e}|anchor", f"expected a biscuit_auth and a biscuit_quote caller of {e} (found {len(rt)} / {len(mc)})", "biscuit-quote/src/lib.rs")
            continue
        loaded = set().union(*[f for _, f in rt])
        for b, flds in mc:
            for f in sorted(loaded):
                n += 1
                ctx.check(f in flds, "SOURCE", f"{b['path'].split('::')[-1]} reads SourceResult.{f} like the run time path", f"SOURCE|{b['path']}|{f}",
                          f"{e}(..).{f} is loaded by {', '.join(sorted(x['path'].split('::')[-2] + '::' + x['path'].split('::')[-1] for x, ff in rt if f in ff))} but never read by the macro path: `{f}` written in a macro source is dropped", f"{b['file']}:{b['line']}")
    ctx.floor("source-result fields compared (macro vs run time)", n, 8)


def check(fb, ctx):
    ctx.explanation = (
        "REEMIT: for every enum of biscuit_parser::builder with a ToTokens impl (Term, MapKey through MapEntry, Scope, Op, Unary, "
        "Binary, CheckKind, PolicyKind) each variant is matched by an arm whose quote! expansion constructs "
        "::biscuit_auth::builder::<Type>::<same variant>, and every payload binding of the arm is interpolated; for the structs "
        "(Predicate, Fact, Expression, Rule, Check, Policy) every field is emitted. RUNTIME: the From<biscuit_parser::builder::X> "
        "conversions used by the runtime path map each variant to the same variant and use every field. So both paths are the "
        "identity on AST nodes. COLLECT: the macro path rebuilds the parameter map with the biscuit_auth collectors, the runtime "
        "path copies the parser's map, therefore both collectors must visit the same positions (shared with C20). EMIT: "
        "biscuit-quote binds every parameter with set_macro_param and adds each item with the builder method of its kind. SOURCE: "
        "every SourceResult field a run time code_with_params loads is also read by the biscuit-quote caller of the same parser entry point."
    )
    # ---- REEMIT: enums
    n_arms = 0
    for b in fb.bodies.values():
        if b["crate"] != "biscuit_parser" or not b["path"].endswith("as quote::ToTokens>::to_tokens"):
            continue
        h = fb.hir_of(b)
        selfty = b.get("self_ty", "").replace("builder::", "").split("<")[0]
        ms = [m for m in hirq.matches_in(h["body"]) if re.search(r"builder::(Term|Scope|Op|Unary|Binary|CheckKind|PolicyKind|MapKey)$", (m.get("sty") or "").replace("&", "").strip())]
        for m in ms:
            enum = (m["sty"].replace("&", "").strip()).split("::")[-1]
            target = ENUMS.get(enum)
            covered = set()
            for arm in m["arms"]:
                vs = [v for v in hirq.pat_variants(arm["pat"]) if v and v != "_"]
                ids = quote_idents(arm["body"])
                emitted = emitted_variant(ids, target)
                binds = hirq.bindings(arm["pat"])
                used = interpolated_names(arm["body"])
                for v in vs:
                    name = v.split("::")[-1]
                    covered.add(name)
                    n_arms += 1
                    where = f"{b['file']}:{arm['ln']}"
                    ok = emitted[:1] == [name] and "biscuit_auth" in ids and "builder" in ids
                    ctx.check(ok, "REEMIT", f"{enum}::{name} is re-emitted as ::biscuit_auth::builder::{target}::{name}", f"REEMIT|{enum}::{name}", f"the macro path emits {target}::{emitted[0] if emitted else '<nothing>'} for a parsed {enum}::{name}", where)
                missing = [x for x in binds if x not in used]
                ctx.check(not missing, "REEMIT", f"{enum} arm @+{arm['ln'] - b['line']}: every payload is interpolated", f"REEMIT|{enum}|bindings|{'+'.join(sorted(v.split('::')[-1] for v in vs))}", f"bindings {missing} of the pattern are not emitted", f"{b['file']}:{arm['ln']}")
            allv = set(fb.variants(f"{P}::{enum}"))
            ctx.check(covered == allv or any(hirq.pat_variants(a["pat"]) == {"_"} for a in m["arms"]) is False and covered == allv, "REEMIT", f"{enum}: every variant has a re-emission arm", f"REEMIT|{enum}|coverage", f"variants without an arm: {sorted(allv - covered)}", f"{b['file']}:{m['ln']}")
    ctx.floor("re-emission arms (enum variants)", n_arms, 60)
    # ---- REEMIT: structs
    for st, fields in STRUCTS.items():
        b = fb.body_opt(f"<builder::{st} as quote::ToTokens>::to_tokens")
        if b is None:
            ctx.fail("REEMIT", f"{st}: ToTokens impl", f"REEMIT|{st}|impl", "impl ToTokens not found", "biscuit-parser/src/builder.rs")
            continue
        h = fb.hir_of(b)
        used = {n["name"] for n in find_all(h["body"], lambda z: z.get("k") == "field" and is_local(strip(z["e"]), "self"))}
        adt_fields = [f["name"] for f in fb.adt(f"{P}::{st}")["variants"][0]["fields"]]
        expected = [f for f in adt_fields if f not in ("parameters", "scope_parameters")]
        missing = [f for f in expected if f not in used]
        ctx.check(not missing, "REEMIT", f"{st}: every field is emitted ({', '.join(expected)})", f"REEMIT|{st}|fields", f"fields never read by to_tokens: {missing}", f"{b['file']}:{b['line']}")
        ids = quote_idents(h["body"])
        ctx.check(st in ids or st in ("Expression",) and "Expression" in ids, "REEMIT", f"{st} is re-emitted as a biscuit_auth::builder::{st}", f"REEMIT|{st}|type", f"the token stream never names {st}", f"{b['file']}:{b['line']}")
    # ---- RUNTIME: From<parser::X> for auth::X
    n_rt = 0
    for b in fb.bodies.values():
        m0 = re.match(r"^<token::builder::(\w+)::(\w+) as std::convert::From<biscuit_parser::builder::(\w+)>>::from$", b["path"])
        if not m0 or b["crate"] != "biscuit_auth":
            continue
        auth_ty, parser_ty = m0.group(2), m0.group(3)
        h = fb.hir_of(b)
        if parser_ty in ENUMS:
            ms = [m for m in hirq.matches_in(h["body"]) if (m.get("sty") or "").endswith(f"biscuit_parser::builder::{parser_ty}")]
            if not ms:
                ctx.fail("RUNTIME", f"From<parser::{parser_ty}>", f"RUNTIME|{parser_ty}|shape", "no match over the parser-side enum", f"{b['file']}:{b['line']}")
                continue
            covered = set()
            for arm in ms[0]["arms"]:
                for v in hirq.pat_variants(arm["pat"]):
                    if not v or v == "_":
                        continue
                    name = v.split("::")[-1]
                    covered.add(name)
                    n_rt += 1
                    ctors = [hirq.ctor_name(z) for z in find_all(arm["body"], lambda z: hirq.ctor_name(z) and f"::{auth_ty}::" in hirq.ctor_name(z) and "biscuit_auth" in hirq.ctor_name(z))]
                    outer = ctors[0].split("::")[-1] if ctors else None
                    ctx.check(outer == name, "RUNTIME", f"runtime conversion {parser_ty}::{name} -> {auth_ty}::{name}", f"RUNTIME|{parser_ty}::{name}", f"From<biscuit_parser::builder::{parser_ty}> maps {name} to {outer}", f"{b['file']}:{arm['ln']}")
            allv = set(fb.variants(f"{P}::{parser_ty}"))
            ctx.check(covered == allv, "RUNTIME", f"From<parser::{parser_ty}> covers every variant", f"RUNTIME|{parser_ty}|coverage", f"missing {sorted(allv - covered)}", f"{b['file']}:{b['line']}")
        elif parser_ty in STRUCTS:
            used = {n["name"] for n in find_all(h["body"], lambda z: z.get("k") == "field")}
            adt_fields = [f["name"] for f in fb.adt(f"{P}::{parser_ty}")["variants"][0]["fields"]]
            missing = [f for f in adt_fields if f not in used]
            n_rt += 1
            ctx.check(not missing, "RUNTIME", f"runtime conversion of {parser_ty} uses every field", f"RUNTIME|{parser_ty}|fields", f"fields dropped by From<biscuit_parser::builder::{parser_ty}>: {missing}", f"{b['file']}:{b['line']}")
    ctx.floor("runtime conversion instances", n_rt, 50)
    # ---- COLLECT (shared with C20)
    c20.term_functions(fb, ctx, "biscuit_auth::token::builder", "biscuit_auth")
    c20.term_functions(fb, ctx, P, "biscuit_parser")
    for fn, callee, tag in (("biscuit_auth::token::builder::expression::Op::collect_parameters", r"Term::extract_parameters$", "biscuit_auth"), (f"{P}::Op::collect_parameters", r"Term::extract_parameters$", "biscuit_parser")):
        b = fb.body(fn)
        h = fb.hir_of(b)
        m = [x for x in hirq.matches_in(h["body"]) if (x.get("sty") or "").replace("&", "").endswith("Op")]
        a = c20.arms_by_variant(m[0]) if m else {}
        va = a.get("Value")
        ok_v = bool(va) and bool(find_all(va["body"], lambda z: z.get("k") == "mcall" and re.search(callee, (z.get("def") or {}).get("path", "")))) and not [p for p in hirq.subpatterns(va["pat"]) if p.get("k") not in ("bind", "wild")]
        ctx.check(ok_v, "COLLECT", f"{tag} Op::collect_parameters looks inside every Op::Value term", f"COLLECT|{fn}", "the two collectors disagree: one of them only sees a bare parameter in Op::Value", f"{b['file']}:{b['line']}")
    # ---- EMIT (biscuit-quote)
    items = {"fact": "fact", "rule": "rule", "check": "check", "policy": "policy"}
    for kind, method in items.items():
        b = fb.body_opt(f"biscuit_quote::Item::{kind}")
        if b is None:
            ctx.fail("EMIT", f"Item::{kind}", f"EMIT|{kind}|anchor", "biscuit_quote::Item constructor not found", "biscuit-quote/src/lib.rs")
            continue
        ids = [i for i in quote_idents(fb.hir_of(b)["body"]) if i != "::"]
        ok = method in ids and "unwrap" in ids and "__biscuit_auth_builder" in ids and "__biscuit_auth_item" in ids
        other = [m2 for m2 in items.values() if m2 != method and m2 in ids]
        ctx.check(ok and not other, "EMIT", f"macro items of kind {kind} are added with builder.{method}(item)", f"EMIT|{kind}", f"emitted identifiers: {ids[:14]}", f"{b['file']}:{b['line']}")
    ap = fb.body_opt("biscuit_quote::Item::add_param")
    if ap is not None:
        ids = quote_idents(fb.hir_of(ap)["body"])
        ctx.check("set_macro_param" in ids and "__biscuit_auth_item" in ids, "EMIT", "macro parameters are bound with set_macro_param on the item", "EMIT|add_param", f"emitted identifiers: {[i for i in ids if i != '::']}", f"{ap['file']}:{ap['line']}")
    source_field_rules(fb, ctx)
    parallel_binding_rules(fb, ctx)
    ctx.not_decided = ["equality of resulting token bytes / authorization results (runtime)"]
    ctx.trusted = ["quote! expansion (push_ident / ToTokens::to_tokens calls) as seen in the type-checked HIR", "rustc pattern resolution"]
