"""C09 — untrusted bytes never crash or hang the library (structural part: no reachable panic source, no unbounded
recursion that is not already classified, decode functions fail closed)."""
import re
import reach, hirq
from facts import CheckerError

EXPLANATION = (
    "REACH: every panic source (compiler-inserted Assert terminators: bounds/overflow/division; calls to unwrap/expect/"
    "index/remove/split_off/copy_from_slice/time arithmetic/panic!) in every body reachable from every public function of "
    "biscuit_auth and biscuit_parser is either discharged by a local argument (RangeFull index, constant-0 add, zones "
    "guard analysis over dominating branches, enumerate/range index bounds) or allow-listed by exact key with a reason in "
    "tables/panic_sites.json. RECUR: every recursive SCC of the workspace call graph is classified (bounded by prost's "
    "decode depth / AST depth) or reported. DECODE: every match on a decoded oneof/enum in format::convert fails closed."
)

# recursion that is bounded by construction; regex on a member path -> reason
RECUR_OK = [
    (r"token::builder::term::Term::(from_datalog|to_datalog|apply_parameters|extract_parameters)$|Term as token::builder::Convert<datalog::Term>>::(convert|convert_from)$|Term as std::fmt::Display>::fmt$",
     "recursion over a builder/datalog term: depth <= nesting of the decoded message (prost recursion limit 100) or of the AST the text parser produced"),
    (r"expression::Op as token::builder::Convert<datalog::expression::Op>>::(convert|convert_from)$|builder::expression::Op::(apply_parameters|collect_parameters)$",
     "recursion over closure bodies of an op list: depth <= nesting of the decoded message / parsed AST"),
    (r"datalog::expression::(Binary::evaluate_with_closure|Expression::evaluate|Expression::print)$",
     "evaluation/printing recurses once per nested closure: depth <= nesting of the decoded message (prost limit 100)"),
    (r"datalog::symbol::SymbolTable::print_term$|datalog::contains_v3_3_term$", "recursion over a datalog term: depth <= prost recursion limit"),
    (r"format::convert::v2::(token_term_to_proto_id|token_op_to_proto_op|proto_id_to_token_term|proto_op_to_token_op)$",
     "recursion over a protobuf term/op: prost::Message::decode refuses nesting deeper than 100"),
    (r"as token::RootKeyProvider>::choose$", "Box/Rc/Arc<dyn RootKeyProvider> delegate to the inner provider; the cycle is an artefact of over-approximating dyn dispatch"),
    (r"biscuit_parser::builder::(Term::extract_parameters|Op::collect_parameters)$|biscuit_parser::parser::Expr::into_opcodes$",
     "recursion over the AST the parser just produced (the parser's own recursion is the binding one)"),
]
RECUR_OK = [(re.compile(a), b) for a, b in RECUR_OK]


def entries(fb):
    out = []
    for k, b in fb.bodies.items():
        if b["crate"] not in ("biscuit_auth", "biscuit_parser"):
            continue
        if b["kind"] not in ("Fn", "AssocFn") or not b.get("pub") or b.get("exp"):
            continue
        out.append(k)
    # trait impls are public through their trait (Display, FromStr, TryFrom, From ...): all of them are entries too
    for k, b in fb.bodies.items():
        if b["crate"] in ("biscuit_auth", "biscuit_parser") and b.get("trait") and not b.get("exp") and b["kind"] == "AssocFn":
            out.append(k)
    return sorted(set(out))


def sccs(fb, keys):
    import sys
    sys.setrecursionlimit(100000)
    adj = {k: sorted({ck for ck, _, _ in fb.edges(fb.bodies[k]) if ck in keys}) for k in keys}
    index, low, onst, st, out, idx = {}, {}, set(), [], [], [0]

    def sc(v):
        index[v] = low[v] = idx[0]
        idx[0] += 1
        st.append(v)
        onst.add(v)
        for w in adj[v]:
            if w not in index:
                sc(w)
                low[v] = min(low[v], low[w])
            elif w in onst:
                low[v] = min(low[v], index[w])
        if low[v] == index[v]:
            comp = []
            while True:
                w = st.pop()
                onst.discard(w)
                comp.append(w)
                if w == v:
                    break
            if len(comp) > 1 or v in adj[v]:
                out.append(comp)

    for k in sorted(keys):
        if k not in index:
            sc(k)
    return out


def check(fb, ctx):
    ctx.explanation = EXPLANATION
    ent = entries(fb)
    ctx.floor("public entry points (biscuit_auth + biscuit_parser)", len(ent), 600)
    pred = reach.run(fb, ctx, ent, rule="REACH", crates=("biscuit_auth", "biscuit_parser"))

    # positive control for REACH: the catalogue must recognise the panic sources of a known body
    # (over the whole library, not one function: a control tied to the shape of one body fails when that body is rewritten)
    seen_kinds = {}
    for b_ in fb.bodies.values():
        if b_["crate"] in ("biscuit_auth", "biscuit_parser") and b_.get("blocks") and not b_.get("exp"):
            for s_ in reach.sites_of(fb, b_):
                seen_kinds[s_["what"]] = seen_kinds.get(s_["what"], 0) + 1
    ctx.control("REACH recognises arithmetic, indexing and unwrap panic sources in the library (>= 80 sites of >= 6 kinds)",
                sum(seen_kinds.values()) >= 80 and len(seen_kinds) >= 6 and any(k.startswith("Overflow") for k in seen_kinds) and any("index" in k for k in seen_kinds) and any("unwrap" in k for k in seen_kinds))

    # ---- RECUR
    keys = {k for k in pred if not reach.is_trusted_expansion(fb.bodies[k])}
    comps = sccs(fb, keys)
    ctx.floor("recursive SCCs found in the call graph", len(comps), 15)
    for comp in comps:
        paths = sorted(fb.bodies[k]["path"] for k in comp)
        rep = next((p for p in paths if "{closure" not in p), paths[0])
        b = fb.bodies[next(k for k in comp if fb.bodies[k]["path"] == rep)]
        where = f"{b['file']}:{b['line']}"
        reason = None
        for rx, why in RECUR_OK:
            if any(rx.search(p) for p in paths) and all(any(r2.search(p) for r2, _ in RECUR_OK) or "{closure" in p for p in paths):
                reason = why
                break
        if reason is None and all(fb.bodies[k]["path"] not in getattr(fb, "_known_paths", {fb.bodies[k]["path"]}) for k in comp):
            # a cycle made only of NEW functions (not in tables/known_functions.json) whose outside callers are all functions with an
            # accepted recursion argument: the recursive body of such a function was moved into a helper (`Expression::print` ->
            # `print_ops`); the argument is about the data that is walked, which is the same
            outside = {fb.bodies[c_]["path"] for c_ in fb.bodies if c_ not in comp and fb.bodies[c_].get("blocks") and any(x.rkey in comp for x in fb.calls(fb.bodies[c_]) if not x.indirect and getattr(x, "rkey", None))}
            for rx, why in RECUR_OK:
                if outside and all(rx.search(p_) for p_ in outside):
                    reason = why + " [recursion moved into a new helper of that function]"
                    break
        if reason:
            ctx.ok("RECUR", rep, where, reason)
        else:
            # one key per cycle: its lexicographically first non-closure member
            ctx.fail("RECUR", rep, f"RECUR|{rep}", f"recursive cycle without a depth bound: {paths[:8]}", where, {"members": paths})

    # ---- DECODE: matches on decoded optional content fail closed
    n = 0
    for b in fb.bodies_matching(r"^biscuit_auth::format::convert::(v2::)?proto_\w+$"):
        if b["kind"] != "Fn":
            continue
        h = fb.hir_of(b)
        for m in hirq.matches_in(h["body"]):
            sty = m.get("sty") or ""
            if "std::option::Option<" not in sty:
                continue
            # a running `let mut seen: Option<_> = None;` of the function is state, not decoded content
            state_ids = hirq.let_ids(h["body"], lambda z: (hirq.ctor_name(z) or "").endswith("::None"))
            sc_ = m.get("scrut")
            while isinstance(sc_, dict) and sc_.get("k") in ("addr", "use", "paren") :
                sc_ = sc_.get("e")
            if isinstance(sc_, dict) and sc_.get("k") == "mcall" and sc_.get("name") in ("as_ref", "as_mut", "take") and not sc_.get("args"):
                sc_ = sc_.get("recv")
            if hirq.is_lid(sc_, state_ids):
                continue
            for arm in m["arms"]:
                cells = hirq.tuple_cells(arm["pat"])
                vs = hirq.pat_variants(arm["pat"]) if cells is None else set().union(*cells)
                none_like = any(v in ("_",) or (v or "").endswith("::None") for v in vs) and not any((v or "").endswith("::Some") for v in vs) if cells is None else all(("_" in c) or any((v or "").endswith("::None") for v in c) for c in cells)
                if not none_like:
                    continue
                body_ = arm["body"]
                if isinstance(body_, dict) and ((body_.get("k") == "block" and not body_.get("stmts") and body_.get("expr") is None) or (body_.get("k") == "tup" and not body_.get("es"))):
                    continue      # `_ => {}`: a statement-level test (a version gate written as a match), nothing is decoded in this arm
                n += 1
                inst = f"{b['path']}@match#{m['ln'] - b['line']}"
                ev = hirq.err_variant(arm["body"])
                # `None => None` is fine when the function maps Option to Option (optional fields)
                tail = hirq.tail(arm["body"])
                is_none = isinstance(tail, dict) and tail.get("k") == "path" and (tail["res"].get("path") or "").endswith("None")
                key = f"DECODE|{b['path']}|{sty}"
                ctx.check(bool(ev) or is_none, "DECODE", inst, key, f"missing/unknown oneof or enum value is not turned into Err in `{b['path']}`", f"{b['file']}:{arm['ln']}")
    ctx.floor("decode matches with a None/default arm", n, 8)
    if ctx.tier == "thorough":
        # second feature configuration (bwk, uuid, serde-error): the public functions it adds are entry points too
        import facts as _facts
        fx = _facts.load("extra")
        dpaths = {b_["path"] for b_ in fb.bodies.values()}
        ent_x = [b_["key"] for b_ in fx.bodies.values() if b_["crate"] == "biscuit_auth" and b_["path"] not in dpaths and b_["kind"] in ("Fn", "AssocFn")]
        ctx.floor("functions added by the bwk/uuid/serde-error features", len(ent_x), 3)
        reach.run(fx, ctx, ent_x, rule="REACH-extra", crates=("biscuit_auth", "biscuit_parser"))
    ctx.not_decided = [
        "hangs in general (termination); cost of parser backtracking",
        "panics inside dependency crates other than the catalogue entries",
        "stack depth actually consumed by the bounded recursions",
    ]
    ctx.trusted = ["rustc MIR construction and type resolution", "prost::Message::decode never panics and limits nesting to 100", "panic-source catalogue in rules/reach.py"]
