//! HIR-lite: the type-checked HIR body of one function as a resolved expression tree (JSON).

use crate::json::V;
use crate::{def_key, def_path, expn, loc, FmtInfo};
use rustc_data_structures::fx::FxHashMap;
use rustc_hir as hir;
use rustc_hir::def::{DefKind, Res};
use rustc_hir::def_id::{DefId, LocalDefId};
use rustc_middle::ty::print::with_no_trimmed_paths;
use rustc_middle::ty::{self, Instance, TyCtxt, TypeckResults, TypingEnv};
use rustc_span::Span;

struct Cx<'a, 'tcx> {
    tcx: TyCtxt<'tcx>,
    tr: &'tcx TypeckResults<'tcx>,
    tenv: TypingEnv<'tcx>,
    fmt: &'a FxHashMap<crate::SpanKey, usize>,
    fmt_infos: &'a [FmtInfo],
    all_types: bool,
}

fn obj(k: &str, mut rest: Vec<(&'static str, V)>) -> V {
    let mut o = vec![("k", V::s(k))];
    o.append(&mut rest);
    V::Obj(o)
}

impl<'a, 'tcx> Cx<'a, 'tcx> {
    fn def(&self, did: DefId) -> V {
        V::Obj(vec![
            ("dk", V::s(format!("{:?}", self.tcx.def_kind(did)))),
            ("key", V::s(def_key(self.tcx, did))),
            ("path", V::s(def_path(self.tcx, did))),
        ])
    }

    fn res(&self, res: Res) -> V {
        match res {
            Res::Def(_, did) => {
                let mut v = vec![
                    ("dk", V::s(format!("{:?}", self.tcx.def_kind(did)))),
                    ("key", V::s(def_key(self.tcx, did))),
                    ("path", V::s(def_path(self.tcx, did))),
                ];
                // for constructors also give the variant / struct they construct
                if let DefKind::Ctor(..) = self.tcx.def_kind(did) {
                    let parent = self.tcx.parent(did);
                    v.push(("of", V::s(def_path(self.tcx, parent))));
                }
                V::Obj(v)
            }
            Res::Local(id) => V::Obj(vec![("dk", V::s("Local")), ("name", V::s(self.tcx.hir_name(id).as_str())), ("id", V::u(id.local_id.as_usize()))]),
            Res::SelfCtor(did) => V::Obj(vec![("dk", V::s("SelfCtor")), ("path", V::s(def_path(self.tcx, did)))]),
            Res::SelfTyAlias { alias_to, .. } => V::Obj(vec![("dk", V::s("SelfTy")), ("path", V::s(def_path(self.tcx, alias_to)))]),
            other => V::Obj(vec![("dk", V::s("Other")), ("v", V::s(format!("{:?}", other)))]),
        }
    }

    fn qpath(&self, q: &hir::QPath<'tcx>, id: hir::HirId) -> V {
        let r = self.tr.qpath_res(q, id);
        let mut v = self.res(r);
        // resolve trait associated fns / consts to the impl when the substs are known
        if let Res::Def(DefKind::AssocFn, did) = r {
            if let Some(args) = self.tr.node_args_opt(id) {
                if let Ok(Some(inst)) = Instance::try_resolve(self.tcx, self.tenv, did, args) {
                    if inst.def_id() != did {
                        if let V::Obj(o) = &mut v {
                            o.push(("rkey", V::s(def_key(self.tcx, inst.def_id()))));
                            o.push(("rpath", V::s(def_path(self.tcx, inst.def_id()))));
                        }
                    }
                }
            }
        }
        v
    }

    fn lit(&self, l: &hir::Lit) -> V {
        use rustc_ast::LitKind;
        match &l.node {
            LitKind::Str(s, _) => obj("lit", vec![("t", V::s("str")), ("v", V::s(s.as_str()))]),
            LitKind::ByteStr(b, _) | LitKind::CStr(b, _) => {
                let bytes = b.as_byte_str();
                let s: String = bytes.iter().map(|c| if *c >= 0x20 && *c < 0x7f { (*c as char).to_string() } else { format!("\\x{:02x}", c) }).collect();
                obj("lit", vec![("t", V::s("bytes")), ("v", V::s(s))])
            }
            LitKind::Byte(b) => obj("lit", vec![("t", V::s("byte")), ("v", V::Int(*b as i128))]),
            LitKind::Char(c) => obj("lit", vec![("t", V::s("char")), ("v", V::s(c.to_string()))]),
            LitKind::Int(n, _) => obj("lit", vec![("t", V::s("int")), ("v", V::Int(n.get() as i128))]),
            LitKind::Float(s, _) => obj("lit", vec![("t", V::s("float")), ("v", V::s(s.as_str()))]),
            LitKind::Bool(b) => obj("lit", vec![("t", V::s("bool")), ("v", V::Bool(*b))]),
            LitKind::Err(_) => obj("lit", vec![("t", V::s("err"))]),
        }
    }

    fn pat_expr(&self, e: &hir::PatExpr<'tcx>) -> V {
        match &e.kind {
            hir::PatExprKind::Lit { lit, negated } => {
                let mut v = self.lit(lit);
                if *negated {
                    if let V::Obj(o) = &mut v {
                        o.push(("neg", V::Bool(true)));
                    }
                }
                v
            }
            hir::PatExprKind::Path(q) => obj("path", vec![("res", self.qpath(q, e.hir_id))]),
        }
    }

    fn pat(&self, p: &hir::Pat<'tcx>) -> V {
        use hir::PatKind::*;
        match &p.kind {
            Missing | Wild => obj("wild", vec![]),
            Binding(mode, id, ident, sub) => obj(
                "bind",
                vec![
                    ("name", V::s(ident.as_str())),
                    ("id", V::u(id.local_id.as_usize())),
                    ("mode", V::s(format!("{:?}", mode))),
                    ("sub", sub.map(|s| self.pat(s)).unwrap_or(V::Null)),
                ],
            ),
            Struct(q, fields, rest) => {
                let fs = fields.iter().map(|f| V::Obj(vec![("name", V::s(f.ident.as_str())), ("pat", self.pat(f.pat))])).collect();
                obj("struct", vec![("res", self.qpath(q, p.hir_id)), ("fields", V::Arr(fs)), ("rest", V::Bool(rest.is_some()))])
            }
            TupleStruct(q, pats, dd) => obj(
                "tstruct",
                vec![
                    ("res", self.qpath(q, p.hir_id)),
                    ("pats", V::Arr(pats.iter().map(|x| self.pat(x)).collect())),
                    ("dd", dd.as_opt_usize().map(V::u).unwrap_or(V::Null)),
                ],
            ),
            Or(pats) => obj("or", vec![("pats", V::Arr(pats.iter().map(|x| self.pat(x)).collect()))]),
            Never => obj("never", vec![]),
            Tuple(pats, dd) => obj(
                "tuple",
                vec![("pats", V::Arr(pats.iter().map(|x| self.pat(x)).collect())), ("dd", dd.as_opt_usize().map(V::u).unwrap_or(V::Null))],
            ),
            Box(x) => obj("box", vec![("pat", self.pat(x))]),
            Deref(x) => obj("deref", vec![("pat", self.pat(x))]),
            Ref(x, ..) => obj("ref", vec![("pat", self.pat(x))]),
            Expr(e) => self.pat_expr(e),
            Guard(x, g) => obj("guard", vec![("pat", self.pat(x)), ("cond", self.expr(g))]),
            Range(a, b, end) => obj(
                "range",
                vec![
                    ("lo", a.map(|x| self.pat_expr(x)).unwrap_or(V::Null)),
                    ("hi", b.map(|x| self.pat_expr(x)).unwrap_or(V::Null)),
                    ("end", V::s(format!("{:?}", end))),
                ],
            ),
            Slice(a, mid, b) => obj(
                "slice",
                vec![
                    ("before", V::Arr(a.iter().map(|x| self.pat(x)).collect())),
                    ("mid", mid.map(|x| self.pat(x)).unwrap_or(V::Null)),
                    ("after", V::Arr(b.iter().map(|x| self.pat(x)).collect())),
                ],
            ),
            Err(_) => obj("err", vec![]),
        }
    }

    fn block(&self, b: &hir::Block<'tcx>) -> V {
        let mut stmts = Vec::new();
        for s in b.stmts.iter() {
            match &s.kind {
                hir::StmtKind::Let(l) => {
                    let ln = loc(self.tcx, l.span).line;
                    stmts.push(obj(
                        "let",
                        vec![
                            ("pat", self.pat(l.pat)),
                            ("init", l.init.map(|e| self.expr(e)).unwrap_or(V::Null)),
                            ("els", l.els.map(|b| self.block(b)).unwrap_or(V::Null)),
                            ("ln", V::u(ln)),
                        ],
                    ));
                }
                hir::StmtKind::Item(_) => {}
                hir::StmtKind::Expr(e) => stmts.push(self.expr(e)),
                hir::StmtKind::Semi(e) => stmts.push(obj("semi", vec![("e", self.expr(e))])),
            }
        }
        obj("block", vec![("stmts", V::Arr(stmts)), ("expr", b.expr.map(|e| self.expr(e)).unwrap_or(V::Null))])
    }

    fn ty_of(&self, e: &hir::Expr<'tcx>) -> V {
        match self.tr.expr_ty_opt(e) {
            Some(t) => V::s(with_no_trimmed_paths!(t.to_string())),
            None => V::Null,
        }
    }

    fn collect_fmt_args(&self, e: &'tcx hir::Expr<'tcx>, spans: &[Span], out: &mut Vec<Option<&'tcx hir::Expr<'tcx>>>) {
        struct Vis<'b, 'tcx> {
            spans: &'b [Span],
            out: &'b mut Vec<Option<&'tcx hir::Expr<'tcx>>>,
        }
        impl<'b, 'tcx> hir::intravisit::Visitor<'tcx> for Vis<'b, 'tcx> {
            fn visit_expr(&mut self, ex: &'tcx hir::Expr<'tcx>) {
                for (i, s) in self.spans.iter().enumerate() {
                    if crate::span_key(ex.span) == crate::span_key(*s) && self.out[i].is_none() {
                        // unwrap the `&arg` the lowering wraps around the argument with the same span
                        let mut inner = ex;
                        while let hir::ExprKind::AddrOf(_, _, x) = inner.kind {
                            if crate::span_key(x.span) == crate::span_key(*s) {
                                inner = x;
                            } else {
                                break;
                            }
                        }
                        self.out[i] = Some(inner);
                        return;
                    }
                }
                hir::intravisit::walk_expr(self, ex);
            }
        }
        let mut v = Vis { spans, out };
        hir::intravisit::walk_expr(&mut v, e);
    }

    fn expr(&self, e: &'tcx hir::Expr<'tcx>) -> V {
        // format_args!() : replace the lowered tree by the template + the argument expressions
        if let Some(idx) = self.fmt.get(&crate::span_key(e.span)) {
            let info = &self.fmt_infos[*idx];
            let mut found: Vec<Option<&'tcx hir::Expr<'tcx>>> = vec![None; info.arg_spans.len()];
            self.collect_fmt_args(e, &info.arg_spans, &mut found);
            let pieces: Vec<V> = info
                .pieces
                .iter()
                .map(|p| match p {
                    V::Str(s) => V::s(s.clone()),
                    V::Obj(o) => V::Obj(
                        o.iter()
                            .map(|(k, v)| {
                                (*k, match v {
                                    V::Int(i) => V::Int(*i),
                                    V::Str(s) => V::s(s.clone()),
                                    _ => V::Null,
                                })
                            })
                            .collect(),
                    ),
                    _ => V::Null,
                })
                .collect();
            let args: Vec<V> = found
                .iter()
                .map(|f| match f {
                    Some(x) => {
                        let mut v = self.expr_inner(x);
                        if let V::Obj(o) = &mut v {
                            if !o.iter().any(|(k, _)| *k == "ty") {
                                o.push(("ty", self.ty_of(x)));
                            }
                        }
                        v
                    }
                    None => obj("inlined", vec![]),
                })
                .collect();
            let ln = loc(self.tcx, e.span).line;
            return obj("format", vec![("pieces", V::Arr(pieces)), ("args", V::Arr(args)), ("ln", V::u(ln)), ("x", expn(e.span).map(V::s).unwrap_or(V::Null))]);
        }
        self.expr_inner(e)
    }

    fn expr_inner(&self, e: &'tcx hir::Expr<'tcx>) -> V {
        use hir::ExprKind::*;
        let ln = loc(self.tcx, e.span).line;
        let mut v = match &e.kind {
            ConstBlock(_) => obj("constblock", vec![]),
            Array(es) => obj("array", vec![("es", V::Arr(es.iter().map(|x| self.expr(x)).collect()))]),
            Call(f, args) => {
                let mut o = vec![("f", self.expr(f)), ("args", V::Arr(args.iter().map(|x| self.expr(x)).collect()))];
                // overloaded call (closure / Fn* objects)
                if let Some(did) = self.tr.type_dependent_def_id(e.hir_id) {
                    o.push(("via", self.def(did)));
                    o.push(("fty", self.ty_of(f)));
                }
                obj("call", o)
            }
            MethodCall(seg, recv, args, _) => {
                let mut o = vec![("name", V::s(seg.ident.as_str()))];
                if let Some(did) = self.tr.type_dependent_def_id(e.hir_id) {
                    o.push(("def", self.def(did)));
                    let args_ = self.tr.node_args(e.hir_id);
                    if let Ok(Some(inst)) = Instance::try_resolve(self.tcx, self.tenv, did, args_) {
                        if inst.def_id() != did {
                            o.push(("rdef", self.def(inst.def_id())));
                        }
                    }
                }
                o.push(("recv", self.expr(recv)));
                o.push(("rty", self.ty_of(recv)));
                o.push(("args", V::Arr(args.iter().map(|x| self.expr(x)).collect())));
                obj("mcall", o)
            }
            Use(x, _) => obj("use", vec![("e", self.expr(x))]),
            Tup(es) => obj("tup", vec![("es", V::Arr(es.iter().map(|x| self.expr(x)).collect()))]),
            Binary(op, a, b) => {
                let mut o = vec![("op", V::s(format!("{:?}", op.node))), ("a", self.expr(a)), ("b", self.expr(b)), ("aty", self.ty_of(a))];
                if let Some(did) = self.tr.type_dependent_def_id(e.hir_id) {
                    o.push(("def", self.def(did)));
                }
                obj("binary", o)
            }
            Unary(op, a) => {
                let mut o = vec![("op", V::s(format!("{:?}", op))), ("a", self.expr(a))];
                if let Some(did) = self.tr.type_dependent_def_id(e.hir_id) {
                    o.push(("def", self.def(did)));
                }
                obj("unary", o)
            }
            Lit(l) => self.lit(l),
            Cast(x, _) => obj("cast", vec![("e", self.expr(x)), ("from", self.ty_of(x)), ("ty", self.ty_of(e))]),
            Type(x, _) => self.expr(x),
            DropTemps(x) => self.expr(x),
            Let(l) => obj("letexpr", vec![("pat", self.pat(l.pat)), ("init", self.expr(l.init)), ("ity", self.ty_of(l.init))]),
            If(c, t, el) => obj("if", vec![("cond", self.expr(c)), ("then", self.expr(t)), ("else", el.map(|x| self.expr(x)).unwrap_or(V::Null))]),
            Loop(b, _, src, _) => obj("loop", vec![("src", V::s(format!("{:?}", src))), ("body", self.block(b))]),
            Match(scrut, arms, src) => {
                let arms_v = arms
                    .iter()
                    .map(|a| {
                        V::Obj(vec![
                            ("pat", self.pat(a.pat)),
                            ("guard", a.guard.map(|g| self.expr(g)).unwrap_or(V::Null)),
                            ("body", self.expr(a.body)),
                            ("ln", V::u(loc(self.tcx, a.span).line)),
                        ])
                    })
                    .collect();
                obj("match", vec![("src", V::s(format!("{:?}", src))), ("scrut", self.expr(scrut)), ("sty", self.ty_of(scrut)), ("arms", V::Arr(arms_v))])
            }
            Closure(c) => {
                let body = self.tcx.hir_body(c.body);
                let params = body.params.iter().map(|p| self.pat(p.pat)).collect();
                obj("closure", vec![("def", V::s(def_key(self.tcx, c.def_id.to_def_id()))), ("params", V::Arr(params)), ("body", self.expr(body.value))])
            }
            Block(b, _) => self.block(b),
            Assign(a, b, _) => obj("assign", vec![("lhs", self.expr(a)), ("rhs", self.expr(b))]),
            AssignOp(op, a, b) => {
                let mut o = vec![("op", V::s(format!("{:?}", op.node))), ("lhs", self.expr(a)), ("rhs", self.expr(b)), ("lty", self.ty_of(a))];
                if let Some(did) = self.tr.type_dependent_def_id(e.hir_id) {
                    o.push(("def", self.def(did)));
                }
                obj("assignop", o)
            }
            Field(x, ident) => obj("field", vec![("e", self.expr(x)), ("name", V::s(ident.as_str())), ("ety", self.ty_of(x))]),
            Index(a, b, _) => {
                let mut o = vec![("e", self.expr(a)), ("idx", self.expr(b)), ("ety", self.ty_of(a))];
                if let Some(did) = self.tr.type_dependent_def_id(e.hir_id) {
                    o.push(("def", self.def(did)));
                }
                obj("index", o)
            }
            Path(q) => obj("path", vec![("res", self.qpath(q, e.hir_id))]),
            AddrOf(_, m, x) => obj("addr", vec![("mut", V::Bool(m.is_mut())), ("e", self.expr(x))]),
            Break(dest, x) => obj("break", vec![("label", dest.label.map(|l| V::s(l.ident.as_str())).unwrap_or(V::Null)), ("e", x.map(|x| self.expr(x)).unwrap_or(V::Null))]),
            Continue(dest) => obj("continue", vec![("label", dest.label.map(|l| V::s(l.ident.as_str())).unwrap_or(V::Null))]),
            Ret(x) => obj("ret", vec![("e", x.map(|x| self.expr(x)).unwrap_or(V::Null))]),
            Become(x) => obj("become", vec![("e", self.expr(x))]),
            InlineAsm(_) => obj("asm", vec![]),
            OffsetOf(..) => obj("offsetof", vec![]),
            Struct(q, fields, tail) => {
                let fs = fields.iter().map(|f| V::Obj(vec![("name", V::s(f.ident.as_str())), ("e", self.expr(f.expr))])).collect();
                let base = match tail {
                    hir::StructTailExpr::Base(b) => self.expr(b),
                    _ => V::Null,
                };
                obj("struct", vec![("res", self.qpath(q, e.hir_id)), ("ty", self.ty_of(e)), ("fields", V::Arr(fs)), ("base", base)])
            }
            Repeat(x, _) => obj("repeat", vec![("e", self.expr(x))]),
            Yield(x, _) => obj("yield", vec![("e", self.expr(x))]),
            UnsafeBinderCast(_, x, _) => self.expr(x),
            Err(_) => obj("err", vec![]),
        };
        if let V::Obj(o) = &mut v {
            if !o.iter().any(|(k, _)| *k == "ln") {
                o.push(("ln", V::u(ln)));
            }
            if let Some(x) = expn(e.span) {
                if !o.iter().any(|(k, _)| *k == "x") {
                    o.push(("x", V::s(x)));
                }
            }
            if self.all_types && !o.iter().any(|(k, _)| *k == "ty") {
                o.push(("ty", self.ty_of(e)));
            }
        }
        v
    }
}

pub fn dump_fn<'tcx>(tcx: TyCtxt<'tcx>, local: LocalDefId, fmt: &FxHashMap<crate::SpanKey, usize>, fmt_infos: &[FmtInfo]) -> Option<V> {
    let body = tcx.hir_maybe_body_owned_by(local)?;
    let did = local.to_def_id();
    let tr = tcx.typeck(local);
    let cx = Cx {
        tcx,
        tr,
        tenv: TypingEnv::post_analysis(tcx, did),
        fmt,
        fmt_infos,
        all_types: std::env::var("MIRFACTS_ALL_TYPES").is_ok(),
    };
    let l = loc(tcx, tcx.def_span(did));
    let params: Vec<V> = body.params.iter().map(|p| cx.pat(p.pat)).collect();
    let _ = ty::List::<ty::GenericArg<'tcx>>::empty();
    Some(V::Obj(vec![
        ("key", V::s(def_key(tcx, did))),
        ("path", V::s(def_path(tcx, did))),
        ("file", V::s(l.file)),
        ("line", V::u(l.line)),
        ("exp", expn(tcx.def_span(did)).map(V::s).unwrap_or(V::Null)),
        ("params", V::Arr(params)),
        ("body", cx.expr(body.value)),
    ]))
}
