"""C19 — the C API never aborts and writes exactly what it announces (structural necessary conditions)."""
import re
import hirq, mirq, reach, sigs
from facts import CheckerError, find_all
from zones import cfg
from props.c05 import strip, is_local, mcalls


def extern_fns(fb):
    return [b for b in fb.bodies.values() if b["crate"] == "biscuit_capi" and (b.get("abi") or "").startswith("C") and b["kind"] == "Fn"]


def call_args(rendered, name):
    """argument text of every `name(...)` occurrence in a rendered def-chain expression (balanced parentheses)"""
    out, i = [], 0
    while True:
        i = rendered.find(name + "(", i)
        if i < 0:
            return out
        j, depth = i + len(name) + 1, 1
        k = j
        while k < len(rendered) and depth:
            depth += {"(": 1, ")": -1}.get(rendered[k], 0)
            k += 1
        out.append(rendered[j:k - 1])
        i = k


def check(fb, ctx):
    ctx.explanation = (
        "REACH: every extern \"C\" function and the helper methods it calls contain no panic source (a panic there aborts the "
        "host) unless a dominating guard discharges it (the `if x.is_none() { record error; return }` idiom, exact-length tests "
        "before copy_from_slice) or it is justified by the PAIR invariant. PAIR: every wrapper that `take()`s the inner builder "
        "puts a Some back on every exit, so the handle never holds None. SIZE: for each from_raw_parts_mut(ptr, n) / "
        "copy_from_slice(src) pair, n and src come from the same object (serialized_size and to_vec of one token) or from a "
        "constant that is the length of src for every key type. ERRCHAN: the error channel is overwritten on every failure and "
        "every null-handle guard records an error."
    )
    ext = extern_fns(fb)
    ctx.floor("extern \"C\" entry points", len(ext), 53)
    reach.run(fb, ctx, [b["key"] for b in ext], rule="REACH", crates=("biscuit_capi",))
    # positive control: an unguarded unwrap of a handle is seen
    ctx.control("REACH catalogue recognises Option::unwrap in biscuit_capi", any(s["what"] == "Option::unwrap" for b in ext for s in reach.sites_of(fb, b)))
    # ---- PAIR
    n_pair = 0
    for b in fb.bodies.values():
        if b["crate"] != "biscuit_capi" or b["kind"] != "AssocFn":
            continue
        takes = [c for c in fb.calls(b) if not c.indirect and (c.rpath or "").endswith("Option::<T>::take") and sigs.Layout(fb, b).operand(c.args[0]) == "arg1.0"]
        if not takes:
            continue
        n_pair += 1
        g = cfg(b)
        restores = set()
        for i, blk in enumerate(b["blocks"]):
            for s in blk["s"]:
                d = s["d"]
                if d["l"] == 1 and [p for p in (d.get("p") or []) if p != "*"] == [".0"] and not (s["r"].get("k") == "agg" and s["r"].get("variant") == "None"):
                    # `self.0 = <value>`: check that the value is a Some(..) aggregate (directly or through one temporary)
                    r = s["r"]
                    val = r
                    if r.get("k") == "use" and r["op"].get("k") in ("move", "copy") and not r["op"]["pl"].get("p"):
                        ds = [x for x in sigs.Layout(fb, b).defs.get(r["op"]["pl"]["l"], []) if x[0] == "assign"]
                        val = ds[0][1] if len(ds) == 1 else r
                    if val.get("k") == "agg" and val.get("variant") == "Some":
                        restores.add(i)
        rets = [i for i, blk in enumerate(b["blocks"]) if (blk.get("t") or {}).get("k") == "return" and not blk.get("cleanup")]
        # any path take -> return avoiding all restore blocks?
        seen, st = set(), [takes[0].target] if takes[0].target is not None else []
        bad = False
        while st:
            x = st.pop()
            if x in seen or x in restores:
                continue
            seen.add(x)
            if x in rets:
                bad = True
                break
            st.extend(g["succ"][x])
        short = "::".join(b["path"].split("::")[-2:])
        ctx.check(not bad, "PAIR", f"{short}: the builder taken out of the handle is put back on every exit", f"PAIR|{b['path']}", "there is a path from `self.0.take()` to a return that does not store `Some(..)` back: the next call on this handle unwraps None and aborts", f"{b['file']}:{takes[0].ln}")
    ctx.floor("take()/restore wrappers", n_pair, 13)
    # ---- SIZE
    n_size = 0
    FIXED32 = re.compile(r"call:to_bytes\(call:private\(")
    for b, owner in [(b_, o_) for b_ in ext for o_ in [b_] + mirq.created_closures(fb, b_)]:     # the copy may sit in a closure of the extern fn
        L = sigs.Layout(fb, owner)
        for c in fb.calls(owner):
            if c.indirect or not (c.rpath or "").endswith("<impl [T]>::copy_from_slice"):
                continue
            dst, src = L.operand(c.args[0]), L.operand(c.args[1])
            m = re.match(r"^call:from_raw_parts_mut\((.*), (.*)\)$", dst)
            if not m:
                continue  # destination is a local array: handled by REACH (length guard)
            n_size += 1
            n = m.group(2)
            where = f"{b['file']}:{c.ln}"
            inst = f"{b['path'].split('::')[-1]}: buffer length vs copied bytes"
            key = f"SIZE|{b['path']}"
            if n.startswith("const:"):
                N = int(n[6:])
                # the source must be N bytes for every key type
                ok = bool(FIXED32.search(src)) and N == 32
                ctx.check(ok, "SIZE", inst, key, f"the buffer is a constant {N} bytes but the copied value `{src}` is not {N} bytes for every algorithm (a P-256 public key is 33 bytes)", where)
            else:
                rn, rs = call_args(n, "serialized_size"), call_args(src, "to_vec")
                ok = bool(rn) and bool(rs) and rn[0] == rs[0]
                ctx.check(ok, "SIZE", inst, key, f"the buffer length comes from `{n}` and the copied bytes from `{src}`: they must be serialized_size() and to_vec() of the same token", where)
    ctx.floor("raw-buffer copies in extern fns", n_size, 4)
    # the size query for sealed tokens is the sealed size
    sb = fb.body("biscuit_capi::biscuit_sealed_size")
    ls = [c for c in fb.calls(sb) if not c.indirect and (c.rpath or "").endswith("serialized_size")]
    ok = False
    for c in ls:
        ok = ok or any("seal" in l for l in mirq.operand_leaves(fb, sb, c.args[0]))
    cl = [c for c in fb.calls(sb) if not c.indirect and "seal" in (c.rpath or "")]
    closure_keys = [k for k in fb.closures_of(sb["key"])]
    for k in closure_keys:
        cb = fb.bodies[k]
        ok = ok or (bool(cl) and any((c.rpath or "").endswith("serialized_size") for c in fb.calls(cb) if not c.indirect))
    ctx.check(ok, "SIZE", "biscuit_sealed_size announces the size of the sealed token", "SIZE|biscuit_sealed_size", "the announced size is not serialized_size() of the sealed token", f"{sb['file']}:{sb['line']}")
    # ---- ERRKIND: the numeric kind reported to C names the error that happened - every arm of error_kind() maps a (nested) Rust
    # error variant to the ErrorKind whose name contains that variant's name (Format(Signature(InvalidFormat)) -> FormatSignatureInvalidFormat,
    # AlreadySealed -> AlreadySealed, Language(_) -> LanguageError): two arms swapped are two arms that break this
    for ek_key, ek in list(fb.hir.items()):
        if ek.get("crate") == "biscuit_capi" and ek["path"].startswith("biscuit_capi::error_kind"):
            n_arms = 0
            def innermost(p):
                nm = None
                while isinstance(p, dict):
                    if p.get("k") in ("ref", "box", "deref"):
                        p = p["pat"]; continue
                    if p.get("k") in ("tstruct", "struct", "path"):
                        nm = (hirq.res_path(p.get("res") or {}) or "").split("::")[-1]
                        subs = [q for q in (p.get("pats") or []) if q.get("k") in ("tstruct", "struct", "path", "ref")]
                        if len(subs) == 1:
                            p = subs[0]; continue
                    break
                return nm
            for m_ in find_all(ek["body"], lambda z: z.get("k") == "match" and "error::Token" in (z.get("sty") or "")):
                for arm in m_["arms"]:
                    src_ = innermost(arm["pat"])
                    tgt_ = (hirq.ctor_name(strip(hirq.tail(arm["body"]))) or (strip(hirq.tail(arm["body"])).get("res", {}).get("path") if isinstance(strip(hirq.tail(arm["body"])), dict) else "") or "").split("::")[-1]
                    if not src_ or not tgt_ or src_ == "_":
                        continue
                    n_arms += 1
                    kinds_ = fb.variants("biscuit_capi::ErrorKind")
                    # (a Rust error with no kind of its own - Base64 - is folded into another kind by design)
                    ctx.check(src_ in tgt_ or not any(src_ in k_ for k_ in kinds_), "ERRKIND", f"error_kind: {src_} is reported as a kind that names it", f"ERRKIND|{src_}", f"error `{src_}` is reported to C as ErrorKind::{tgt_}: the caller is told another error than the one that happened", f"{ek['file']}:{arm.get('ln', m_['ln'])}")
            if n_arms:
                ctx.floor("arms of error_kind over biscuit_auth::error::Token", n_arms, 38)
    # ---- ERRCHAN
    ub = fb.body("biscuit_capi::update_last_error")
    cbs = [fb.bodies[k] for k in fb.closures_of(ub["key"])]
    uh = fb.hir_of(ub)
    asg = [a for a in find_all(uh["body"], lambda z: z.get("k") == "assign") if mcalls(a["lhs"], r"RefCell::<T>::borrow_mut$") and (hirq.ctor_name(strip(a["rhs"])) or "").endswith("::Some")]
    lazy = [c for c in hirq.callee_paths(uh["body"]) if re.search(r"::(get_or_insert|get_or_insert_with|or_insert|is_none|replace_if)$", c)]
    ctx.check(len(asg) == 1 and not lazy, "ERRCHAN", "update_last_error overwrites the stored error unconditionally", "ERRCHAN|update_last_error", f"expected `*prev.borrow_mut() = Some(err)`; conditional-store calls found: {[hirq.short(c) for c in lazy]}", f"{ub['file']}:{ub['line']}")
    n_guard = 0
    for b in ext:
        h = fb.hir_of(b)
        for i in find_all(h["body"], lambda z: z.get("k") == "if"):
            c = strip(i["cond"])
            if isinstance(c, dict) and c.get("k") == "mcall" and c.get("name") in ("is_none", "is_err") and is_local(strip(c["recv"])):
                n_guard += 1
                rec = [x for x in find_all(i["then"], lambda z: z.get("k") == "call" and (z.get("f", {}).get("res", {}).get("path") or "").endswith("update_last_error"))]
                ctx.check(bool(rec), "ERRCHAN", f"{b['path'].split('::')[-1]}: invalid `{strip(c['recv'])['res']['name']}` is reported through the error channel", f"ERRCHAN|{b['path']}|{strip(c['recv'])['res']['name']}", "the invalid-argument branch does not call update_last_error", f"{b['file']}:{i['ln']}")
    ctx.floor("null / invalid-argument guards", n_guard, 40)
    ctx.not_decided = ["equality of results with the Rust API (thin wrappers; behavioural)", "validity of caller-supplied raw pointers and buffer sizes (caller's contract)", "errors dropped with .ok() without being recorded (observation: biscuit_from, biscuit_builder_build, authorizer_builder_build)"]
    ctx.trusted = ["rustc MIR", "panic catalogue and allow-list", "key sizes: ed25519 and P-256 private keys are 32 bytes, P-256 public keys 33 bytes"]
