// C10: authorization succeeds only within the budgets, counted cumulatively across calls.
// A call that failed with a run-limit error must not be followed by a successful retry on the same authorizer.
use biscuit_auth::{builder::*, *};
use std::time::Duration;
fn main() {
    let root = KeyPair::new();
    let mut defect = false;
    // --- fact budget: 30 base facts, one wide join -> 900 derived facts in the only productive iteration
    let mut b = Biscuit::builder();
    for i in 0..30 { b = b.fact(format!("n({i})").as_str()).unwrap(); }
    let token = b.rule("pair($a, $b) <- n($a), n($b)").unwrap().build(&root).unwrap();
    let lim = AuthorizerLimits { max_facts: 100, max_iterations: 100, max_time: Duration::from_secs(30) };
    let mut a = AuthorizerBuilder::new().policy("allow if true").unwrap().limits(lim).build(&token).unwrap();
    let first = a.authorize();
    let second = a.authorize();
    println!("max_facts=100, 930 facts: first authorize = {:?}", first.as_ref().map_err(|e| e.to_string()));
    println!("                          second authorize = {:?}", second.as_ref().map_err(|e| e.to_string()));
    if first.is_err() && second.is_ok() { println!("  the retry succeeds over the fact budget"); defect = true }
    // --- time budget: every failed call gets a fresh max_time; progress is kept in the world, so retries eventually succeed
    let mut b = Biscuit::builder().fact("c(0)").unwrap();
    for i in 0..600 { b = b.fact(format!("succ({}, {})", i, i + 1).as_str()).unwrap(); }
    b = b.rule("c($y) <- c($x), succ($x, $y)").unwrap();
    let token = b.build(&root).unwrap();
    // calibrate: how long does the whole evaluation take with no time limit?
    let big = AuthorizerLimits { max_facts: 100000, max_iterations: 1000000, max_time: Duration::from_secs(3600) };
    let mut a0 = AuthorizerBuilder::new().policy("allow if c(600)").unwrap().limits(big).build(&token).unwrap();
    let t0 = std::time::Instant::now();
    a0.authorize().unwrap();
    let total = t0.elapsed();
    let budget = total / 4;
    let lim = AuthorizerLimits { max_facts: 100000, max_iterations: 1000000, max_time: budget };
    let mut a = AuthorizerBuilder::new().policy("allow if c(600)").unwrap().limits(lim).build(&token).unwrap();
    let start = std::time::Instant::now();
    let mut calls = 0; let mut timeouts = 0; let mut last = None;
    while calls < 100 {
        calls += 1;
        match a.authorize() { Ok(x) => { last = Some(x); break }, Err(error::Token::RunLimit(error::RunLimit::Timeout)) => timeouts += 1, Err(e) => { println!("other error {e}"); break } }
    }
    println!("whole evaluation takes {:?}; with max_time = {:?}: {} call(s), {} timeout(s), final = {:?}, time spent evaluating = {:?}", total, budget, calls, timeouts, last, start.elapsed());
    if timeouts > 0 && last.is_some() { println!("  authorization succeeded after consuming {:.1}x the time budget: the time of failed calls is not counted", start.elapsed().as_secs_f64() / budget.as_secs_f64()); defect = true }
    if defect { println!("DEFECT a call that hit a run limit can be retried into success") } else { println!("OK"); std::process::exit(1) }
}
