// F14 (C14): a block-level scope (`trusting previous, ed25519/..;`) must survive print_block_source -> BlockBuilder::code.
use biscuit_auth::{builder::*, *};
fn main() {
    let root = KeyPair::new();
    let other = KeyPair::new();
    let mut defect = false;
    let bb = BlockBuilder::new()
        .scope(Scope::Previous)
        .scope(Scope::PublicKey(other.public()))
        .check("check if a(1)").unwrap();
    let printed = bb.to_string();
    println!("BlockBuilder prints : {:?}", printed);
    if !printed.starts_with("trusting previous, ed25519/") { println!("  block scope not printed"); defect = true }
    let token = Biscuit::builder().fact("a(1)").unwrap().build(&root).unwrap().append(bb).unwrap();
    let src = token.print_block_source(1).unwrap();
    println!("print_block_source  : {:?}", src);
    if !src.starts_with("trusting previous, ed25519/") { println!("  block scope not printed"); defect = true }
    let with_scope = format!("trusting previous, {};\ncheck if a(1);\n", other.public());
    match BlockBuilder::new().code(&with_scope) {
        Ok(b) => { println!("code(`trusting previous, <key>; ..`) loads {} block scope(s)", b.scopes.len()); if b.scopes.len() != 2 { defect = true } }
        Err(e) => { println!("does not parse: {:?}", e); defect = true }
    }
    if defect { println!("DEFECT block-level scopes are lost between printer and parser") } else { println!("OK"); std::process::exit(1) }
}
