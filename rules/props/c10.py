"""C10 — evaluation budgets are enforced (structural necessary conditions)."""
import re
import hirq, mirq, reach
from facts import CheckerError, find_all
from props.c05 import strip, is_local, mcalls

D = "biscuit_auth::datalog"
A = "biscuit_auth::token::authorizer::Authorizer"


def runlimit_kind(node):
    """RunLimit variant named inside an Err(...) / break Err(...) / return Err(...) expression."""
    names = [hirq.ctor_name(n) for n in find_all(node, lambda n: (hirq.ctor_name(n) or "").startswith("biscuit_auth::error::RunLimit::"))]
    return names[0].split("::")[-1] if names else None


def exits(node):
    return [n for n in find_all(node, lambda n: n.get("k") in ("break", "ret")) if runlimit_kind(n)]


def check(fb, ctx):
    ctx.explanation = (
        "BACKEDGE: in the fixpoint loop of World::run_with_limits every round that added facts passes three budget tests "
        "before the next round - iterations (`index >= limits.max_iterations`), facts (`self.facts.len() >= limits.max_facts`, "
        "on the merged world) and time (`now >= time_limit`) - each leaving the loop with its own RunLimit error. MONOTONE: "
        "budget tests compare with >= or >, never ==. ACCOUNT: consumed iterations are added to World::iterations on every "
        "exit; authorize/query/query_all compute the remaining iteration budget with a checked subtraction and the remaining "
        "time after a `>=` guard; the *_with_limits functions store run time + own elapsed time. TIMECHECK: every loop of "
        "authorize_inner that evaluates queries tests the deadline after each query. REACH: no unchecked arithmetic on budgets."
    )
    rb = fb.body(D + "::World::run_with_limits")
    rh = fb.hir_of(rb)
    loops = [l for l in find_all(rh["body"], lambda n: n.get("k") == "loop") if l.get("src") == "Loop"]
    if len(loops) != 1:
        raise CheckerError("anchor: main loop of run_with_limits")
    stmts = loops[0]["body"]["stmts"] + ([loops[0]["body"]["expr"]] if loops[0]["body"].get("expr") else [])
    idx_merge = next((i for i, s in enumerate(stmts) if mcalls(s, r"FactSet::merge$") and (s.get("e") or s).get("k") == "mcall"), None)
    if idx_merge is None:
        ctx.fail("BACKEDGE", "merge at loop top level", "BACKEDGE|merge", "facts.merge(new_facts) is not a top-level statement of the fixpoint loop any more", f"{rb['file']}:{loops[0]['ln']}")
        idx_merge = -1
    tests = {}
    for i, s in enumerate(stmts):
        e = s.get("e") if s.get("k") == "semi" else s
        if not isinstance(e, dict) or e.get("k") != "if":
            continue
        ex = exits(e["then"])
        if not ex:
            continue
        kind = runlimit_kind(ex[0])
        tests[kind] = (i, strip(e["cond"]), e)
    where = f"{rb['file']}:{loops[0]['ln']}"

    def cmp_ok(c, left_pred, right_pred, name, key):
        if not (isinstance(c, dict) and c.get("k") == "binary"):
            ctx.fail("MONOTONE", name, key, "budget test is not a comparison", where)
            return False
        op = c["op"]
        a, b = strip(c["a"]), strip(c["b"])
        fwd = op in ("Ge", "Gt") and left_pred(a) and right_pred(b)
        rev = op in ("Le", "Lt") and left_pred(b) and right_pred(a)
        if op in ("Eq", "Ne"):
            ctx.fail("MONOTONE", name, key, f"budget test uses `{op}`: a counter that steps over the limit (limit 0, restored state above the limit) is never caught", f"{rb['file']}:{c['ln']}")
            return False
        if not (fwd or rev):
            ctx.fail("BACKEDGE", name, key, f"budget test does not compare the consumed quantity with its limit (op {op})", f"{rb['file']}:{c['ln']}")
            return False
        ctx.ok("MONOTONE", name, f"{rb['file']}:{c['ln']}", f"`{op}` between the consumed quantity and the limit")
        return True

    def field_of(n, base, field):
        n = strip(n)
        while isinstance(n, dict) and n.get("k") == "cast":
            n = strip(n["e"])
        return isinstance(n, dict) and n.get("k") == "field" and n.get("name") == field and is_local(strip(n["e"]), base)

    for kind, (lp, rp, desc) in {
        "TooManyIterations": (lambda n: is_local(n, "index"), lambda n: field_of(n, "limits", "max_iterations"), "iteration budget"),
        "TooManyFacts": (lambda n: n.get("k") == "mcall" and (n.get("def") or {}).get("path", "").endswith("FactSet::len") and field_of(n["recv"], "self", "facts"), lambda n: field_of(n, "limits", "max_facts"), "fact budget on the merged world"),
        "Timeout": (lambda n: is_local(n) and n["res"]["name"] in ("now",), lambda n: is_local(n, "time_limit"), "time budget"),
    }.items():
        if kind not in tests:
            ctx.fail("BACKEDGE", f"{desc} test in the loop", f"BACKEDGE|{kind}", f"no top-level `if .. {{ break Err(RunLimit::{kind}) }}` in the fixpoint loop", where)
            continue
        i, c, e = tests[kind]
        good_pos = i > idx_merge
        ctx.check(good_pos, "BACKEDGE", f"{desc} tested after the merge, before the next round", f"BACKEDGE|{kind}|position", f"RunLimit::{kind} test is evaluated before the new facts are merged", f"{rb['file']}:{e['ln']}")
        cmp_ok(c, lp, rp, f"{desc} comparison", f"MONOTONE|{kind}")
    # time_limit = start + limits.max_time
    tl = [s for s in find_all(rh["body"], lambda n: n.get("k") == "let" and n["pat"].get("name") == "time_limit")]
    ok = bool(tl) and tl[0].get("init") and find_all(tl[0]["init"], lambda n: n.get("k") == "field" and n.get("name") == "max_time")
    ctx.check(bool(ok), "BACKEDGE", "deadline = start + limits.max_time", "BACKEDGE|deadline", "time_limit is not derived from limits.max_time", where)
    # index is incremented exactly once per round before the iteration test
    inc = [i for i, s in enumerate(stmts) if (s.get("e") or {}).get("k") == "assignop" and s["e"]["op"] == "AddAssign" and is_local(strip(s["e"]["lhs"]), "index")]
    ctx.check(len(inc) == 1 and "TooManyIterations" in tests and idx_merge < inc[0] < tests["TooManyIterations"][0], "BACKEDGE", "round counter incremented before the iteration test", "BACKEDGE|index", "`index += 1` must sit between the merge and the iteration-budget test", where)

    # ---- ACCOUNT
    after = rh["body"]["stmts"]
    acc = [s for s in find_all(rh["body"], lambda n: n.get("k") in ("assign", "assignop") and field_of(n["lhs"], "self", "iterations"))]
    in_loop = [s for s in find_all(loops[0], lambda n: n.get("k") in ("assign", "assignop") and field_of(n["lhs"], "self", "iterations"))]
    uses_index = acc and find_all(acc[0]["rhs"], lambda n: is_local(n, "index"))
    conditional = acc and any(find_all(x, lambda n: n is acc[0]) for x in find_all(rh["body"], lambda n: n.get("k") in ("if", "match") and n.get("src") != "ForLoopDesugar"))
    ctx.check(len(acc) == 1 and not in_loop and bool(uses_index) and not conditional, "ACCOUNT", "World::iterations accumulates the rounds of every run", "ACCOUNT|iterations", "`self.iterations` must be increased by `index` once, after the loop, on every exit", f"{rb['file']}:{rb['line']}")
    for fn in ("query", "query_all", "authorize"):
        b = fb.body(f"{A}::{fn}")
        # remaining iterations: checked_sub whose None leads to an error return
        cs = mirq.calls_matching(fb, b, r"num::<impl u64>::checked_sub$")
        good = False
        for c in cs:
            la = mirq.operand_leaves(fb, b, c.args[0]) | mirq.operand_leaves(fb, b, c.args[1])
            good = good or (any("max_iterations" in l for l in la) and any("iterations" in l and "max_" not in l for l in la))
        ctx.check(good, "ACCOUNT", f"Authorizer::{fn}: remaining iterations = max_iterations checked_sub consumed", f"ACCOUNT|{fn}|iterations", "the remaining iteration budget is not computed with u64::checked_sub(limits.max_iterations, world.iterations)", f"{b['file']}:{b['line']}")
        if good:
            mirq.must_pass(fb, ctx, b, r"Option::<T>::ok_or$|num::<impl u64>::checked_sub$", "ACCOUNT", f"Authorizer::{fn}: exhausted iteration budget is an error", f"ACCOUNT|{fn}|iterations-err", what="delegation to *_with_limits")
        # remaining time: guarded subtraction
        h = fb.hir_of(b)
        guard = [n for n in find_all(h["body"], lambda n: n.get("k") == "if") if (lambda c: c.get("k") == "binary" and c.get("op") in ("Ge", "Gt") and is_local(strip(c["a"]), "execution_time") and field_of(c["b"], "limits", "max_time"))(strip(n["cond"])) and runlimit_kind(n["then"]) == "Timeout" and find_all(n["then"], lambda z: z.get("k") == "ret")]
        sub = [n for n in find_all(h["body"], lambda n: n.get("k") == "assignop" and n["op"] == "SubAssign" and field_of(n["lhs"], "limits", "max_time"))]
        order_ok = bool(guard) and bool(sub) and guard[0]["ln"] < sub[0]["ln"]
        ctx.check(order_ok, "ACCOUNT", f"Authorizer::{fn}: remaining time computed after the `>=` guard", f"ACCOUNT|{fn}|time", "`limits.max_time -= execution_time` must follow `if execution_time >= limits.max_time { return Err(Timeout) }`", f"{b['file']}:{b['line']}")
    for fn in ("query_with_limits", "query_all_with_limits", "authorize_with_limits"):
        b = fb.body(f"{A}::{fn}")
        # the value stored into self.execution_time depends on run()'s result and on elapsed()
        stores = [(i, s) for i, blk in enumerate(b["blocks"]) for s in blk["s"] if (s["d"].get("p") or []) and s["d"]["p"][-1] == ".execution_time"]
        if not stores:
            ctx.fail("ACCOUNT", f"Authorizer::{fn} records consumed time", f"ACCOUNT|{fn}|store", "self.execution_time is no longer updated", f"{b['file']}:{b['line']}")
            continue
        ok = False
        for i, s in stores:
            ops = s["r"].get("ops") or ([s["r"]["op"]] if s["r"].get("op") else [])
            leaves = set()
            for o in ops:
                leaves |= mirq.operand_leaves(fb, b, o)
            ok = ok or (any(l.endswith("Authorizer::run") for l in leaves) and any("elapsed" in l for l in leaves))
        ctx.check(ok, "ACCOUNT", f"Authorizer::{fn}: execution_time = earlier run time + this call's elapsed time", f"ACCOUNT|{fn}|sum", "the stored execution time no longer depends on both self.run()'s duration and start.elapsed(): time consumed earlier is forgotten", f"{b['file']}:{b['line']}")

    # ---- TIMECHECK in authorize_inner
    ab = fb.body(f"{A}::authorize_inner")
    ah = fb.hir_of(ab)
    fors = [l for l in find_all(ah["body"], lambda n: n.get("k") == "loop" and n.get("src") == "ForLoop")]
    inner = [l for l in fors if mcalls(l, r"World::query_match(_all)?$") and not any(mcalls(l2, r"World::query_match(_all)?$") for l2 in find_all(l["body"], lambda n: n.get("k") == "loop" and n.get("src") == "ForLoop"))]
    ctx.floor("query loops in authorize_inner", len(inner), 4)
    for n, l in enumerate(inner):
        t = [x for x in find_all(l, lambda z: z.get("k") == "if") if (lambda c: c.get("k") == "binary" and c.get("op") in ("Ge", "Gt") and is_local(strip(c["b"]), "time_limit"))(strip(x["cond"])) and runlimit_kind(x["then"]) == "Timeout" and find_all(x["then"], lambda z: z.get("k") == "ret")]
        qs = mcalls(l, r"World::query_match(_all)?$")
        after_q = bool(t) and t[0]["ln"] > max(q["ln"] for q in qs)
        ctx.check(after_q, "TIMECHECK", f"authorize_inner query loop #{n}", f"TIMECHECK|loop{n}", "no `if now >= time_limit { return Err(Timeout) }` after the query in this loop", f"{ab['file']}:{l['ln']}")
    tl2 = [s for s in find_all(ah["body"], lambda n: n.get("k") == "let" and n["pat"].get("name") == "time_limit")]
    ctx.check(bool(tl2) and bool(find_all(tl2[0]["init"], lambda n: n.get("k") == "field" and n.get("name") == "max_time")), "TIMECHECK", "authorize_inner deadline = start + limits.max_time", "TIMECHECK|deadline", "time_limit not derived from limits.max_time", f"{ab['file']}:{ab['line']}")

    # ---- REACH over the budget arithmetic
    ent = [fb.body(p)["key"] for p in (D + "::World::run_with_limits", f"{A}::query", f"{A}::query_all", f"{A}::authorize", f"{A}::authorize_with_limits", f"{A}::query_with_limits", f"{A}::query_all_with_limits", f"{A}::run")]
    keys = set(ent)
    reach.run(fb, ctx, ent, rule="REACH", exclude_fn=lambda b: b["key"] not in keys)
    ctx.not_decided = ["promptness inside one iteration (a single exponential join is not interruptible)", "wall-clock behaviour", "that queries (query_inner ignores its limits argument) respect the time budget: observation, the property's budgets are only enforced by run/authorize"]
    ctx.trusted = ["rustc resolution", "std::time semantics"]
