// K6 (C15): a P-256 signature (r, s) and its twin (r, n - s) both verify: a revoked token can be presented under a
// different revocation identifier.
use biscuit_auth::{builder::Algorithm, format::schema, *};
use p256::ecdsa::Signature;
use prost::Message;
fn main() {
    let root = KeyPair::new_with_algorithm(Algorithm::Secp256r1);
    let token = Biscuit::builder().fact("user(1)").unwrap().build(&root).unwrap();
    let bytes = token.to_vec().unwrap();
    let ids = token.revocation_identifiers();
    let mut proto = schema::Biscuit::decode(&bytes[..]).unwrap();
    let sig = Signature::from_der(&proto.authority.signature).unwrap();
    let (r, s) = sig.split_scalars();
    let twin = Signature::from_scalars(*r, -*s).unwrap();
    proto.authority.signature = twin.to_der().as_bytes().to_vec();
    let mut out = Vec::new();
    proto.encode(&mut out).unwrap();
    match Biscuit::from(&out, root.public()) {
        Ok(t2) => {
            let ids2 = t2.revocation_identifiers();
            println!("original id : {}", ids[0].iter().map(|b| format!("{:02x}", b)).collect::<String>());
            println!("twin id     : {}", ids2[0].iter().map(|b| format!("{:02x}", b)).collect::<String>());
            if ids2 != ids { println!("DEFECT the re-encoded token verifies under a different revocation identifier") } else { println!("OK same id"); std::process::exit(1) }
        }
        Err(e) => { println!("OK twin signature refused: {:?}", e); std::process::exit(1) }
    }
}
