// F3 (C20): fully bound items must convert without panicking, wherever the parameter sits.
use biscuit_auth::{builder::*, *};
use std::collections::HashMap;
fn try_block(name: &str, code: &str, params: HashMap<String, Term>) -> bool {
    let code = code.to_string();
    let r = std::panic::catch_unwind(move || {
        let root = KeyPair::new();
        let b = BiscuitBuilder::new().code_with_params(&code, params, HashMap::new());
        match b {
            Ok(b) => b.build(&root).map(|t| t.print_block_source(0).unwrap()).map_err(|e| format!("{:?}", e)),
            Err(e) => Err(format!("{:?}", e)),
        }
    });
    match r {
        Err(_) => { println!("{:36} PANIC", name); true }
        Ok(Ok(s)) => { println!("{:36} ok: {}", name, s.trim()); false }
        Ok(Err(e)) => { println!("{:36} error: {}", name, e); false }
    }
}
fn main() {
    let one = || { let mut m = HashMap::new(); m.insert("p".to_string(), Term::Integer(1)); m };
    let mut defect = false;
    defect |= try_block("nested in rule head", "r([{p}]) <- a(1);", one());
    defect |= try_block("nested in rule body", "r(1) <- a([{p}]);", one());
    defect |= try_block("nested in expression value", "check if [{p}].contains(1);", one());
    defect |= try_block("control: top-level in rule", "r({p}) <- a({p});", one());
    defect |= try_block("control: nested in fact", "f([{p}]);", one());
    let mut b = HashMap::new(); b.insert("p".to_string(), Term::Bool(true));
    let k = try_block("map key bound to a bool (known)", "f({{p}: 1});", b);
    println!("map-key case panics: {}", k);
    if defect { println!("DEFECT fully bound item panics with `Remaining parameter`") } else { println!("OK"); std::process::exit(1) }
}
