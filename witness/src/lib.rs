//! Compile-fail witnesses for C01: a `Biscuit` value can only come out of signature verification (or of building with the root key).

/// W1 twin - the verifying constructor compiles.
/// ```no_run
/// fn f(bytes: &[u8], root: biscuit_auth::PublicKey) -> Result<biscuit_auth::Biscuit, biscuit_auth::error::Token> {
///     biscuit_auth::Biscuit::from(bytes, root)
/// }
/// ```
/// W1 - the crate-private converter from an already parsed container cannot be called from outside: a caller cannot skip `verify`.
/// ```compile_fail,E0624
/// fn f(c: biscuit_auth::format::SerializedBiscuit) {
///     let _ = biscuit_auth::Biscuit::from_serialized_container(c);
/// }
/// ```
pub struct W1;

/// W2 twin - reading a field through the accessor compiles.
/// ```no_run
/// fn f(b: &biscuit_auth::Biscuit) -> Option<u32> { b.root_key_id() }
/// ```
/// W2 - the fields of `Biscuit` are private: no struct literal, no functional update from outside the crate.
/// ```compile_fail,E0616
/// fn f(b: &biscuit_auth::Biscuit) -> Option<u32> { b.root_key_id }
/// ```
pub struct W2;

/// W3 twin - a verified token gives an authorizer.
/// ```no_run
/// fn f(b: &biscuit_auth::Biscuit) { let _ = b.authorizer(); }
/// ```
/// W3 - an unverified token offers no way to authorize: `authorizer` exists only on `Biscuit`.
/// ```compile_fail,E0599
/// fn f(b: &biscuit_auth::UnverifiedBiscuit) { let _ = b.authorizer(); }
/// ```
pub struct W3;

/// W4 twin - the checked conversion takes a key (provider).
/// ```no_run
/// fn f(u: biscuit_auth::UnverifiedBiscuit, root: biscuit_auth::PublicKey) -> Result<biscuit_auth::Biscuit, biscuit_auth::error::Format> { u.verify(root) }
/// ```
/// W4 - there is no key-less conversion from `UnverifiedBiscuit` to `Biscuit` (`From` / `Into` is not implemented).
/// ```compile_fail,E0277
/// fn f(u: biscuit_auth::UnverifiedBiscuit) -> biscuit_auth::Biscuit { u.into() }
/// ```
pub struct W4;
