"""C05 — Datalog evaluation computes the least fixpoint with exact provenance (structural necessary conditions)."""
import re
import hirq, mirq
from facts import CheckerError, find_all, walk

D = "biscuit_auth::datalog"
TERM = D + "::Term"


def mcalls(node, regex):
    return hirq.call_nodes(node, regex)


def is_local(n, name=None):
    return isinstance(n, dict) and n.get("k") == "path" and n["res"].get("dk") == "Local" and (name is None or n["res"]["name"] == name)


def strip(n):
    """look through &, *, blocks, parens-like wrappers"""
    while isinstance(n, dict):
        if n.get("k") in ("addr", "use"):
            n = n["e"]
        elif n.get("k") == "unary" and n.get("op") == "Deref":
            n = n["a"]
        elif n.get("k") == "block" and not n.get("stmts") and n.get("expr") is not None:
            n = n["expr"]
        else:
            break
    return n


class _Filter:
    """Forward only the selected rule families to the real context (used when another property shares these rules)."""

    def __init__(self, ctx, only):
        self._c, self._only = ctx, only

    def _on(self, rule):
        return self._only is None or rule in self._only

    def ok(self, rule, *a, **k):
        if self._on(rule):
            self._c.ok(rule, *a, **k)

    def fail(self, rule, *a, **k):
        if self._on(rule):
            self._c.fail(rule, *a, **k)

    def check(self, cond, rule, *a, **k):
        if self._on(rule):
            return self._c.check(cond, rule, *a, **k)
        return cond

    def floor(self, *a, **k):
        return self._c.floor(*a, **k)

    def __getattr__(self, n):
        return getattr(self._c, n)



def match_by_evaluation(fb, ctx, b, h, tv):
    """EVAL: the closure of match_preds that compares one rule term with one fact term, interpreted for every pair of Term variants
    with equal and with different payloads: a variable in the fact never matches, a variable in the rule matches anything, equal
    variants match iff their payloads are equal, different variants never match. Any shape (tuple match, nested matches, matches!)."""
    import absint
    cls = [c for c in find_all(h["body"], lambda z: z.get("k") == "closure" and len(z.get("params") or []) == 1)]
    cls = [c for c in cls if c["params"][0].get("k") == "tuple" and len(c["params"][0]["pats"]) == 2]
    if len(cls) != 1:
        return False
    cl = cls[0]
    adt = fb.adt(TERM)
    arity = {v["name"]: len(v["fields"]) for v in adt["variants"]}
    names = [v.split("::")[-1] for v in tv]
    bad, cells = {}, 0
    try:
        for l in names:
            for r in names:
                for same in ((True, False) if (l == r and arity[l]) else (True,)):
                    lv = absint.C(l, *([1] * arity[l]))
                    rv = absint.C(r, *([1 if same else 2] * arity[r]))
                    env = {}
                    it = absint.Interp()
                    if not it.bind(cl["params"][0], ("T", [lv, rv]), env):
                        return False
                    got = it.run(cl["body"], env)
                    want = False if r == "Variable" else True if l == "Variable" else (l == r and same)
                    cells += 1
                    if got is not want:
                        bad.setdefault(l, []).append((l, r, "equal payloads" if same else "different payloads", got))
    except absint.Unknown:
        return False
    for l in names:
        ctx.check(l not in bad, "MATCH", f"match_preds row Term::{l}", f"MATCH|{l}", f"wrong matching result for (rule term, fact term) cells {bad.get(l, [])[:4]}", f"{b['file']}:{cl.get('ln', b['line'])}")
    return True

def json_ty(let_node):
    """type text of the value a `let` destructures, as far as the HIR-lite records it (scrutinee type of the `?` match inside)"""
    tys = [z.get("sty") or "" for z in find_all(let_node.get("init") or {}, lambda z: z.get("k") == "match")]
    return " ".join(tys) + " (datalog::origin::Origin, datalog::Fact)" if any("datalog::origin::Origin, datalog::Fact" in t for t in tys) else " ".join(tys)


def check(fb, ctx):
    ctx.explanation = (
        "MATCH: the matcher of a rule predicate against a fact (match_preds) is a table over every pair of Term variants: "
        "equal variants compare their payloads with ==, a variable in the rule matches anything, a variable in the fact or two "
        "different variants never match; name and arity are compared first. UNIFY: the boolean of MatchedVariables::insert "
        "controls the join loop and insert itself is bind-or-compare. HEAD: an unbound head variable returns no fact. "
        "FIXPOINT: the loop of World::run_with_limits leaves with Ok only when a merge added no (origin, fact) pair, counted by "
        "FactSet::len as the sum of the per-origin set sizes; derived facts are inserted unconditionally. PROVENANCE: a derived "
        "fact's origin is the matched origin plus the rule's block; joins union origins."
    )
    shared_rules(fb, ctx, "C05")
    # strings compare by index: a derivation that computes a string must find the index the same string already has
    from props import c06
    c06.symbol_lookup_rules(fb, ctx, "INTERN")
    ctx.not_decided = ["that the computed set equals the least fixpoint for every program (semantic)", "completeness of the join iterator beyond the unification rule", "insertion-order independence"]
    ctx.trusted = ["rustc pattern resolution", "std HashSet/HashMap semantics"]


def shared_rules(fb, ctx, pid, only=None):
    ctx = _Filter(ctx, only)
    tv = [f"{TERM}::{v}" for v in fb.variants(TERM)]
    ctx.floor("datalog::Term variants", len(tv), 10)

    # ---- MATCH
    b = fb.body(D + "::match_preds")
    h = fb.hir_of(b)
    ms = [m for m in hirq.matches_in(h["body"]) if (m.get("sty") or "").replace(" ", "") == "(&datalog::Term,&datalog::Term)"]
    if match_by_evaluation(fb, ctx, b, h, tv):
        ms = None
    elif len(ms) != 1:
        raise CheckerError("anchor: term-pair match in match_preds not found")
    m = ms[0] if ms else None
    tab = hirq.cell_table(m, [tv, tv]) if m is not None else {}
    VAR = TERM + "::Variable"

    def arm_kind(arm):
        body = strip(arm["body"])
        lit = hirq.literal(body)
        if lit is not None:
            return ("const", lit)
        if isinstance(body, dict) and body.get("k") == "binary" and body.get("op") == "Eq":
            binds = hirq.bindings(arm["pat"])
            a, bb = strip(body["a"]), strip(body["b"])
            if is_local(a) and is_local(bb) and a["res"]["name"] != bb["res"]["name"] and {a["res"]["name"], bb["res"]["name"]} <= set(binds):
                return ("eq",)
        return ("other",)

    bad = []
    for l in (tv if m is not None else []):
        for r in tv:
            i = tab.get((l, r))
            kind = arm_kind(m["arms"][i]) if i is not None else ("none",)
            if r == VAR:
                want = [("const", False)]
            elif l == VAR:
                want = [("const", True)]
            elif l == r:
                want = [("eq",)] + ([("const", True)] if not fb.adt(TERM)["variants"][tv.index(l)]["fields"] else [])
            else:
                want = [("const", False)]
            if kind not in want:
                bad.append((l.split("::")[-1], r.split("::")[-1], kind))
    for v in (tv if m is not None else []):
        sv = v.split("::")[-1]
        mine = [x for x in bad if x[0] == sv]
        ctx.check(not mine, "MATCH", f"match_preds row Term::{sv}", f"MATCH|{sv}", f"wrong matching result for (rule term, fact term) cells {mine[:4]}", f"{b['file']}:{m['ln']}")
    # name and arity
    eqs = find_all(h["body"], lambda n: n.get("k") == "binary" and n.get("op") == "Eq")
    name_eq = any(strip(e["a"]).get("k") == "field" and strip(e["a"]).get("name") == "name" and strip(e["b"]).get("name") == "name" for e in eqs)
    len_eq = any(hirq.calls(e["a"], r"::len$") and hirq.calls(e["b"], r"::len$") for e in eqs)
    ctx.check(name_eq and len_eq, "MATCH", "match_preds compares name and arity", "MATCH|name-arity", "predicate name or number of terms is no longer compared", f"{b['file']}:{b['line']}")

    # ---- UNIFY
    nb = fb.body("<datalog::CombineIt<'a, IT> as std::iter::Iterator>::next")
    ins = mirq.calls_matching(fb, nb, r"datalog::MatchedVariables::insert$")
    owner_ = nb
    if not ins:
        # `.all(|(key, id)| match key { Variable(k) => vars.insert(*k, id), _ => true })`: the call sits in a closure of next; its
        # boolean must then be the closure's result (the adaptor consumes it) - `returned` in the closure body
        for cb in mirq.created_closures(fb, nb):          # also closures of a new helper that was inlined into next
            cins = mirq.calls_matching(fb, cb, r"datalog::MatchedVariables::insert$")
            if cins:
                ins, owner_ = cins, cb
    if len(ins) != 1:
        ctx.fail("UNIFY", "CombineIt::next unifies through MatchedVariables::insert", "UNIFY|call", f"expected one call to MatchedVariables::insert in CombineIt::next, found {len(ins)}: variables are bound without the bind-or-compare step", f"{nb['file']}:{nb['line']}")
    else:
        mirq.result_used(fb, ctx, owner_, ins[0], "UNIFY", "result of vars.insert() decides whether the fact matches", "UNIFY|used")
    ib = fb.body(D + "::MatchedVariables::insert")
    ih = fb.hir_of(ib)
    im = [x for x in hirq.matches_in(ih["body"]) if "Option<&std::option::Option<datalog::Term>>" in (x.get("sty") or "")]
    if len(im) != 1:
        raise CheckerError("anchor: match in MatchedVariables::insert")
    kinds = {}
    for arm in im[0]["arms"]:
        p = arm["pat"]
        vs = hirq.pat_variants(p)
        sub = hirq.subpatterns(p)
        body = strip(arm["body"])
        if any((v or "").endswith("::None") for v in vs) and not sub:
            kinds["unknown-key"] = hirq.literal(body)
        elif sub and any((v or "").endswith("::None") for v in hirq.pat_variants(sub[0])):
            t = hirq.tail(arm["body"])
            kinds["unbound"] = (bool(hirq.calls(arm["body"], r"HashMap::<K, V, S, A>::insert$")), hirq.literal(t))
        elif sub and any((v or "").endswith("::Some") for v in hirq.pat_variants(sub[0])):
            kinds["bound"] = isinstance(body, dict) and body.get("k") == "binary" and body.get("op") == "Eq" and {strip(body["a"]).get("res", {}).get("name"), strip(body["b"]).get("res", {}).get("name")} >= {"value"}
    ctx.check(kinds.get("unknown-key") is False and kinds.get("unbound") == (True, True) and kinds.get("bound") is True, "UNIFY", "MatchedVariables::insert is bind-or-compare", "UNIFY|insert-table",
              f"arms must be: unknown key -> false, unbound -> store and true, bound -> value == stored; found {kinds}", f"{ib['file']}:{ib['line']}")

    # ---- HEAD
    ab = fb.body(D + "::Rule::apply")
    ah = fb.hir_of(ab)
    hm = [x for x in hirq.matches_in(ah["body"]) if hirq.calls(x["scrut"], r"HashMap::<K, V, S>::get$|HashMap::<K, V, S, A>::get$")]
    ok = False
    for x in hm:
        for arm in x["arms"]:
            if any((v or "").endswith("::None") for v in hirq.pat_variants(arm["pat"])):
                rets = find_all(arm["body"], lambda n: n.get("k") == "ret")
                makes_fact = find_all(arm["body"], lambda n: (hirq.ctor_name(n) or "").endswith("datalog::Fact"))
                if rets and all((hirq.ctor_name(strip(r.get("e"))) or "").endswith("::None") for r in rets) and not makes_fact:
                    ok = True
    ctx.check(ok, "HEAD", "unbound head variable yields no fact", "HEAD|Rule::apply", "the `variable not bound by the body` arm of Rule::apply no longer returns None", f"{ab['file']}:{ab['line']}")

    # ---- FIXPOINT
    rb = fb.body(D + "::World::run_with_limits")
    rh = fb.hir_of(rb)
    loops = [l for l in find_all(rh["body"], lambda n: n.get("k") == "loop") if l.get("src") == "Loop"]
    if len(loops) != 1:
        raise CheckerError("anchor: main loop of run_with_limits")
    stmts = loops[0]["body"]["stmts"] + ([loops[0]["body"]["expr"]] if loops[0]["body"].get("expr") else [])
    idx_len = idx_merge = idx_if = None
    len_lets = {}     # binding id -> statement index, for `let x = <facts>.len()`
    for i, s in enumerate(stmts):
        e = s.get("e") if s.get("k") == "semi" else s
        if isinstance(e, dict) and e.get("k") == "mcall" and (e.get("def") or {}).get("path", "").endswith("FactSet::merge"):
            idx_merge = i
        if s.get("k") == "let" and s.get("init") and mcalls(s["init"], r"datalog::FactSet::len$") and strip(s["init"]).get("k") == "mcall" and isinstance(s.get("pat"), dict) and s["pat"].get("k") == "bind":
            len_lets[s["pat"]["id"]] = i
    pre_ids = {i_ for i_, n_ in len_lets.items() if idx_merge is not None and n_ < idx_merge}
    post_ids = {i_ for i_, n_ in len_lets.items() if idx_merge is not None and n_ > idx_merge}
    idx_len = min((len_lets[i_] for i_ in pre_ids), default=None)
    for i, s in enumerate(stmts):
        e = s.get("e") if s.get("k") == "semi" else s
        if isinstance(e, dict) and e.get("k") == "mcall" and (e.get("def") or {}).get("path", "").endswith("FactSet::merge"):
            idx_merge = i
        if isinstance(e, dict) and e.get("k") == "if":
            brk = [x for x in find_all(e["then"], lambda n: n.get("k") == "break") if (hirq.ctor_name(strip(x.get("e"))) or "").endswith("::Ok")]
            if brk:
                c = strip(e["cond"])
                post = lambda z: bool(mcalls(z, r"FactSet::len$")) or hirq.is_lid(strip(z), post_ids)      # the size after the merge
                # the test may be computed into a variable first and negated (`let grew = facts.len() != len; if !grew`): follow
                # immutable `let`s and `!` down to the comparison; "good" = the branch is taken exactly when the sizes are equal
                bool_lets = {l_["pat"]["id"]: l_["init"] for l_ in find_all(loops[0], lambda z: z.get("k") == "let" and isinstance(z.get("pat"), dict) and z["pat"].get("k") == "bind" and "Mut" not in str(z["pat"].get("mode", "")) and z.get("init") is not None)}
                equal, hops = True, 0
                while hops < 8:
                    hops += 1
                    if c.get("k") == "unary" and c.get("op") == "Not":
                        equal, c = not equal, strip(c["a"])
                    elif c.get("k") == "path" and c.get("res", {}).get("dk") == "Local" and c["res"].get("id") in bool_lets and c["res"]["id"] not in pre_ids | post_ids:
                        c = strip(bool_lets[c["res"]["id"]])
                    else:
                        break
                good = c.get("k") == "binary" and c.get("op") == ("Eq" if equal else "Ne") and ((post(c["a"]) and hirq.is_lid(strip(c["b"]), pre_ids)) or (post(c["b"]) and hirq.is_lid(strip(c["a"]), pre_ids)))
                idx_if = i if good else -1
    all_ok_breaks = [x for x in find_all(loops[0], lambda n: n.get("k") == "break") if (hirq.ctor_name(strip(x.get("e"))) or "").endswith("::Ok")]
    ctx.check(idx_len is not None and idx_merge is not None and idx_if not in (None, -1) and idx_len < idx_merge < idx_if and len(all_ok_breaks) == 1, "FIXPOINT", "loop leaves with Ok only when merge added nothing", "FIXPOINT|exit",
              "expected `let len = facts.len(); facts.merge(new); if facts.len() == len { break Ok(()) }` as the only Ok exit", f"{rb['file']}:{loops[0]['ln']}")
    # FactSet::len counts (origin, fact) pairs
    lb = fb.body(D + "::FactSet::len")
    lh = fb.hir_of(lb)
    cs = hirq.callee_paths(lh["body"])
    sums = any(re.search(r"Iterator>::(fold|sum)$|Iterator::(fold|sum)$", c) for c in cs) and any(re.search(r"HashSet::<T, S(, A)?>::len$", c) for c in cs) and any(c.endswith("HashMap::<K, V, S, A>::values") or c.endswith("::values") for c in cs)
    dedup = [c for c in cs if re.search(r"::(collect|flatten|flat_map|dedup|from_iter|unique)$", c)]
    ctx.check(sums and not dedup, "FIXPOINT", "FactSet::len sums the per-origin set sizes", "FIXPOINT|len", f"FactSet::len must add up HashSet::len over inner.values() (found {[hirq.short(c) for c in cs]})", f"{lb['file']}:{lb['line']}")
    # derived facts inserted unconditionally
    resm = [x for x in hirq.matches_in(loops[0]) if any((v or "").endswith("::Ok") for a in x["arms"] for v in hirq.pat_variants(a["pat"])) and "Result<(datalog::origin::Origin, datalog::Fact)" in (x.get("sty") or "")]
    ok = False
    for x in resm:
        for arm in x["arms"]:
            if any((v or "").endswith("::Ok") for v in hirq.pat_variants(arm["pat"])):
                body = arm["body"]
                top = (body.get("stmts", []) + [body.get("expr")]) if body.get("k") == "block" else [body]
                for s in top:
                    e = s.get("e") if isinstance(s, dict) and s.get("k") == "semi" else s
                    e = strip(e) if e else e
                    if isinstance(e, dict) and e.get("k") == "mcall" and (e.get("def") or {}).get("path", "").endswith("FactSet::insert"):
                        binds = hirq.bindings(arm["pat"])
                        args_ok = len(e["args"]) == 2 and is_local(strip(e["args"][0])) and is_local(strip(e["args"][1])) and {strip(e["args"][0])["res"]["name"], strip(e["args"][1])["res"]["name"]} <= set(binds)
                        ok = ok or args_ok
    if not ok:
        # equivalent form: `let (origin, fact) = res.map_err(..)?; new_facts.insert(&origin, fact);` - the error leaves through `?`,
        # the insertion is the next unconditional statement of the same block
        for blk in find_all(loops[0], lambda z: z.get("k") == "block" and z.get("stmts")):
            st = blk["stmts"] + ([blk["expr"]] if blk.get("expr") else [])
            for i_, s_ in enumerate(st):
                if isinstance(s_, dict) and s_.get("k") == "let" and isinstance(s_.get("pat"), dict) and s_["pat"].get("k") == "tuple" and len(s_["pat"]["pats"]) == 2 and all(q.get("k") == "bind" for q in s_["pat"]["pats"]) and s_.get("init") is not None and find_all(s_["init"], lambda z: z.get("k") == "match" and str(z.get("src", "")).startswith("TryDesugar")) and "(datalog::origin::Origin, datalog::Fact)" in json_ty(s_):
                    ids_ = [q["id"] for q in s_["pat"]["pats"]]
                    for nxt in st[i_ + 1:]:
                        e = nxt.get("e") if isinstance(nxt, dict) and nxt.get("k") == "semi" else nxt
                        e = strip(e) if e else e
                        if isinstance(e, dict) and e.get("k") == "mcall" and (e.get("def") or {}).get("path", "").endswith("FactSet::insert") and len(e["args"]) == 2 and hirq.is_lid(strip(e["args"][0]), {ids_[0]}) and hirq.is_lid(strip(e["args"][1]), {ids_[1]}):
                            ok = True
    ctx.check(ok, "FIXPOINT", "every derived (origin, fact) is inserted", "FIXPOINT|insert", "the Ok arm of the rule-application loop must call new_facts.insert(&origin, fact) unconditionally with the derived origin", f"{rb['file']}:{rb['line']}")

    # ---- PROVENANCE
    oi = mcalls(ah["body"], r"datalog::origin::Origin::insert$")
    p_rule_origin = hirq.param_ids(ah, 2)      # apply(&self, facts, rule_origin, ..): positional
    good = [n for n in oi if is_local(strip(n["recv"])) and n["args"] and hirq.is_lid(strip(n["args"][0]), p_rule_origin)]
    ctx.check(len(good) == 1, "PROVENANCE", "derived origin includes the rule's block", "PROVENANCE|apply", "Rule::apply must call origin.insert(rule_origin) before emitting the fact", f"{ab['file']}:{ab['line']}")
    # the insert precedes the Some(Ok((origin, Fact{..}))) in the same statement list
    if good:
        blocks = find_all(ah["body"], lambda n: n.get("k") == "block" and any((s.get("e") if s.get("k") == "semi" else s) is good[0] or strip(s.get("e") if s.get("k") == "semi" else s) is good[0] for s in n.get("stmts", [])))
        emits = blocks and blocks[0].get("expr") and (hirq.ctor_name(strip(blocks[0]["expr"])) or "").endswith("::Some") and find_all(blocks[0]["expr"], lambda n: hirq.is_lid(n, {strip(good[0]["recv"])["res"]["id"]})) and find_all(blocks[0]["expr"], lambda n: (hirq.ctor_name(n) or "").endswith("datalog::Fact"))
        ctx.check(bool(emits), "PROVENANCE", "the fact is emitted with that origin", "PROVENANCE|apply-emit", "origin.insert(rule_origin) is not followed by Some(Ok((origin, Fact{..}))) in the same block", f"{ab['file']}:{good[0]['ln']}")
    nh = fb.hir_of(nb)
    un = mcalls(nh["body"], r"datalog::origin::Origin::union$")
    # the origin of the fact matched for the first predicate: first binding of `if let Some((o, f)) = self.current_facts.next()`
    cur = set()
    for le in find_all(nh["body"], lambda z: z.get("k") == "letexpr" and strip(z["init"]).get("k") == "mcall" and strip(z["init"]).get("name") == "next" and find_all(strip(z["init"])["recv"], lambda y: y.get("k") == "field" and y.get("name") == "current_facts")):
        bs = find_all(le["pat"], lambda z: z.get("k") == "bind")
        if len(bs) == 2:
            cur.add(bs[0]["id"])
    ctx.check(len(cur) == 1, "PROVENANCE", "CombineIt::next binds (origin, fact) of the matched fact", "PROVENANCE|anchor", "`if let Some((origin, fact)) = self.current_facts.next()` not found", f"{nb['file']}:{nb['line']}")
    ctx.check(any((is_local(strip(u["recv"])) and hirq.is_lid(strip(u["args"][0]), cur)) or (hirq.is_lid(strip(u["recv"]), cur) and is_local(strip(u["args"][0]))) for u in un), "PROVENANCE", "join unions the origins of the matched facts", "PROVENANCE|union", "CombineIt::next must return origin.union(current_origin) for multi-predicate bodies", f"{nb['file']}:{nb['line']}")
    single = [n for n in find_all(nh["body"], lambda n: n.get("k") == "ret") if find_all(n, lambda z: z.get("k") == "mcall" and z.get("name") == "clone" and hirq.is_lid(strip(z["recv"]), cur))]
    ctx.check(bool(single), "PROVENANCE", "single predicate returns the fact's own origin", "PROVENANCE|single", "the one-predicate case must return current_origin.clone()", f"{nb['file']}:{nb['line']}")
    # Origin::union really is the union: every value it returns depends on BOTH operands (a fast path returning one side is only
    # right when that side is the superset - confusing the two sides silently drops block ids from a derived fact's provenance)
    ub = fb.body("biscuit_auth::datalog::origin::Origin::union")
    rets = mirq.value_return_blocks(ub)
    bad = []
    for (i, kind, item) in rets:
        ops = item["a"] if kind == "call" else ([item["r"].get("op")] if item["r"].get("k") in ("use", "cast") else item["r"].get("ops", []))
        lv = set()
        for o in ops:
            if isinstance(o, dict):
                lv |= mirq.leaves_at(fb, ub, o, i)
        if len(rets) == 1:
            # a single exit: mutation through `&mut` (`inner.extend(other..)`) is only visible to the flow-insensitive analysis
            for o in ops:
                if isinstance(o, dict):
                    lv |= mirq.operand_leaves(fb, ub, o)
        has1, has2 = any(x.startswith("arg1") for x in lv), any(x.startswith("arg2") for x in lv)
        if has1 and has2:
            continue
        # a one-sided return is right exactly under `<that side>.is_superset(<the other side>)`
        side, other_ = ("arg1", "arg2") if has1 else ("arg2", "arg1")
        justified = False
        for c in mirq.calls_matching(fb, ub, r"::is_superset$"):
            l0 = mirq.operand_leaves(fb, ub, c.args[0]); l1 = mirq.operand_leaves(fb, ub, c.args[1])
            if any(x.startswith(side) for x in l0) and not any(x.startswith(other_) for x in l0) and any(x.startswith(other_) for x in l1) and not any(x.startswith(side) for x in l1) and c.dest is not None:
                for br in mirq._follow_bool(fb, ub, c.dest["l"], positive=True):
                    if br[2] is not None and mirq.dominates(ub, br[2], i) and mirq._edge_only(ub, br[1], br[2]):
                        justified = True
        if not justified:
            bad.append((i, sorted(x for x in lv if x.startswith("arg"))))
    ctx.check(bool(rets) and not bad, "PROVENANCE", "Origin::union: every returned origin depends on both operands", "PROVENANCE|Origin::union", f"a return of Origin::union depends only on {bad[0][1] if bad else '?'}: block ids of the other operand are dropped from the derived fact's origin", f"{ub['file']}:{ub['line']}")
    # run_with_limits passes the stored rule origin
    ap = mcalls(rh["body"], r"datalog::Rule::apply$")
    pair_ok = False
    if len(ap) == 1 and len(ap[0]["args"]) >= 2 and is_local(strip(ap[0]["recv"])) and is_local(strip(ap[0]["args"][1])):
        r_id, o_id = strip(ap[0]["recv"])["res"]["id"], strip(ap[0]["args"][1])["res"]["id"]
        for t in find_all(rh["body"], lambda z: z.get("k") == "tuple" and len(z.get("pats", [])) == 2 and all(q.get("k") == "bind" for q in z["pats"])):
            pair_ok = pair_ok or (t["pats"][0]["id"] == o_id and t["pats"][1]["id"] == r_id)
    ctx.check(pair_ok, "PROVENANCE", "rules are applied with their own block id", "PROVENANCE|run", "World::run_with_limits must pass the (origin, rule) pair's origin to Rule::apply", f"{rb['file']}:{rb['line']}")


    # ---- STORE: the fact store keeps every (origin, fact) pair it is given
    for fn, inner_call in ((D + "::FactSet::merge", r"Extend<T>>::extend$|::extend$"), (D + "::FactSet::insert", r"HashSet::<T, S(, A)?>::insert$")):
        sb = fb.body(fn)
        shh = fb.hir_of(sb)
        cs = hirq.callee_paths(shh["body"])
        has_entry = any(c.endswith("HashMap::<K, V, S, A>::entry") for c in cs) or any(c.endswith("::get_mut") for c in cs)
        has_add = any(re.search(inner_call, c) for c in cs)
        cond = find_all(shh["body"], lambda n: n.get("k") in ("continue", "ret")) + [c for c in cs if re.search(r"::(retain|filter|filter_map|take_while|skip_while|contains|any)$", c)]
        ctx.check(has_entry and has_add and not (cond and fn.endswith("merge")), "STORE", f"{fn.split('::')[-1]} keeps every (origin, fact) pair", f"STORE|{fn}",
                  f"{fn} must add all given facts under their own origin without filtering (calls: {[hirq.short(c) for c in cs][:8]})", f"{sb['file']}:{sb['line']}")
