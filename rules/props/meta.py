"""Per-property manifest metadata (what is decided, what is not). Used by bin/mkmanifest.py."""
META = {
 "C09": {
  "technique": "static analysis: call-graph reachability of panic sources over MIR with a zones (difference-bound) guard analysis, SCC recursion classification, HIR match-table rule for fail-closed decoding",
  "text": "Decides a structural necessary condition of C09 for every input at once: no panic source (compiler Assert or catalogued panicking callee) is reachable from any public function of biscuit_auth/biscuit_parser unless a dominating guard proves it safe or it is allow-listed with a reason; every recursive cycle of the call graph is classified; decode matches fail closed. It does not decide termination or panics inside dependencies.",
  "note": "Trusted: rustc name/type resolution and MIR; the panic-source catalogue; allow-list reasons in tables/panic_sites.json (read by hand); prost decode depth limit 100. Not decided: hangs, dependency-internal panics.",
  "design_ref": "DESIGN.md §3 C09",
 },

 "C06": {
  "technique": "static analysis: HIR match-table expansion of the operator dispatch (first-match cell table over all enum variants) compared with a specification oracle; panic-source reachability (MIR) from Expression::evaluate; dominance rule for the shadowing test; structural rules for checked arithmetic, laziness, stack discipline and idempotent interning",
  "text": "Decides, for all operation sequences and operands at once, the structural part of C06: which (operator, left type, right type) cells are accepted (must equal the specification table), that everything else reaches Err(InvalidType), that integer +,-,*,/ go through checked_* and no compiler arithmetic check remains, that short-circuit arms do not evaluate the closure, that closures are evaluated only after the shadowing test, that every stack pop has an InvalidStack default, and that no panic source is reachable from evaluation. It does not decide the value each operator returns.",
  "note": "Trusted: oracle/operator_typing.json (from the specification), rustc pattern/type resolution, panic catalogue. Not decided: returned values, regex cost, user extern functions.",
  "design_ref": "DESIGN.md §3 C06",
 },
 "C05": {
  "technique": "static analysis: HIR match-table rule for the fact matcher over all Term variant pairs; MIR def-use rule for the unification result; structural rules on the fixpoint loop (exit condition, unconditional insertion, fact counting, merge) and provenance wiring",
  "text": "Decides structural necessary conditions of C05 that hold for all programs: the predicate/fact matcher compares every term type by value (a missing or constant arm for one type is a violation), unification is bind-or-compare and its result gates the join, an unbound head variable yields nothing, the fixpoint loop can only succeed when a round added no (origin, fact) pair (FactSet::len counts pairs, merge/insert keep every pair), derived facts carry matched origin + rule block. It does not decide equality with the least fixpoint.",
  "note": "Trusted: rustc resolution, std collections. Not decided: semantic completeness of the join iterator, order independence (see C11).",
  "design_ref": "DESIGN.md §3 C05",
 },

 "C10": {
  "technique": "static analysis: structural rules over the HIR of the fixpoint loop and the authorizer entry points (position and operator of each budget test, accounting assignments), may-depend analysis over MIR for the stored execution time, reachability of unchecked budget arithmetic",
  "text": "Decides structural necessary conditions of C10 for all programs and limit triples: each round of the fixpoint loop that added facts passes an iteration, a fact (on the merged world) and a time test with >=/> before the next round; consumed iterations are accumulated on every exit; authorize/query/query_all compute remaining budgets with checked subtraction / guarded subtraction; *_with_limits store earlier time + own time; every query loop of authorize_inner tests the deadline. It does not decide promptness inside one iteration or wall-clock behaviour.",
  "note": "Trusted: rustc resolution, std::time. The rules are tied to the current shape of the loop (tests as top-level statements of the loop body); a refactoring that moves them into a helper needs the rule re-anchored.",
  "design_ref": "DESIGN.md §3 C10",
 },
 "C11": {
  "technique": "static analysis: type-directed detection of hash-ordered iterators in MIR (revealed local types) and CFG classification of their consumers (first-element reads, loop early exits and their returned constants, collect into Result); shared fixpoint-structure rules",
  "text": "Decides, for every token/authorizer and every hash seed at once, whether any code on the run/authorize/query path can observe the iteration order of a HashMap/HashSet: every consumer of a hash-ordered iterator is classified as order-insensitive (exhaustive loop, single-constant early exit, set/map collect, commutative fold) or order-sensitive. Six order-sensitive consumers exist on the pinned tree and are reported as known findings (each demonstrated); any further one is a violation.",
  "note": "Trusted: MIR reveals opaque iterator types; classification table in rules/order.py. Not decided: user extern functions, time limits, order of returned Vecs (treated as sets). Exhaustive loops are assumed to have order-independent bodies except for the fact-store rules shared with C05.",
  "design_ref": "DESIGN.md §3 C11",
 },

 "C01": {
  "technique": "static analysis: abstract evaluation of the payload generators over MIR into a token sequence compared with a specification oracle; dominance / edge-cut rules (PASS) for the chain walk and proof check; positional may-depend analysis (WIRE) of call arguments; HIR match-table rules for version dispatch and decode gates; who-may-construct rule for the verified token type",
  "text": "Decides, for every token and every mutation at once, structural necessary conditions of verification soundness: the signed byte layout of each of the 7 payload generators equals the specification (every input bound, in order, with tags and widths); sign/verify dispatch by version with Err default; verify_inner cannot return Ok without the authority check under the root key, a successful verify_block_signature on every loop iteration with the previous block's next key and signature, and a successful proof check; strict ed25519 over exactly 64 bytes; decode gates; a Biscuit is only built from a verified container. It does not decide cryptographic unforgeability.",
  "note": "Trusted: oracle/signature_layout.json (written from the specification), ed25519-dalek / p256 primitives, rustc MIR. Not decided: security of the signature schemes, protobuf canonicity, user RootKeyProvider.",
  "design_ref": "DESIGN.md §3 C01",
 },
 "C02": {
  "technique": "static analysis: symbolic comparison (MIR def-chains) of the values signed with the values stored, signer/verifier generator agreement, layout-vs-specification oracle, writer/reader field coverage by may-depend analysis",
  "text": "Decides structural necessary conditions of completeness and of interoperable signing for all operation sequences: what is stored in each new block is exactly what was signed (payload, next key, version, external signature, previous = last block's signature), signer and verifier use the same generator per (block kind, version), the generators equal the specification's byte layout, seal signs what verify checks, to_proto/deserialize cover every wire field symmetrically, the third-party signer signs payload ++ previous signature ++ version. It does not decide byte-exact re-serialisation.",
  "note": "Trusted: oracle/signature_layout.json, prost. Not decided: byte equality of re-encoding, validity of signatures produced by dependencies.",
  "design_ref": "DESIGN.md §3 C02",
 },
 "C07": {
  "technique": "static analysis: dominance rules (append only after key equality and external-signature verification), positional may-depend analysis of the verification arguments, layout oracle for the external payload, HIR rules for table isolation and re-verification guard",
  "text": "Decides structural necessary conditions of C07 for all tokens/positions: a third-party block is appended only after the expected-key test and verify_external_signature over (payload, last block signature, version 1) succeeded; the external payload layout binds payload and previous signature; chain verification re-checks every external signature against the actual previous block and the block signature covers the external signature; third-party blocks never touch the token's symbol/public-key tables on any path (verified append, unverified append, reload, authorizer load, signer).",
  "note": "Trusted: layout oracle, rustc. Not decided: unforgeability; the unverified API defers signature checks to verify().",
  "design_ref": "DESIGN.md §3 C07",
 },
 "C08": {
  "technique": "static analysis: must-pass (dominance) rules on the secret requirement, HIR match-table rules on TokenNext, call-graph reachability of the gated container operations from every public extension path, layout oracle and may-depend rules for seal",
  "text": "Decides structural necessary conditions of finality for all tokens: every extension path (13 public paths on Biscuit/UnverifiedBiscuit) reaches a container operation that returns only after TokenNext::keypair() succeeded, which is Err(AlreadySealed) for a seal; third-party requests are refused on sealed containers; seal signs the specified payload of the last block with the carried secret, stores Seal, preserves blocks; sealed verification checks the seal and still verifies every block.",
  "note": "Trusted: layout oracle, rustc. Not decided: behavioural equality of sealed and unsealed authorization.",
  "design_ref": "DESIGN.md §3 C08",
 },
 "C12": {
  "technique": "static analysis: sibling-agreement rules over MIR/HIR on every path that threads the symbol and public-key tables (which mutators are called, on what, with which arguments, results propagated), with the reload path as reference; dominance rules for BlockBuilder::build offsets",
  "text": "Decides structural necessary conditions of in-memory/reloaded agreement for all operation sequences: each first-party path extends the token tables by exactly the new block's symbols and keys through the overlap-checking operations after a disjointness test, each third-party path leaves them untouched, the reload path does the same per block kind, blocks are built against a copy and split at offsets read first, printing picks the table by external key. It does not decide equality of authorization results.",
  "note": "Trusted: rustc; extract_blocks as the reference behaviour. Not decided: behavioural equality, byte-level round trip.",
  "design_ref": "DESIGN.md §3 C12",
 },
 "C15": {
  "technique": "static analysis: may-depend analysis of revocation_identifiers, preservation and freshness wiring rules, per-algorithm non-malleability table (required callee / required rejection), layout oracle for signature chaining",
  "text": "Decides structural necessary conditions of C15 for all tokens: identifiers are exactly the signature bytes in container order; append/seal preserve existing blocks; default paths draw a fresh OsRng key pair per block; per algorithm the verifier must reject every second encoding of a valid signature (ed25519 strict + exact length holds; P-256 lacks a high-S rejection: known finding, demonstrated); v1 payloads and the seal cover the previous signature and the chained scheme is monotone.",
  "note": "Trusted: dependency behaviour as read in vendored sources. Not decided: uniqueness across tokens (RNG quality).",
  "design_ref": "DESIGN.md §3 C15",
 },

 "C03": {
  "technique": "static analysis: HIR structural rules on the trust computation (default trust, scope -> origins table, superset direction), who-may-read rule for the fact store, provenance wiring, per-loop block-id agreement in authorize_inner",
  "text": "Decides structural necessary conditions of `attenuation only restricts` for all tokens/authorizers: facts reach evaluation only through the scope-filtered iterator whose filter is trusted ⊇ origin; default and explicit scopes insert exactly what the specification names; block i's facts/rules are loaded under i; each check is evaluated, trusted and reported with one and the same block id; derived facts carry matched origins + the rule's block and are all stored. It does not decide the implication over fixpoints of arbitrary programs.",
  "note": "Trusted: rustc HIR/typeck. Not decided: the monotonicity implication itself; non-monotone checks beyond per-block scoping.",
  "design_ref": "DESIGN.md §3 C03",
 },
 "C04": {
  "technique": "static analysis: HIR match-table rules (check-kind dispatch in the three loops, decision table expanded over {None, Some(Ok), Some(Err)} x {no failed check}), structural rules for policy order/first match, find_match / check_match_all tables, query scopes, MIR def-use rule for error propagation",
  "text": "Decides structural necessary conditions of the decision procedure for all compositions: identical One/All/Reject dispatch in the three check loops with errors propagated, the final decision table equals the specified mapping and always reports failed checks, policies are tried in order and the first match stops, `check if` is exists and `check all` is exists-and-forall, queries use the documented scopes, plus the trust/visibility/loading rules shared with C03. It does not decide equality with the specification on all programs.",
  "note": "Trusted: rustc HIR/typeck. Not decided: full semantic equivalence (needs an executable reference semantics).",
  "design_ref": "DESIGN.md §3 C04",
 },
 "C16": {
  "technique": "static analysis: HIR match-table expansion of the feature detectors over every enum variant compared with a version oracle; structural rule on visited positions (helper-aware); must-pass (dominance) rules for the load gates; structural rules for flags -> version and for signature-version selection",
  "text": "Decides structural necessary conditions of C16 for all block contents: every variant of Term/Op/Unary/Binary/CheckKind is classified by the detector exactly as the specification's feature table (unclassified or misclassified variants are violations), every position that can hold a feature is scanned, flags map to versions 3/4/6, check_compatibility refuses each feature under every lower declared version, both loaders return Ok only after range test and compatibility check, third-party blocks are >= 3.2, and the chained signature scheme is chosen when needed and monotone.",
  "note": "Trusted: oracle/feature_versions.json (from the specification), rustc resolution.",
  "design_ref": "DESIGN.md §3 C16",
 },
 "C17": {
  "technique": "static analysis: panic-source reachability with zones length-guard discharge for fixed-size conversions; HIR rule over every algorithm-dispatch arm (callee module, prefix strings, constructors); structural rules for unknown-algorithm rejection and PEM/DER auto-detection",
  "text": "Decides structural necessary conditions of C17 for all encodings: no reachable panic in any decode path (GenericArray conversions only behind an exact-length guard, ed25519 through checked try_into), every arm dispatching on an algorithm/key enum stays on its own algorithm (callees, prefix strings, constructors) across printers, parsers and the Datalog grammar, from_proto refuses unknown algorithm numbers on the raw value, auto-detection tries every algorithm. It does not decide round-trip equality or cryptographic binding.",
  "note": "Trusted: dependency crates; panic catalogue. Not decided: value round trips.",
  "design_ref": "DESIGN.md §3 C17",
 },

 "C13": {
  "technique": "static analysis: writer/reader field coverage by may-depend analysis over MIR aggregates and field stores; structural rules for generated-fact reinsertion, block reloading (index, third-party table), origin encoding tables, Block::translate, builder refusals",
  "text": "Decides structural necessary conditions of snapshot fidelity for all authorizers: each field of the snapshot messages is written from, and read back into, the matching piece of state (3 limits, execution time, iterations, symbols, keys, blocks, authorizer block, policies, generated facts per origin with usize::MAX <-> Authorizer), every generated fact is re-inserted, blocks are reloaded with their index and third-party blocks against the snapshot table, Block::translate moves facts/rules/checks/scopes into the snapshot table, the builder variant refuses snapshots with runtime state. It does not decide that restoring always succeeds or behaves identically.",
  "note": "Trusted: rustc MIR/HIR, prost types. Not decided: behavioural equality, lossy casts.",
  "design_ref": "DESIGN.md §3 C13",
 },
 "C14": {
  "technique": "static analysis: printer/parser table agreement - format templates (extracted from the expanded AST) of every printer arm against the grammar's tag/value tables (HIR), escape-chain inversion rule, who-must-call rule for quoted strings",
  "text": "Decides structural necessary conditions of print/parse round trips for all ASTs and strings: every site printing a string value between quotes goes through an escape helper whose replacement chain is the inverse of the parser's string grammar (backslash first); for each of the 29 binary and 5 unary operators the printed token is one the parser maps to the same variant (Binary::And/Or print `&&!`/`||!`, which parse as different code: known findings, demonstrated); keywords and the closure arrow printed by the builders are grammar literals. It does not decide precedence for op sequences that did not come from the parser.",
  "note": "Trusted: nom combinators; format templates from the compiler's expanded AST. Not decided: precedence/parenthesisation of arbitrary op stacks, date formatting.",
  "design_ref": "DESIGN.md §3 C14",
 },
 "C18": {
  "technique": "static analysis: table rules over the expanded quote! token streams (push_ident sequences in the type-checked HIR) of every ToTokens arm, over the From<parser::X> conversions, and sibling agreement of the two parameter collectors",
  "text": "Decides structural necessary conditions of macro/runtime equality for all sources: every variant of the 8 parser-side enums is re-emitted as the same variant of the biscuit_auth builder type with every payload interpolated, every field of the 6 structs is emitted, the runtime From conversions map each variant to itself and use every field (so both paths are the identity on AST nodes), the macro-side and runtime-side parameter collectors visit the same positions, and biscuit-quote adds items with the builder method of their kind and binds parameters with set_macro_param. It does not decide equality of resulting bytes.",
  "note": "Trusted: quote! expansion as seen in HIR, rustc resolution.",
  "design_ref": "DESIGN.md §3 C18",
 },
 "C19": {
  "technique": "static analysis: panic-source reachability from the 53 extern \"C\" functions with zones guard discharge (null-handle idiom, exact-length tests), take/restore pairing rule over MIR CFGs, same-object rule for raw buffer lengths vs copied bytes, error-channel rules",
  "text": "Decides structural necessary conditions of `never aborts / writes what it announces` for all call sequences: no undischarged panic source in any extern \"C\" function or helper (an abort), every builder wrapper restores the inner builder on every exit so handles never hold None, each raw output buffer is sized from the same object whose bytes are copied (or a constant valid for every key type - the P-256 public key case is a known finding, demonstrated), the sealed size query announces the sealed size, the error channel is overwritten on every failure and every null guard reports. It does not decide equality with the Rust API or caller pointer validity.",
  "note": "Trusted: rustc MIR, panic catalogue, allow-list reasons. Not decided: result equality, raw pointer validity.",
  "design_ref": "DESIGN.md §3 C19",
 },
 "C20": {
  "technique": "static analysis: sibling-agreement table rules over the collector / substituter / constructor functions of both ASTs (recursion into every container and Op::Value, unconditional value recursion), dominance rule validate-before-push, exhaustive-loop rule for strict setters, call-graph rule (no parser reachable from value binding), panic reachability in conversions",
  "text": "Decides structural necessary conditions of `parameters are data` for all items and values: collectors and substituters of both crates visit the same positions recursively (sets, arrays, map keys and values, terms inside expression values, closure bodies, scopes), every push into a builder is dominated by successful validation, strict setters bind every query and report unknown names, no parser function is reachable from binding or conversion (values are never re-parsed), and the only remaining `Remaining parameter` panic is the map-key case (known finding, demonstrated).",
  "note": "Trusted: rustc HIR/MIR. Not decided: nothing beyond AST-level replacement.",
  "design_ref": "DESIGN.md §3 C20",
 },
}
NOT_APPLICABLE = {}


# what the thorough tier adds to the quick tier (appended to level_note / technique by bin/mkmanifest.py); for the other properties
# the two tiers evaluate the same rule instances (every instance is cheap once the facts are extracted)
THOROUGH = {
 "C01": {"note": " Thorough tier adds the type-level part of TYPESTATE decided by the compiler itself: 4 compile-fail witnesses (E0624 private converter, E0616 private field, E0599 no authorizer on UnverifiedBiscuit, E0277 no key-less conversion), each with a compiling twin, built against the analysed tree with `cargo +nightly test --doc` (nothing is executed).",
         "technique": "; thorough tier: compile-fail witnesses with compiling twins (rustc privacy / trait checking)"},
 "C09": {"note": " Thorough tier also extracts a second feature configuration of biscuit-auth (bwk, uuid, serde-error) and runs REACH from the public functions it adds.",
         "technique": "; thorough tier: the same reachability analysis over a second feature configuration"},
 "C17": {"note": " Thorough tier also analyses the bwk/uuid/serde-error configuration: REACH from the added functions and WIRE/USED rules for the BiscuitWebKey <-> BiscuitWebKeyRepr key encoding.",
         "technique": "; thorough tier: second feature configuration (BiscuitWebKey encoding: may-depend and error-propagation rules)"},
}


# rule families added after the second seeding round (appended to the technique field)
ADDED = {
 "C01": "; finite abstract evaluation (interpreter over constructor tags) of the per-block verification-mode expression; provenance rule for every Biscuit construction site; match-table rule for the per-block external-signature scheme; inlining of delegated payload generators",
 "C02": "; last-block selector rule for the seal; verbatim-copy rule (single-definition def chain) for root_key_id; table-threading rules of the append paths",
 "C03": "; per-evaluation scope-argument rule (the trust passed to query_match* is the variable computed from that query's scopes); verbatim-copy detection in Rule::translate",
 "C04": "; finite abstract evaluation of the final decision of authorize_inner (6 cells, over the statements after the last loop), of find_match (3), of the policy-kind assignment and of check_match_all (loops interpreted zero times / once, 5 outcomes); per-evaluation scope-argument rule; verbatim-copy detection in Rule::translate",
 "C05": "; finite abstract evaluation of the term matcher over all pairs of Term variants; lookup-agreement rule for SymbolTable::get / insert (default symbols and own strings); both-operands rule (flow-sensitive may-depend per return, with a dominating-superset exception) for Origin::union",
 "C06": "; lookup-agreement rule for SymbolTable::get / insert; operand-role oracle for the non-commutative operators with pattern-binding tracking; stack pop-order rule; error-discipline rule for every symbol lookup",
 "C07": "; match-table rule for the scheme selection; single-use rule for the token-level table in the block loader",
 "C08": "; finite abstract evaluation of TokenNext::is_sealed / keypair; last-block selector rule",
 "C09": "; allow-list premises re-evaluated against the rule instances of the property they cite; allow-list entries follow a source that moves inside its function family; linear facts from checked_sub payloads; bounds checks indexed by an enum discriminant discharged from the discriminant values in the fact base",
 "C10": "; position rule fact-budget-before-fixpoint-exit; CFG rules on Authorizer::run (time recorded on every exit, evaluated-marker only under the success edge); unit agreement across snapshots",
 "C12": "; membership-test rule (no binary_search over unsorted tables); sibling rule for the two block accessors; single-use rule for the token-level table",
 "C13": "; finite abstract evaluation of the origin writer; unit agreement (as_nanos/from_nanos), zero-is-none guard, snapshot-table extension pairing, check-kind gate agreement of the two block loaders, saved-version dependence rule",
 "C14": "; substituted-clone rule for parameterised printers; producer/consumer field-coverage rule by projected type (parser result vs loaders, block carriers vs printers); pop-order rule; sibling rule for the block accessors",
 "C16": "; finite abstract evaluation of check_compatibility (64 cells) and block_signature_version (40 cells) against the specification; gate-comparison rule for check kinds; unconditional-gate rule (not inside a loop or closure)",
 "C17": "; remainder rule for string conversions built on grammar parsers (callee ends with eof, or the remainder is used); whole-run hex decoding rule; bounds checks indexed by an enum discriminant discharged from the discriminant values in the fact base",
 "C19": "; name-agreement table rule for error_kind (each error maps to the kind that names it)",
 "C18": "; parallel-binding rule over the generated `let` token sequences; field-coverage agreement between the macro and run time callers of the same parser entry point (SourceResult fields)",
 "C20": "; overwrite rule for parameter setters; parallel-binding rule over the generated `let` token sequences",
}
