#!/usr/bin/env python3
"""Run the mirfacts driver over /repo's *current* working tree and return the directory holding the
fact files.  Facts are cached by a content hash of every source file that can influence the build, so
the 20 checks of one run share a single extraction, and any edit to /repo invalidates it."""
import fcntl, hashlib, json, os, shutil, subprocess, sys, time

VERIF = os.path.dirname(os.path.dirname(os.path.abspath(__file__)))
REPO = os.environ.get("VERIF_REPO", "/repo")
WORK = os.path.join(VERIF, "work")
DRIVER = os.path.join(VERIF, "driver", "target", "release", "mirfacts")
EXPECTED_CRATES = ["biscuit_auth", "biscuit_capi", "biscuit_parser", "biscuit_quote"]
# configurations: "default" is what `cargo check --workspace` builds (workspace default features); "extra" adds the optional
# features of biscuit-auth whose dependencies are available offline (bwk: BiscuitWebKey; uuid: ToAnyParam for Uuid; serde-error:
# Serialize/Deserialize on the error types) - analysed by the thorough tier of C09 and C17
CONFIGS = {
    "default": {"args": ["--workspace"], "crates": EXPECTED_CRATES},
    "extra": {"args": ["-p", "biscuit-auth", "--features", "bwk,uuid,serde-error"], "crates": ["biscuit_auth", "biscuit_parser", "biscuit_quote"]},
}


def repo_hash(repo=REPO):
    h = hashlib.sha256()
    files = []
    for root, dirs, fs in os.walk(repo):
        dirs[:] = [d for d in dirs if d not in ("target", ".git")]
        for f in fs:
            if f.endswith((".rs", ".toml", ".lock", ".proto")):
                files.append(os.path.join(root, f))
    for p in sorted(files):
        h.update(p.encode())
        with open(p, "rb") as fh:
            h.update(hashlib.sha256(fh.read()).digest())
    with open(DRIVER, "rb") as fh:
        h.update(hashlib.sha256(fh.read()).digest())
    return h.hexdigest()[:24]


def sysroot():
    return subprocess.check_output(["rustc", "+nightly", "--print", "sysroot"], text=True).strip()


def extract(config="default", repo=REPO, extra_cargo_args=(), extra_rustflags=""):
    """config: name of the feature / flag configuration (part of the cache key)."""
    if not os.path.exists(DRIVER):
        print("extract: driver not built; run setup (make -C /verif setup)", file=sys.stderr)
        sys.exit(2)
    os.makedirs(WORK, exist_ok=True)
    # VERIF_LANE (development only: several scratch trees analysed in parallel) gives each lane its own lock and cargo target dir
    lane = os.environ.get("VERIF_LANE", "")
    lock = open(os.path.join(WORK, ".lock" + ("-" + lane if lane else "")), "w")
    fcntl.flock(lock, fcntl.LOCK_EX)
    try:
        hsh = repo_hash(repo)
        out = os.path.join(WORK, "facts", f"{config}-{hsh}")
        marker = os.path.join(out, "COMPLETE")
        if os.path.exists(marker):
            os.utime(marker)
            return out
        # drop stale fact dirs for this config (disk hygiene): incomplete ones (no extraction can be running, we hold the
        # lock) and complete ones not used for 30 minutes (a reader of another tree may still be loading a fresher one)
        fd = os.path.join(WORK, "facts")
        if os.path.isdir(fd):
            for d in os.listdir(fd):
                if d.startswith(config + "-"):
                    m = os.path.join(fd, d, "COMPLETE")
                    young = time.time() - os.path.getmtime(os.path.join(fd, d)) < 600      # may be another lane's extraction in progress
                    if (not os.path.exists(m) and not (lane and young)) or (os.path.exists(m) and time.time() - os.path.getmtime(m) > 1800):
                        shutil.rmtree(os.path.join(fd, d), ignore_errors=True)
        os.makedirs(out, exist_ok=True)
        target = os.path.join(WORK, "target-" + config + ("-" + lane if lane else ""))
        # cargo must not replay a cached run of the workspace members: remove their fingerprints
        for prof in ("debug",):
            fp = os.path.join(target, prof, ".fingerprint")
            if os.path.isdir(fp):
                for d in os.listdir(fp):
                    if d.startswith("biscuit-"):
                        shutil.rmtree(os.path.join(fp, d), ignore_errors=True)
        nonce = f"{hsh}-{int(time.time()*1000)}"
        env = dict(os.environ)
        env.update({
            "LD_LIBRARY_PATH": os.path.join(sysroot(), "lib"),
            "RUSTFLAGS": ("-Zmir-opt-level=0 -Awarnings " + extra_rustflags).strip(),
            "RUSTC_WORKSPACE_WRAPPER": DRIVER,
            "MIRFACTS_OUT": out,
            "MIRFACTS_NONCE": nonce,
            "CARGO_TARGET_DIR": target,
            "CARGO_NET_OFFLINE": "true",
        })
        env.pop("RUSTC_WRAPPER", None)
        t0 = time.time()
        cfg = CONFIGS.get(config, CONFIGS["default"])
        cmd = ["cargo", "+nightly", "check", "--offline", *cfg["args"], *extra_cargo_args]
        p = subprocess.run(cmd, cwd=repo, env=env, stdout=subprocess.PIPE, stderr=subprocess.STDOUT, text=True)
        if p.returncode != 0:
            sys.stderr.write(p.stdout[-6000:])
            print("extract: cargo check failed (the tree does not compile?)", file=sys.stderr)
            shutil.rmtree(out, ignore_errors=True)
            sys.exit(2)
        seen = set()
        for f in os.listdir(out):
            if f.endswith(".json"):
                with open(os.path.join(out, f)) as fh:
                    head = fh.read(400)
                if nonce not in head:
                    print(f"extract: stale fact file {f}", file=sys.stderr)
                    sys.exit(2)
                seen.add(f.split("-")[0])
        missing = [c for c in cfg["crates"] if c not in seen]
        if missing:
            print(f"extract: no facts for crates {missing} (driver skipped?)", file=sys.stderr)
            shutil.rmtree(out, ignore_errors=True)
            sys.exit(2)
        with open(marker, "w") as fh:
            json.dump({"nonce": nonce, "wall_s": time.time() - t0, "cmd": " ".join(cmd)}, fh)
        return out
    finally:
        fcntl.flock(lock, fcntl.LOCK_UN)
        lock.close()


if __name__ == "__main__":
    print(extract(*(sys.argv[1:2] or ["default"])))
