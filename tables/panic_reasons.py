"""One-off helper used while triaging: maps every undischarged panic-source key of today's tree to the reason it
cannot fire (allow) — or leaves it out, in which case REACH reports it (known finding or violation).
The output, tables/panic_sites.json, is the frozen table the checks read; this script is not run by any check."""
import json, re, sys
sys.path.insert(0, "/verif/rules")
import facts, reach

R = [
 (r"PrivateKey as std::clone::Clone>::clone\|Result::unwrap\|0$", "re-parsing the bytes of a private key that already parsed: from_bytes(self.to_bytes()) cannot fail"),
 (r"datalog::Rule::apply::\{closure#1\}\|Vec::index\|[01]$", "index ranges over 0..p.terms.len() of the same vector; IndexMut in the loop does not change its length"),
 (r"datalog::date\|Result::unwrap\|0$|token::builder::date\|Result::unwrap\|0$|biscuit_parser::builder::date\|Result::unwrap\|0$|From<std::time::SystemTime>>::from\|Result::unwrap\|0$", "caller-supplied SystemTime before the Unix epoch: API precondition on a value the application constructs, not external data"),
 (r"World::run_with_limits\|Overflow\(Add\)\|0$", "index += 1 runs at most max_iterations (u64) times: the >= limit test right after it leaves the loop first"),
 (r"FactSet::len::\{closure#0\}\|Overflow\(Add\)\|0$", "sum of the sizes of in-memory hash sets: bounded by addressable memory"),
 (r"TrustedOrigins::from_scopes\|Overflow\(Add\)\|0$", "guarded by current_block != usize::MAX on the dominating branch"),
 (r"SymbolTable::insert\|Overflow\(Add\)\|0$|SymbolTable::get::\{closure#2\}\|Overflow\(Add\)\|0$|TemporarySymbolTable::<'a>::insert\|Overflow\(Add\)\|[01]$|TemporarySymbolTable::<'a>::new\|Overflow\(Add\)\|0$", "OFFSET (1024) or a table offset plus a position inside an in-memory Vec<String>: bounded by addressable memory"),
 (r"SymbolTable::insert\|Overflow\(Sub\)\|0$|TemporarySymbolTable::<'a>::insert\|Overflow\(Sub\)\|0$|PublicKeys::insert\|Overflow\(Sub\)\|0$|PublicKeys::insert_fallible\|Overflow\(Sub\)\|0$", "len() - 1 immediately after a push to the same vector"),
 (r"SymbolTable::split_at\|Vec::split_off\|0$|PublicKeys::split_at\|Vec::split_off\|0$", "only called by BlockBuilder::build with the offsets it read from the same table before appending to it (C12 rule split-offsets checks this wiring)"),
 (r"From<std::convert::Infallible>>::from\|panic\|0$", "unreachable!() in a function whose argument type (Infallible) has no values"),
 (r"time::Instant as std::ops::(Add|Sub)<std::time::Duration>>::(add|sub)\|Option::unwrap\|0$", "only reachable with a caller-supplied max_time near Duration::MAX; limits restored from a snapshot are u64 nanoseconds (<= 584 years), which Instant can represent"),
 (r"Authorizer::(query|query_all|authorize)\|Duration-arith\|0$", "limits.max_time -= execution_time on the fall-through of `if execution_time >= limits.max_time { return Err(Timeout) }` (C10 rule time-budget-guard checks the guard)"),
 (r"Authorizer::(query_with_limits|query_all_with_limits|authorize_with_limits)\|Duration-arith\|0$", "sum of two measured wall-clock durations (u64 seconds): cannot overflow in practice"),
 (r"Authorizer::authorize_inner\|Vec::index\|[012]$", "self.blocks is Some only when it holds at least the authority block: build_inner collects token.blocks() (authority first) and from_snapshot sets it only when non-empty"),
 (r"Authorizer::dump(::\{closure#0\})?\|Result::unwrap\|[01]$", "convert_from only fails on an unknown symbol or key id; every block, fact and rule held by an Authorizer went through load_and_translate_block / translate at load, which rejects unknown ids (demonstrated: demos/src/bin/k3_print_unwraps.rs cases 1 and 4 are refused at load)"),
 (r"AuthorizerBuilder::time\|Result::unwrap\|0$|AuthorizerExt>::(allow_all|deny_all)\|Result::unwrap\|0$", "adds a constant, parameter-free item built by the library itself: validation cannot fail"),
 (r"Rule as token::builder::Convert<datalog::Rule>>::convert\|panic\|0$|Scope as token::builder::Convert<token::Scope>>::convert\|panic\|0$", "Scope::Parameter left after apply_parameters: every stored item passed validate_parameters, which requires all scope parameters bound (C20 rules 1-2)"),
 (r"Term as token::builder::Convert<datalog::Term>>::convert\|panic\|0$", "Term::Parameter left after apply_parameters: every stored item passed validation and the substituter visits every term position (C20 rules 1-2)"),
 (r"Term::to_datalog(::\{closure#2\})?\|panic\|0$", "only reachable when a user-registered extern function returns a parameter term; from_datalog never builds Parameter (C06 rule extern-result)"),
 (r"TryFrom<token::builder::term::Term> for std::time::SystemTime>::try_from\|time-arith\|0$", None),
 (r"(Biscuit|UnverifiedBiscuit)::append_with_keypair\|Option::expect\|0$", "last() of container.blocks right after append() pushed a block"),
 (r"(Biscuit|UnverifiedBiscuit)::block\|Vec::index\|1$", "container.blocks and blocks have the same length (all five constructors push to both); index - 1 < blocks.len() is proved for the sibling access by the dominating guard"),
 (r"parser::parse_source\|panic\|0$|parser::parse_block_source\|panic\|[01]$", "nom::Err::Incomplete arm: only streaming parsers return Incomplete, the grammar uses complete parsers"),
 (r"parser::(parse_source|parse_block_source)\|str::index\|\d+$|parser::(error|reduce)::\{closure#0\}\|str::index\|[01]$", "slice bounds come from str::find / Offset::offset on the same string (always a char boundary inside it); `;` is one byte"),
 (r"parser::(parse_source|parse_block_source)\|Overflow\(Add\)\|\d+$", "offset + index + 1 where both are positions inside the same in-memory string"),
 # capi
 (r"biscuit_capi::\w+::\{closure#0\}(::\{closure#0\})?\|RefCell::borrow(_mut)?\|0$", "thread-local RefCell borrowed for the duration of one closure that calls no other capi function: no re-entrant borrow"),
 (r"biscuit_capi::key_pair_new\|slice::copy_from_slice\|0$|biscuit_capi::biscuit_builder_build\|slice::copy_from_slice\|0$", "destination is [u8; 32] and the source length was tested != 32 -> return on the dominating branch"),
 (r"biscuit_capi::key_pair_serialize\|slice::copy_from_slice\|0$", "private keys serialise to 32 bytes for both algorithms (ed25519 SecretKey, P-256 scalar); buffer is 32 bytes by contract (C19 rule SIZE)"),
 (r"biscuit_capi::(BiscuitBuilder|BlockBuilder|AuthorizerBuilder)::\w+\|Option::unwrap\|0$", "self.0.take().unwrap(): the handle always holds Some - every wrapper stores Some(..) back on every exit (C19 rule PAIR checks this on every run) and constructors create Some"),
 (r"biscuit_capi::(biscuit_builder_build|biscuit_append_block)\|Option::expect\|0$", "builder.0 is always Some (C19 rule PAIR)"),
 (r"biscuit_capi::authorizer_builder_build(_unauthenticated)?\|Option::unwrap\|0$", "builder.0 is always Some (C19 rule PAIR); the NULL handle itself is returned through `?`"),
 (r"biscuit_capi::biscuit_serialize(_sealed)?\|slice::copy_from_slice\|0$", "buffer length is serialized_size() and the bytes are to_vec() of the same token: equal by construction (C19 rule SIZE checks the same-object wiring)"),
]
R = [(re.compile(a), b) for a, b in R]

fb = facts.load()
sites = {}
left = []
for b in sorted(fb.bodies.values(), key=lambda b: (b["file"], b["line"])):
    if reach.is_trusted_expansion(b):
        continue
    for key, s in reach.keyed_sites(fb, b):
        if reach.discharge(fb, b, s):
            continue
        for rx, reason in R:
            if rx.search(key):
                if reason:
                    sites[key] = {"disposition": "allow", "reason": reason}
                break
        else:
            left.append(f"{b['file']}:{s['ln']} {key}")
json.dump({"comment": "allow-list of panic sources that survive the local discharge rules; exact keys `<fn>|<source>|<ordinal>`, one reason each", "sites": sites}, open("/verif/tables/panic_sites.json", "w"), indent=1)
print(len(sites), "allowed")
print("\n".join(left))
