"""C11 — authorization is deterministic: no order-sensitive consumption of hash-ordered iterators on the decision path."""
import order, reach
from facts import CheckerError

A = "biscuit_auth::token::authorizer::Authorizer"
AB = "biscuit_auth::token::builder::authorizer::AuthorizerBuilder"


def check(fb, ctx):
    ctx.explanation = (
        "ORDER: in every body reachable from Authorizer::{run, authorize*, query*} and AuthorizerBuilder::{build, "
        "build_unauthenticated}, each call that consumes an iterator whose revealed type mentions a std HashMap/HashSet "
        "iterator (directly or through adaptor / CombineIt type arguments) is classified: exhaustive loops, loops whose early "
        "exits all return one constant, collects into sets/maps and commutative folds cannot observe the order; a first-element "
        "read, a loop with several / data-dependent early exits, or a collect into Result (first Err wins) can."
    )
    ents = [fb.body(f"{A}::{f}")["key"] for f in ("authorize", "authorize_with_limits", "query", "query_all", "query_with_limits", "query_all_with_limits", "run", "query_exactly_one")]
    ents += [fb.body(f"{AB}::{f}")["key"] for f in ("build", "build_unauthenticated")]
    pred = fb.reachable(ents)
    n = 0
    kinds = {}
    for k in sorted(pred):
        b = fb.bodies[k]
        if reach.is_trusted_expansion(b):
            continue
        seen = set()
        for kind, c, det in order.sites(fb, b):
            n += 1
            kinds[kind] = kinds.get(kind, 0) + 1
            inst = f"{b['path']}|{kind}"
            where = f"{b['file']}:{c.ln}"
            if kind in order.SENSITIVE:
                key = f"ORDER|{b['path']}|{kind}"
                if key in seen:
                    continue
                seen.add(key)
                chain = " -> ".join(p for p, _, _ in fb.path_to(pred, k)[-4:])
                ctx.fail("ORDER", inst, key, f"order-sensitive consumption of a hash-ordered iterator ({reach.short(c.rpath)}: {det}); reached via {chain}", where)
            else:
                ctx.ok("ORDER", inst, where, f"{reach.short(c.rpath)}: {det or kind}")
                if kind == "collect-seq":
                    ctx.note(f"{where}: results collected into a sequence in hash order ({b['path']}); treated as set-valued")
    # the fixpoint itself must not depend on the order in which rules / facts are visited: one merge per round,
    # every (origin, fact) kept, success only when nothing was added (shared with C05)
    from props import c05
    c05.shared_rules(fb, ctx, "C11", only={"FIXPOINT", "STORE"})
    ctx.analysed["ORDER"] = {"reachable_bodies": len(pred), "consumers": n, "by_kind": kinds}
    ctx.floor("hash-ordered consumers on the decision path", n, 10)
    # positive control: a synthetic body with `next()` on a hash_map::Iter outside any loop, payload used
    fake = {"path": "control", "key": "control", "file": "-", "line": 0, "argc": 0, "names": [], "locals": ["()", "std::collections::hash_map::Iter<'_, u32, u32>", "std::option::Option<(&u32, &u32)>", "&u32"],
            "blocks": [{"s": [], "t": {"k": "call", "f": {"k": "fn", "fn": {"key": "x", "path": "std::iter::Iterator::next", "rpath": "<std::collections::hash_map::Iter<'a, K, V> as std::iter::Iterator>::next"}}, "a": [{"k": "move", "pl": {"l": 1}}], "d": {"l": 2}, "t": 1, "ln": 1}},
                       {"s": [{"d": {"l": 3}, "r": {"k": "use", "op": {"k": "copy", "pl": {"l": 2, "p": ["as Some", ".0", ".0"]}}}, "ln": 2}], "t": {"k": "return"}}]}
    got = order.sites(fb, fake)
    ctx.control("ORDER classifier flags a first-element read of hash_map::Iter", bool(got) and got[0][0] == "first")
    ctx.not_decided = ["determinism of user extern functions and of time-based limits", "ordering of the Vec returned by query/query_all (treated as a set)"]
    ctx.trusted = ["revealed iterator types in MIR (RevealAll)", "std HashMap/HashSet iterate in an unspecified, per-instance order"]
