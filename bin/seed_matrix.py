#!/usr/bin/env python3
"""For every seeded change: apply it to /repo, run all 20 static checks on the changed tree, undo it. Writes
/verif/seeded/MATRIX.json : {seed id: {property: "DETECTED"|"missed"|"checker-error", ...}} plus the first violation line."""
import json, os, subprocess, sys
import concurrent.futures as cf
SRC = sys.argv[1] if len(sys.argv) > 1 else "/verif/seeded_incoming"
ONLY = sys.argv[2:]           # optional prefixes of the incoming directory names (e.g. r2c)
REPO = os.environ.get("VERIF_REPO", "/repo")   # the checks honour the same variable
import re
props = [f"C{i:02d}" for i in range(1, 21)]
SUBSET = [x for x in os.environ.get("PROPS", "").split(",") if x]   # re-run only these checks and merge the cells into the existing rows
out = {}
mp = os.environ.get("MATRIX", "/verif/seeded/MATRIX.json")
os.makedirs("/verif/seeded", exist_ok=True)
if os.path.exists(mp):
    out = json.load(open(mp))
st = subprocess.run(["git", "-C", REPO, "status", "--porcelain", "--untracked-files=no"], capture_output=True, text=True).stdout.strip()
if st:
    print("refusing: /repo dirty"); sys.exit(2)
def seeds():
    """either SRC/<prop>/<n>/patch.diff (incoming layout) or SRC/<seed id>/patch.diff (the confirmed seeds)"""
    for prop in sorted(os.listdir(SRC)):
        pd = os.path.join(SRC, prop)
        if not os.path.isdir(pd):
            continue
        if os.path.exists(os.path.join(pd, "patch.diff")):
            if not ONLY or any(prop.startswith(o) for o in ONLY):
                yield prop, os.path.join(pd, "patch.diff")
            continue
        for n in sorted(os.listdir(pd)):
            patch = os.path.join(pd, n, "patch.diff")
            if not os.path.exists(patch) or (ONLY and not any(prop.startswith(o) for o in ONLY)):
                continue
            pid = "C" + re.sub(r"\D", "", prop[-2:]).zfill(2)
            yield (f"{pid}-{n}" if not prop.startswith("r2") else f"{pid}-r2-{n}"), patch


for sid, patch in seeds():
    if True:
        if sid in out and not os.environ.get("FORCE"):
            continue
        run = SUBSET or props
        r = subprocess.run(["git", "-C", REPO, "apply", patch], capture_output=True, text=True)
        if r.returncode != 0:
            subprocess.run(["git", "-C", REPO, "checkout", "--", "."])
            r = subprocess.run(["patch", "-p1", "-F3", "--no-backup-if-mismatch", "-d", REPO, "-i", patch], capture_output=True, text=True)
        if r.returncode != 0:
            out[sid] = {"error": "patch does not apply"}
            subprocess.run(["git", "-C", REPO, "checkout", "--", "."])
            continue
        row = {}
        try:
            def one(p):
                c = subprocess.run(["/verif/check", p], capture_output=True, text=True, cwd="/verif")
                tag = "DETECTED" if (c.returncode == 1 and "VIOLATION property=" in c.stdout) else ("checker-error" if c.returncode != 0 else "missed")
                first = next((l.strip() for l in c.stdout.splitlines() if l.startswith("  rule=")), None) or next((l for l in c.stdout.splitlines() if l.startswith("CHECKER-ERROR")), None)
                return p, {"result": tag, "first": (first or "")[:260]}
            if SUBSET and isinstance(out.get(sid), dict) and "error" not in out[sid]:
                row = dict(out[sid])
            row.update([one(run[0])])          # first check performs the (locked, cached) extraction
            with cf.ThreadPoolExecutor(10) as ex:
                row.update(ex.map(one, run[1:]))
            row = {p: row[p] for p in props if p in row}
        finally:
            subprocess.run(["git", "-C", REPO, "reset", "-q"])
            subprocess.run(["git", "-C", REPO, "checkout", "--", "."])
        out[sid] = row
        json.dump(out, open(mp, "w"), indent=1)
        own = row.get(sid.split("-")[0], {}).get("result")
        print(sid, "own:", own, "all:", [p for p, v in row.items() if v["result"] == "DETECTED"], flush=True)
# leave evidence files describing the unchanged tree
if not SUBSET:
    with cf.ThreadPoolExecutor(10) as ex:
        list(ex.map(lambda p: subprocess.run(["/verif/check", p], capture_output=True, text=True, cwd="/verif"), props))
print("done")
